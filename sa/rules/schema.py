"""
E-D: on-disk schema extraction for HDF5 files.

For a function and one of its parameters (a path, an open h5py handle or a
group) compute, including callees and worker targets,

  keys_written   dataset / group names created in that file
  keys_read      names subscripted, each marked required or optional
                 (optional = the read is dominated by a membership test of
                 the same key, or the key is only tested for membership)

Keys are '/'-joined paths; a non-constant component is '*'.
"""
import ast

from ..core.cfg import cfg_of
from ..core.defuse import rd_of, Expander, term_alts
from ..core.loader import FunctionInfo, ClassInfo, unparse
from ..core.resolve import (resolve_callee, ext_name, bind_args,
                            process_target)

WRITE_METHODS = ('create_dataset', 'create_group', 'require_group',
                 'require_dataset')


class Access(object):
    __slots__ = ('key', 'kind', 'fi', 'site', 'required', 'via')

    def __init__(self, key, kind, fi, site, required=True, via=()):
        self.key = key
        self.kind = kind        # 'write' | 'read' | 'test' | 'iter'
        self.fi = fi
        self.site = site
        self.required = required
        self.via = via

    def where(self):
        return f'{self.fi.module.relpath}:{getattr(self.site, "lineno", 0)}'

    def __repr__(self):
        return f'<{self.kind} {self.key} {self.fi.qual}>'


def const_strings(ex, e, at=None):
    """possible constant strings of expression e, or None if not constant;
    loops over constant tuples, zip of constant tuples and dicts with
    constant keys are unrolled"""
    t = ex.expand(e, at)
    out = set()
    for alt in term_alts(t):
        s = _term_strings(alt)
        if s is None:
            return None
        out |= s
    return out


def _term_strings(t):
    if not isinstance(t, tuple) or not t:
        return None
    k = t[0]
    if k == 'const':
        try:
            v = ast.literal_eval(t[1])
        except Exception:
            return None
        if isinstance(v, str):
            return {v}
        return None
    if k == 'phi':
        out = set()
        for a in t[1]:
            s = _term_strings(a)
            if s is None:
                return None
            out |= s
        return out
    if k == 'iterelem':
        return _container_strings(t[1])
    if k == 'fmt':
        return _term_strings(t[1])
    if k == 'fstr':
        # cartesian product of the parts (bounded)
        acc = {''}
        for part in t[1]:
            ps = _term_strings(part)
            if ps is None:
                return None
            acc = {a + b for a in acc for b in ps}
            if len(acc) > 64:
                return None
        return acc
    if k == 'binop' and t[1] == 'Add':
        a = _term_strings(t[2])
        b = _term_strings(t[3])
        if a is None or b is None:
            return None
        return {x + y for x in a for y in b}
    if k == 'sub' and t[2][0] == 'const':
        # element i of a zip over constant tuples / of a tuple of tuples
        base = t[1]
        try:
            i = int(t[2][1])
        except ValueError:
            return None
        if base[0] == 'iterelem':
            c = base[1]
            if c[0] == 'call' and c[1] == ('name', 'zip') and i < len(c[2]):
                return _container_strings(c[2][i])
            if c[0] == 'call' and c[1] == ('name', 'enumerate') and i == 1 \
                    and c[2]:
                return _container_strings(c[2][0])
            if c[0] in ('tuple', 'list'):
                out = set()
                for el in c[1]:
                    if el[0] in ('tuple', 'list') and i < len(el[1]):
                        s = _term_strings(el[1][i])
                        if s is None:
                            return None
                        out |= s
                    else:
                        return None
                return out
            if c[0] == 'call' and isinstance(c[1], tuple) \
                    and c[1][0] == 'attr' and c[1][2] == 'items' and i == 0:
                return _container_strings(c[1][1])
        return None
    return None


def _container_strings(c):
    if c[0] in ('tuple', 'list', 'set'):
        out = set()
        for el in c[1]:
            s = _term_strings(el)
            if s is None:
                return None
            out |= s
        return out
    if c[0] == 'dict':
        out = set()
        for (kk, _v) in c[1]:
            s = _term_strings(kk)
            if s is None:
                return None
            out |= s
        return out
    if c[0] == 'call' and isinstance(c[1], tuple) and c[1][0] == 'attr' \
            and c[1][2] == 'keys':
        return _container_strings(c[1][1])
    if c[0] == 'call' and c[1] in (('name', 'list'), ('name', 'sorted'),
                                   ('name', 'tuple')) and c[2]:
        return _container_strings(c[2][0])
    if c[0] == 'phi':
        out = set()
        for a in c[1]:
            s = _container_strings(a)
            if s is None:
                return None
            out |= s
        return out
    return None


class H5Schema(object):

    def __init__(self, db, cg, pa):
        self.db = db
        self.cg = cg
        self.pa = pa               # PathAnalysis
        self._cache = dict()
        self._inprogress = set()

    # ------------------------------------------------------------------
    def accesses(self, fi, param):
        """list of Access on the file/handle denoted by parameter `param`
        of fi (including callees)"""
        key = (id(fi), param)
        if key in self._cache:
            return self._cache[key]
        if key in self._inprogress:
            return []
        self._inprogress.add(key)
        out = self._analyse(fi, param)
        self._inprogress.discard(key)
        self._cache[key] = out
        return out

    def written(self, fi, param):
        return {a.key: a for a in self.accesses(fi, param)
                if a.kind == 'write'}

    def required_reads(self, fi, param):
        out = dict()
        for a in self.accesses(fi, param):
            if a.kind == 'read' and a.required:
                out.setdefault(a.key, a)
        return out

    def all_reads(self, fi, param):
        out = dict()
        for a in self.accesses(fi, param):
            if a.kind in ('read', 'test'):
                out.setdefault(a.key, a)
        return out

    # ------------------------------------------------------------------
    def _handles(self, fi, param):
        """local names that denote a handle into file(param): name ->
        set of prefixes"""
        pa = self.pa
        env = pa.var_origins(fi)
        handles = dict()
        handles[param] = {''}
        # names bound by `with ... as name`: scoped to that with body
        with_bound = dict()
        handles['__with__'] = with_bound
        changed = True
        rounds = 0
        while changed and rounds < 6:
            rounds += 1
            changed = False
            for node in ast.walk(fi.node):
                pairs = []
                if isinstance(node, (ast.With, ast.AsyncWith)):
                    for it in node.items:
                        if isinstance(it.optional_vars, ast.Name):
                            pf = self._handle_prefixes(
                                fi, it.context_expr, param, handles, env)
                            key = (id(node), it.optional_vars.id)
                            old = with_bound.get(key)
                            if old != pf:
                                with_bound[key] = pf
                                changed = True
                    continue
                elif isinstance(node, ast.Assign) and len(
                        node.targets) == 1:
                    t = node.targets[0]
                    if isinstance(t, ast.Name):
                        pairs.append((t.id, node.value))
                    elif isinstance(t, ast.Attribute) and isinstance(
                            t.value, ast.Name) and t.value.id == 'self':
                        pairs.append((f'self.{t.attr}', node.value))
                for (name, value) in pairs:
                    pf = self._handle_prefixes(fi, value, param, handles,
                                               env)
                    if pf:
                        before = len(handles.get(name, ()))
                        handles.setdefault(name, set()).update(pf)
                        changed |= len(handles[name]) != before
        return handles

    def _denotes_file(self, fi, e, param, env):
        """does path expression e denote the file `param`?  `param` may
        also name a local variable holding a path created in fi"""
        if param not in fi.params:
            from .tempdirs import strip_identity
            v = strip_identity(self.db, fi, e)
            return isinstance(v, ast.Name) and v.id == param
        for (r, rel) in self.pa.origins(fi, e, env):
            if r == param and rel == 'same':
                return True
        return False

    def _handle_prefixes(self, fi, value, param, handles, env):
        """if `value` evaluates to a handle into file(param) return the
        set of group prefixes, else empty"""
        if isinstance(value, ast.Call):
            t = resolve_callee(self.db, fi, value)
            nm = ext_name(t)
            if nm == 'h5py.File':
                p = value.args[0] if value.args else None
                for kw in value.keywords:
                    if kw.arg == 'name':
                        p = kw.value
                if p is not None and self._denotes_file(fi, p, param, env):
                    return {''}
                return set()
            f = value.func
            if isinstance(f, ast.Attribute) and f.attr in (
                    'create_group', 'require_group') and value.args:
                base = self._expr_prefixes(f.value, handles)
                if base:
                    ks = self._keys(fi, value.args[0])
                    return {b + k + '/' for b in base for k in ks}
            # a repo context manager / class wrapping a handle
            if isinstance(t, ClassInfo):
                init = self.db.find_method(t, '__init__')
                if init is not None:
                    mapping, _ = bind_args(init, value)
                    for pn, a in mapping.items():
                        if self._denotes_file(fi, a, param, env):
                            # object opened on our file; treat the object
                            # itself as the handle
                            return {''}
            return set()
        if isinstance(value, ast.Subscript):
            base = self._expr_prefixes(value.value, handles)
            if base:
                ks = self._keys(fi, value.slice)
                return {b + k + '/' for b in base for k in ks}
        if isinstance(value, ast.Name):
            return set(handles.get(value.id, ()))
        if isinstance(value, ast.Attribute) and isinstance(
                value.value, ast.Name) and value.value.id == 'self':
            return set(handles.get(f'self.{value.attr}', ()))
        return set()

    def _expr_prefixes(self, e, handles):
        if isinstance(e, ast.Name):
            # innermost enclosing `with ... as <name>` decides
            p = getattr(e, '_parent', None)
            while p is not None and not isinstance(
                    p, (ast.FunctionDef, ast.AsyncFunctionDef)):
                if isinstance(p, (ast.With, ast.AsyncWith)):
                    key = (id(p), e.id)
                    wb = handles.get('__with__', {})
                    if key in wb:
                        # the context expression itself is outside
                        if not any(sub is e for it in p.items
                                   for sub in ast.walk(it.context_expr)):
                            return wb[key]
                p = getattr(p, '_parent', None)
            return handles.get(e.id, set())
        if isinstance(e, ast.Attribute) and isinstance(e.value, ast.Name) \
                and e.value.id == 'self':
            return handles.get(f'self.{e.attr}', set())
        return set()

    def _keys(self, fi, e):
        ex = self._expander(fi)
        s = const_strings(ex, e)
        if s is None:
            return {'*'}
        return s

    def _expander(self, fi):
        ex = getattr(fi, '_expander', None)
        if ex is None:
            ex = Expander(fi)
            try:
                fi._expander = ex
            except AttributeError:
                pass
        return ex

    def _analyse(self, fi, param):
        db = self.db
        pa = self.pa
        env = pa.var_origins(fi)
        handles = self._handles(fi, param)
        out = []
        cfg = cfg_of(fi)
        rd = rd_of(fi)

        def prefixes(e):
            return self._expr_prefixes(e, handles)

        # membership tests, for optional reads
        tested = dict()     # key -> [cfg node ids whose true edge guards]
        for node in cfg.nodes:
            if node.kind not in ('if', 'while') or node.id not in rd.live:
                continue
            for sub in ast.walk(node.ast.test):
                if isinstance(sub, ast.Compare) and len(sub.ops) == 1 \
                        and isinstance(sub.ops[0], (ast.In, ast.NotIn)):
                    c = sub.comparators[0]
                    target = c
                    if isinstance(c, ast.Call) and isinstance(
                            c.func, ast.Attribute) and c.func.attr == 'keys':
                        target = c.func.value
                    pf = prefixes(target)
                    if pf:
                        for k in self._keys(fi, sub.left):
                            for b in pf:
                                kk = b + k
                                edge = 'true' if isinstance(
                                    sub.ops[0], ast.In) else 'false'
                                tested.setdefault(kk, []).append(
                                    (node.id, edge))
                                out.append(Access(kk, 'test', fi, sub,
                                                  False))

        def guarded(key, site):
            for (nid, edge) in tested.get(key, ()):
                for sn in cfg.node_of_expr(site):
                    for (t, lab) in cfg.succ[nid]:
                        if lab == edge and (t == sn.id
                                            or cfg.dominates(t, sn.id)):
                            return True
            return False

        stack = list(ast.iter_child_nodes(fi.node))
        nodes = []
        while stack:
            n = stack.pop()
            if isinstance(n, (ast.FunctionDef, ast.AsyncFunctionDef,
                              ast.ClassDef)):
                continue
            nodes.append(n)
            stack.extend(ast.iter_child_nodes(n))
        for n in nodes:
            if isinstance(n, ast.Subscript):
                pf = prefixes(n.value)
                if not pf:
                    continue
                ks = self._keys(fi, n.slice)
                par = getattr(n, '_parent', None)
                is_store = isinstance(n.ctx, ast.Store)
                is_del = isinstance(n.ctx, ast.Del)
                for b in pf:
                    for k in ks:
                        kk = b + k
                        if is_store:
                            out.append(Access(kk, 'write', fi, n))
                        elif is_del:
                            out.append(Access(kk, 'delete', fi, n))
                        else:
                            out.append(Access(kk, 'read', fi, n,
                                              required=not guarded(kk, n)))
            elif isinstance(n, ast.Call):
                f = n.func
                if isinstance(f, ast.Attribute) and f.attr in WRITE_METHODS \
                        and n.args:
                    pf = prefixes(f.value)
                    if pf:
                        for k in self._keys(fi, n.args[0]):
                            for b in pf:
                                out.append(Access(b + k, 'write', fi, n))
                        continue
                if isinstance(f, ast.Attribute) and f.attr in (
                        'keys', 'items', 'values') and prefixes(f.value):
                    for b in prefixes(f.value):
                        out.append(Access(b + '*', 'iter', fi, n, False))
                    continue
                # calls into the package with the file / a handle
                t = resolve_callee(db, fi, n)
                pt = process_target(db, fi, n)
                if pt is not None and pt[0] is not None and isinstance(
                        pt[1], dict):
                    for pn, a in pt[1].items():
                        self._through_call(fi, n, pt[0], pn, a, param,
                                           handles, env, out)
                    continue
                callee = None
                if isinstance(t, FunctionInfo):
                    callee = t
                elif isinstance(t, ClassInfo):
                    callee = db.find_method(t, '__init__')
                nm = ext_name(t)
                if nm in ('anndata.experimental.write_elem',
                          'anndata.io.write_elem', 'anndata.write_elem',
                          'anndata._io.specs.write_elem') \
                        and len(n.args) >= 2:
                    pf = prefixes(n.args[0])
                    if pf:
                        for k in self._keys(fi, n.args[1]):
                            for b in pf:
                                out.append(Access(b + k, 'write', fi, n))
                    continue
                if nm in ('anndata.experimental.read_elem',
                          'anndata.io.read_elem', 'anndata.read_elem') \
                        and n.args:
                    # read_elem(h['k']) is a subscript, handled above
                    continue
                if callee is None:
                    continue
                mapping, _ = bind_args(callee, n)
                for pn, a in mapping.items():
                    self._through_call(fi, n, callee, pn, a, param,
                                       handles, env, out)
        # iteration `for k in handle`
        for n in nodes:
            if isinstance(n, (ast.For, ast.comprehension)):
                if prefixes(n.iter):
                    for b in prefixes(n.iter):
                        out.append(Access(b + '*', 'iter', fi, n, False))
        return out

    def _through_call(self, fi, call, callee, pn, a, param, handles, env,
                      out):
        pf = self._expr_prefixes(a, handles) if isinstance(
            a, (ast.Name, ast.Attribute)) else set()
        is_file = self._denotes_file(fi, a, param, env)
        if isinstance(a, ast.Subscript):
            pf2 = self._handle_prefixes(fi, a, param, handles, env)
            pf = pf | pf2
        if not pf and not is_file:
            return
        if is_file and not pf:
            pf = {''}
        for acc in self.accesses(callee, pn):
            for b in pf:
                k = b + acc.key
                if k.count('/') > 3:
                    continue        # recursive walkers: bounded depth
                out.append(Access(k, acc.kind, acc.fi, acc.site,
                                  acc.required,
                                  acc.via + ((fi, call),)))
