"""
Launcher:  python -m sa.run <ID> [--tier quick|thorough] [--repo DIR]
                               [--replay FILE] [--no-evidence]

exit 0  every obligation discharged (known findings printed)
exit 1  VIOLATION line(s) printed
exit 2  ANALYSIS-ERROR (the analysis could not run; never a verdict)
"""
import argparse
import importlib
import json
import os
import sys
import time
import traceback

from .core.loader import ProgramDB, AnalysisError
from .core.resolve import CallGraph, clear_caches
from .core.report import CheckContext, finish

CLAIMED = ['C01', 'C02', 'C03', 'C04', 'C05', 'C06', 'C07', 'C08', 'C09', 'C10', 'C11', 'C12',
           'C13', 'C14', 'C15', 'C16', 'C17', 'C18', 'C19', 'C20']


def analyse(prop_id, repo, tier, write_evidence=True, quiet=False,
            seed=0):
    """run one property's obligations on one tree; returns (exit, evidence,
    ctx)"""
    t0 = time.time()
    clear_caches()
    db = ProgramDB(repo)
    cg = CallGraph(db)
    meta = {'census': db.census(), 'resolution': cg.stats()}
    if meta['resolution']['unresolved'] > 0.1 * max(
            1, meta['resolution']['call_sites']):
        raise AnalysisError('call resolution below floor: '
                            f'{meta["resolution"]}')
    mod = importlib.import_module(f'sa.props.{prop_id}')
    ctx = CheckContext(prop_id, db, cg, tier)
    mod.check(ctx)
    # the generic structural rules over everything the anchors can call
    # (sa/rules/closure.py)
    from .rules.closure import check_closure_idioms
    if getattr(mod, 'GENERIC_SCAN', True):
        check_closure_idioms(ctx)
    # floors: a rule that matches (almost) nothing must not pass silently
    for rule, minimum in ctx.floors.items():
        n = ctx.count(rule)
        if n < minimum:
            raise AnalysisError(
                f'rule {rule} matched {n} instance(s), floor is {minimum}: '
                'the anchors of this rule were not recognised')
    if quiet:
        import io
        import contextlib
        buf = io.StringIO()
        with contextlib.redirect_stdout(buf):
            code, ev = finish(ctx, meta, t0, seed, mod.EXPLANATION,
                              mod.RULE_TEXT, mod.ASSUMPTIONS,
                              write_evidence=write_evidence)
    else:
        extra = None
        code, ev = finish(ctx, meta, t0, seed, mod.EXPLANATION,
                          mod.RULE_TEXT, mod.ASSUMPTIONS,
                          write_evidence=write_evidence, extra_cov=extra)
    return code, ev, ctx


def main(argv=None):
    ap = argparse.ArgumentParser()
    ap.add_argument('prop')
    ap.add_argument('--tier', default=os.environ.get('VERIF_TIER', 'quick'),
                    choices=['quick', 'thorough'])
    ap.add_argument('--repo', default=os.environ.get('VERIF_REPO', '/repo'))
    ap.add_argument('--replay', default=None)
    ap.add_argument('--no-evidence', action='store_true')
    args = ap.parse_args(argv)
    seed = int(os.environ.get('VERIF_SEED', '0') or 0)
    prop = args.prop
    try:
        if prop not in CLAIMED:
            print(f'ANALYSIS-ERROR property {prop} is not claimed '
                  '(see MANIFEST.json not_applicable)')
            return 2
        if args.replay:
            return replay(prop, args)
        if args.tier == 'thorough':
            from .selftest.driver import thorough
            return thorough(prop, args.repo, seed,
                            write_evidence=not args.no_evidence)
        code, ev, ctx = analyse(prop, args.repo, args.tier,
                                write_evidence=not args.no_evidence,
                                seed=seed)
        return code
    except AnalysisError as e:
        print(f'ANALYSIS-ERROR property={prop} {e}')
        return 2
    except Exception:
        print(f'ANALYSIS-ERROR property={prop} internal error')
        traceback.print_exc()
        return 2


def replay(prop, args):
    data = json.loads(open(args.replay).read())
    want = data['obligation']
    code, ev, ctx = analyse(prop, args.repo, data.get('tier', 'quick'),
                            write_evidence=False, quiet=True)
    found = [o for o in ctx.obligations
             if o.rule == want['rule'] and o.key == want['key']]
    if not found:
        print(f'replay: obligation {want["rule"]} {want["key"]} no longer '
              'exists on this tree')
        return 0
    rc = 0
    for o in found:
        print(json.dumps(o.as_dict(), indent=1))
        if not o.ok:
            print(f'VIOLATION property={prop} replay={args.replay}')
            rc = 1
    return rc


if __name__ == '__main__':
    sys.exit(main())
