"""
C20 -- cloud-safe outputs reveal no absolute path of the host.

Decided (DESIGN.md section 5, C20):
 1. sanitiser coverage: in run_mapping (and the on-the-fly wrapper), under
    the cloud_safe flag, what is stored under `config` and `log` of the
    output and what write_log writes has passed through sanitize_paths,
    and the two directory keys are removed; the module recorded in the
    metadata is relative to the package.
 2. recognisability of repo-authored messages: in every function reachable
    from run_mapping, a path-valued expression interpolated into a message
    is either reduced to its name or starts a whitespace/quote-delimited
    word, which is what the tokeniser of sanitize_paths can recognise.
"""
import ast

from ..core.cfg import cfg_of
from ..core.constprop import feasible, UNKNOWN
from ..core.defuse import rd_of, Expander, fmt_term, term_alts
from ..core import terms as T
from ..core.loader import unparse, AnalysisError, FunctionInfo
from ..core.resolve import resolve_callee, bind_args
from ..core.slicing import backward_slice
from ..rules.effects import PathAnalysis

ID = 'C20'

# the generic data-path rules (sa/rules/closure.py) say nothing about this
# property (scheduling / failure / scratch / path disclosure)
GENERIC_SCAN = False

EXPLANATION = (
    "Static analysis. (1) Conditional constant propagation over "
    "run_mapping / OnTheFlyMapper.run under the assumption cloud_safe = "
    "True restricts the CFG to the feasible region; within it the "
    "definitions of the values stored under output['config'] and "
    "output['log'] that reach the stores are shown (reaching definitions) "
    "to be results of sanitize_paths, the pops of 'tmp_dir' and "
    "'extended_result_dir' are feasible and precede the store, write_log "
    "is given the flag and, in CommandLog.write_log, the lines written "
    "derive from sanitize_paths under that flag; get_execution_metadata "
    "records the module relative to the package. sanitize_paths itself is "
    "checked to recurse into dicts and lists. (2) For every function in "
    "the call-graph closure of run_mapping, every interpolation of a "
    "path-valued expression (path-effect analysis: the value denotes a "
    "parameter or local that the function or a callee opens, copies, "
    "lists or removes) into an f-string or string concatenation must be "
    "preceded by whitespace, a quote or the start of the string, unless "
    "it is projected to .name; the sanitiser splits on whitespace, strips "
    "quotes and tolerates trailing but not leading punctuation. Text "
    "produced by third-party libraries and the correctness of is_exposed "
    "are not decided.")

EXPLANATION += (
    ' Added after the seeded rounds: inside sanitize_paths the replaced '
    'text is the word as it occurs and the replacement a bare or '
    'package-relative name; is_exposed tests every ancestor and both '
    'kinds of entry.'
)

EXPLANATION += (
    ' Round 5: path-bearing messages are not raised as KeyError, whose repr rendering hides the path from the sanitiser (R-ROLE/path-in-message/rendered-as-text); settings are forwarded (R-FWD).'
)

EXPLANATION += (
    ' Round 8: every alternative of the recorded module path is relative to the package (R-MUST/module-relative).'
)

EXPLANATION += (
    ' Round 9: a string with a path interpolated into it is only ever a raised or logged message (R-ROLE/path-in-message/message-only).'
)

EXPLANATION += (
    ' Round 10: the .name of an open file object is judged as the path it was opened with.'
)

EXPLANATION += (
    ' Round 11: path-valued arguments make the parameters they are bound to path-valued (propagated to a fixpoint).'
)

EXPLANATION += (
    ' Round 12: is_exposed answers False early only where the walk over the ancestors ends (R-MUST/exposure-walks-ancestors).'
)

EXPLANATION += (
    ' Round 14: the helper that makes the path handed to is_exposed returns Path(word minus removed characters) on every path (R-SAMEVAL/word-tested-as-is).'
)

EXPLANATION += (
    ' Round 15: a path is never interpolated with !r (R-ROLE/path-in-message/rendered-as-text).'
)

RULE_TEXT = (
    "one obligation per emitted value (config, log, log file, module), "
    "per removed key, per path interpolation site")

ASSUMPTIONS = [
    "sanitize_paths tokenises on whitespace, strips quotes, and through "
    "its parent recursion tolerates trailing punctuation (read from "
    "cloud_utils.py; its recursion into containers is checked)",
    "third-party message text is out of scope",
    "necessary conditions only",
]

SANITIZER = 'utils.cloud_utils:sanitize_paths'


def check(ctx):
    pa = PathAnalysis(ctx.db, ctx.cg)
    check_sanitizer_shape(ctx)
    check_sanitizer_words(ctx)
    check_word_is_tested_as_path(ctx)
    check_exposure_test(ctx)
    check_run_mapping(ctx)
    check_write_log(ctx)
    check_otf(ctx)
    check_metadata_module(ctx)
    check_messages(ctx, pa)
    # settings this property depends on are handed down every call
    # chain, never left to a callee's default (sa/rules/forwarding.py)
    from ..rules.forwarding import check_forwarding
    check_forwarding(ctx, {'cloud_safe', 'log'})


def _assume_cloud_safe(e, env):
    if isinstance(e, ast.Subscript) and isinstance(
            e.slice, ast.Constant) and e.slice.value == 'cloud_safe':
        return True
    if isinstance(e, ast.Name) and e.id == 'cloud_safe':
        return True
    return UNKNOWN


def _is_sanitize_call(db, fi, e):
    return isinstance(e, ast.Call) and isinstance(
        resolve_callee(db, fi, e), FunctionInfo) and resolve_callee(
            db, fi, e).qual == SANITIZER


def _defs_in(rd, name, nid, feas):
    return [d for d in rd.reaching(name, nid) if d.node in feas.nodes]


def check_sanitizer_shape(ctx):
    """sanitize_paths recurses into dict values and list elements and
    rewrites strings word by word"""
    db = ctx.db
    fi = db.fn(SANITIZER)
    ctx.touch(fi)
    rule = 'R-MUST/sanitizer-recursion'
    rec = {'dict': False, 'list': False, 'str': False}
    for n in ast.walk(fi.node):
        if isinstance(n, ast.If) and isinstance(n.test, ast.Call) \
                and isinstance(n.test.func, ast.Name) \
                and n.test.func.id == 'isinstance' \
                and len(n.test.args) == 2 and isinstance(
                    n.test.args[1], ast.Name):
            kind = n.test.args[1].id
            body_calls = [c for b in n.body for c in ast.walk(b)
                          if isinstance(c, ast.Call)]
            if kind in ('dict', 'list'):
                rec[kind] = any(isinstance(c.func, ast.Name)
                                and c.func.id == fi.name
                                for c in body_calls)
            if kind == 'str':
                rec['str'] = any(isinstance(c.func, ast.Attribute)
                                 and c.func.attr == 'split'
                                 for c in body_calls) and any(
                    isinstance(c.func, ast.Name) and c.func.id
                    == 'is_exposed' for c in body_calls)
    for k, v in rec.items():
        ctx.ob(rule, f'sanitize_paths:{k}', fi.loc(), v,
               f'{k} values are sanitised' + (
                   ' recursively' if k != 'str' else ' word by word')
               if v else
               f'sanitize_paths no longer handles {k} values: paths '
               'nested in the configuration / log would pass unchanged')


def check_sanitizer_words(ctx):
    """inside the string arm of the sanitiser: what is replaced is the word
    as it occurs in the text, and what it is replaced by carries no
    directory of the host"""
    db = ctx.db
    fi = db.fn(SANITIZER)
    cfg = cfg_of(fi)
    rd = rd_of(fi)
    ex = Expander(fi)
    rule = 'R-SAMEVAL/sanitizer-substitution'
    # the table(s) whose keys are fed to str.replace as the text to replace
    tables = set()
    for n in ast.walk(fi.node):
        if isinstance(n, ast.Call) and isinstance(n.func, ast.Attribute) \
                and n.func.attr == 'replace' and len(n.args) == 2:
            sl = backward_slice(fi, n.args[1])
            for st in ast.walk(fi.node):
                if isinstance(st, ast.Assign) and isinstance(
                        st.targets[0], ast.Subscript) and isinstance(
                            st.targets[0].value, ast.Name) \
                        and st.targets[0].value.id in sl.names:
                    tables.add(st.targets[0].value.id)
    stores = []
    for node in cfg.nodes:
        if node.kind == 'stmt' and node.id in rd.live and isinstance(
                node.ast, ast.Assign) and isinstance(
                    node.ast.targets[0], ast.Subscript) and isinstance(
                        node.ast.targets[0].value, ast.Name) \
                and node.ast.targets[0].value.id in tables:
            stores.append(node)
    if not stores:
        ctx.fail(rule, 'sanitize_paths:table', fi.loc(),
                 'no table of (word -> replacement) feeding str.replace '
                 'was found in the string arm of the sanitiser')
        return
    for node in stores:
        st = node.ast
        kt = ex.expand(st.targets[0].slice, node.id)
        ok = kt[0] == 'iterelem' and T.call_name(kt[1]) == 'split'
        ctx.ob(rule, 'sanitize_paths:replaced-text', fi.loc(st), ok,
               'the text that is replaced is the word exactly as it '
               'occurs in the message' if ok else
               f'the text to replace is `{unparse(st.targets[0].slice)}` '
               f'(= {fmt_term(kt)[:80]}), not the word as it occurs in the '
               'message: str.replace does nothing when that spelling is '
               'not a substring (quotes, `//`, `/./`), and the absolute '
               'path stays')
        vt = ex.expand(st.value, node.id)
        bad = None
        for alt in term_alts(vt):
            txt = fmt_term(alt)
            if not (alt[0] == 'attr' and alt[-1] == 'name') \
                    and 'relative_to' not in txt:
                bad = txt
        ctx.ob(rule, 'sanitize_paths:replacement', fi.loc(st), bad is None,
               'the replacement is the file name, or the path relative to '
               'the package' if bad is None else
               f'a word can be replaced by {bad[:80]}, which is neither '
               'a bare file name nor a package-relative path')


def check_exposure_test(ctx):
    """a word is a host path if *any* leading part of it exists: scratch
    files are gone by the time the log is sanitised, but the directories
    above them are not.  is_exposed therefore walks all the ancestors
    (recursion on .parent, or a loop over .parents), and a word for which
    it answers True is always substituted."""
    db = ctx.db
    fi = db.fn('utils.cloud_utils:is_exposed')
    ctx.touch(fi)
    rule = 'R-MUST/exposure-walks-ancestors'
    walks = False
    for n in ast.walk(fi.node):
        if isinstance(n, ast.Call) and isinstance(n.func, ast.Name) \
                and n.func.id == fi.name and n.args:
            a = n.args[0]
            if isinstance(a, ast.Attribute) and a.attr == 'parent':
                walks = True
        if isinstance(n, (ast.For, ast.comprehension)):
            it = n.iter
            if isinstance(it, ast.Attribute) and it.attr == 'parents':
                walks = True
    ctx.ob(rule, 'is_exposed:ancestors', fi.loc(), walks,
           'every ancestor of the word is tested for existence' if walks
           else 'is_exposed no longer tests every ancestor of the word: a '
           'path below a directory that still exists (a removed scratch '
           'file, a file yet to be written) is not recognised, and is '
           'written to the log / config with its directories')
    # "not exposed" without looking further up is answered only where the
    # walk ends: at the empty path '.' and at the root '/'.  Any other
    # early `return False` (a length limit, a pattern, a suffix) cuts the
    # walk for some words and leaves their existing ancestors undetected
    cfg = cfg_of(fi)
    rd = rd_of(fi)
    from ..core.guards import facts_at
    k = 0
    for r in cfg.nodes:
        if r.kind != 'return' or r.id not in rd.live \
                or r.ast.value is None:
            continue
        v = r.ast.value
        if not (isinstance(v, ast.Constant) and v.value is False):
            continue
        k += 1
        facts = facts_at(cfg, rd, r.id)
        ends = False
        for (_g, test, truth) in facts:
            if truth and isinstance(test, ast.Compare) and len(
                    test.ops) == 1 and isinstance(test.ops[0], ast.Eq):
                sides = [test.left, test.comparators[0]]
                for sd in sides:
                    if isinstance(sd, ast.Call) and getattr(
                            sd.func, 'attr', getattr(sd.func, 'id', None)) \
                            == 'Path' and len(sd.args) == 1 and isinstance(
                                sd.args[0], ast.Constant) \
                            and sd.args[0].value in ('.', '/', ''):
                        ends = True
        for (_g, test, truth) in facts:
            # `anc in (Path('.'), Path('/'))`
            if truth and isinstance(test, ast.Compare) and len(
                    test.ops) == 1 and isinstance(test.ops[0], ast.In) \
                    and isinstance(test.comparators[0], (ast.Tuple,
                                                         ast.List,
                                                         ast.Set)) \
                    and test.comparators[0].elts and all(
                        isinstance(e, ast.Call) and getattr(
                            e.func, 'attr', getattr(e.func, 'id', None))
                        == 'Path' and len(e.args) == 1 and isinstance(
                            e.args[0], ast.Constant)
                        and e.args[0].value in ('.', '/', '')
                        for e in test.comparators[0].elts):
                ends = True
        if not ends and not any(tr for (_g, _t, tr) in facts):
            # the plain `return False` after a loop over `.parents`: every
            # ancestor has been looked at
            after_walk = any(
                isinstance(lp, ast.For) and isinstance(
                    lp.iter, ast.Attribute) and lp.iter.attr == 'parents'
                and getattr(lp, 'end_lineno', 0) < getattr(
                    r.ast, 'lineno', 0)
                for lp in ast.walk(fi.node))
            ends = after_walk
        ctx.ob(rule, f'is_exposed:return-false#{k - 1}', fi.loc(r.ast),
               ends, 'answered only where the walk over the ancestors ends'
               if ends else
               f'`return False` under '
               f'{[unparse(t)[:40] for (_g, t, tr) in facts if tr] or "no test"} '
               'ends the walk before every ancestor was tested: words '
               'that satisfy the test keep their existing directories in '
               'the output')
    # existence tests: both files and directories count
    kinds = {c.func.attr for c in ast.walk(fi.node)
             if isinstance(c, ast.Call) and isinstance(
                 c.func, ast.Attribute)
             and c.func.attr in ('is_file', 'is_dir', 'exists')}
    ok = 'exists' in kinds or {'is_file', 'is_dir'} <= kinds
    ctx.ob(rule, 'is_exposed:existence', fi.loc(), ok,
           'existing files and existing directories both expose a path'
           if ok else
           f'is_exposed tests only {sorted(kinds)}: a path is not '
           'recognised when the other kind of entry exists')


def check_run_mapping(ctx):
    db = ctx.db
    fi = db.fn('cli.from_specified_markers:run_mapping')
    ctx.touch(fi)
    cfg = cfg_of(fi)
    rd = rd_of(fi)
    feas = feasible(fi, _assume_cloud_safe, follow_exc=True)
    rule = 'R-MUST/sanitised'
    stores = dict()
    for node in cfg.nodes:
        if node.kind != 'stmt' or node.id not in rd.live \
                or node.id not in feas.nodes:
            continue
        s = node.ast
        if isinstance(s, ast.Assign):
            for tg in s.targets:
                if isinstance(tg, ast.Subscript) and isinstance(
                        tg.slice, ast.Constant) and tg.slice.value in (
                            'config', 'log'):
                    stores.setdefault(tg.slice.value, []).append((node, s))
    for key in ('config', 'log'):
        if key not in stores:
            ctx.fail(rule, f"run_mapping:output['{key}']", fi.loc(),
                     f"output['{key}'] is never stored")
            continue
        for (node, s) in stores[key]:
            ok, detail = _value_sanitised(db, fi, rd, feas, s.value,
                                          node.id)
            ctx.ob(rule, f"run_mapping:output['{key}']", fi.loc(s), ok,
                   f"under cloud_safe the value stored as '{key}' is the "
                   'result of sanitize_paths' if ok else
                   f"under cloud_safe output['{key}'] is {detail}: "
                   'absolute paths reach the output file')
    # the two directory keys are removed before the config is stored
    for k in ('tmp_dir', 'extended_result_dir'):
        ok = False
        for node in cfg.nodes:
            if node.id not in feas.nodes or node.id not in rd.live:
                continue
            for c in cfg.calls_in(node):
                if isinstance(c.func, ast.Attribute) \
                        and c.func.attr == 'pop' and c.args and isinstance(
                            c.args[0], ast.Constant) \
                        and c.args[0].value == k:
                    for (sn, s) in stores.get('config', []):
                        if isinstance(s.value, ast.Name) and isinstance(
                                c.func.value, ast.Name) \
                                and c.func.value.id == s.value.id:
                            # within the feasible region every path to
                            # the store passes the pop
                            p_ = cfg.path(
                                cfg.entry, {sn.id},
                                avoid=lambda n, _i=node.id: n.id == _i,
                                edge_ok=lambda a, b, lab:
                                (a, b, lab) in feas.edges)
                            if p_ is None:
                                ok = True
        ctx.ob('R-MUST/dir-keys-removed', f'run_mapping:{k}', fi.loc(), ok,
               f"'{k}' is removed from the recorded configuration" if ok
               else f"under cloud_safe the key '{k}' stays in the recorded "
               'configuration (its value is an existing directory of the '
               'host)')
    # the log file: write_log receives the flag
    wl = []
    for node in cfg.nodes:
        if node.id not in rd.live:
            continue
        for c in cfg.calls_in(node):
            if isinstance(c.func, ast.Attribute) \
                    and c.func.attr == 'write_log':
                wl.append(c)
    for c in wl:
        flag = None
        for kw in c.keywords:
            if kw.arg == 'cloud_safe':
                flag = kw.value
        if flag is None and len(c.args) > 1:
            flag = c.args[1]
        ok = flag is not None and isinstance(
            flag, ast.Subscript) and isinstance(
                flag.slice, ast.Constant) \
            and flag.slice.value == 'cloud_safe'
        ctx.ob(rule, 'run_mapping:write_log-flag', fi.loc(c), ok,
               'write_log is given the cloud_safe flag' if ok else
               'write_log is not given config[\'cloud_safe\']: the log '
               'file is written unsanitised')
    if not wl:
        ctx.fail(rule, 'run_mapping:write_log-flag', fi.loc(),
                 'write_log is never called')
    # nothing else derived from the raw config / raw log is stored in the
    # output inside the finally block
    ex = Expander(fi)
    for node in cfg.nodes:
        if node.kind != 'stmt' or node.id not in rd.live \
                or node.id not in feas.nodes:
            continue
        s = node.ast
        if isinstance(s, ast.Assign):
            for tg in s.targets:
                if isinstance(tg, ast.Subscript) and isinstance(
                        tg.value, ast.Name) and tg.value.id == 'output' \
                        and isinstance(tg.slice, ast.Constant) \
                        and tg.slice.value not in ('config', 'log'):
                    t = ex.expand(s.value, node.id)
                    raw = any(x == ('param', 'config') or (
                        x[0] == 'attr' and x[2] in ('log', '_log'))
                        for x in T.subterms(t)) and not T.has_call(
                        t, 'sanitize_paths')
                    # values read *through* the config (file contents) are
                    # not the config
                    if T.has_call(t, 'read_uns_from_h5ad') or T.has_call(
                            t, 'get_execution_metadata'):
                        raw = False
                    ctx.ob(rule + '/other-keys',
                           f"run_mapping:output['{tg.slice.value}']",
                           fi.loc(s), not raw,
                           'not derived from the raw configuration / log'
                           if not raw else
                           f"output['{tg.slice.value}'] is derived from "
                           'the unsanitised configuration or log')


def _value_sanitised(db, fi, rd, feas, value, nid, depth=0):
    """every feasible reaching definition of the stored value is a
    sanitize_paths(...) result"""
    if _is_sanitize_call(db, fi, value):
        return True, ''
    if isinstance(value, ast.Name) and depth < 4:
        defs = _defs_in(rd, value.id, nid, feas)
        if not defs:
            return False, f'`{value.id}` (no feasible definition)'
        # a later definition overrides: only those that are the *last* on
        # some feasible path reach here, which is what `reaching` gives,
        # but the unsanitised initial copy also reaches when the sanitise
        # call sits under the flag -- under the assumption the branch is
        # taken, so the initial copy is killed there.
        bad = []
        for d in defs:
            if d.kind != 'assign':
                bad.append(d)
                continue
            ok, det = _value_sanitised(db, fi, rd, feas, d.value, d.node,
                                       depth+1)
            if not ok:
                # is this definition killed on every feasible path?
                if _killed_before(rd, feas, d, value.id, nid):
                    continue
                bad.append(d)
        if bad:
            b = bad[0]
            if b.stmt is None:
                return False, f'the {b.kind} `{b.name}` itself'
            return False, (f'`{unparse(b.stmt)[:70]}` '
                           f'(L{b.stmt.lineno})')
        return True, ''
    return False, f'`{unparse(value)[:60]}`'


def _killed_before(rd, feas, d, name, nid):
    """no feasible path from d to nid avoids another definition of name"""
    cfg = rd.cfg
    redefs = {x.node for x in rd.defs if x.name == name and x.id != d.id}

    def edge_ok(a, b, lab):
        return (a, b, lab) in feas.edges
    p = cfg.path(d.node, {nid}, avoid=lambda n: n.id in redefs,
                 edge_ok=edge_ok)
    return p is None


def check_write_log(ctx):
    db = ctx.db
    fi = db.fn('cli.cli_log:CommandLog.write_log')
    ctx.touch(fi)
    cfg = cfg_of(fi)
    rd = rd_of(fi)
    feas = feasible(fi, _assume_cloud_safe, follow_exc=False)
    rule = 'R-MUST/sanitised'
    # the lines written derive from the sanitised list
    loops = [n for n in cfg.nodes if n.kind == 'for' and n.id in rd.live
             and n.id in feas.nodes]
    ok = False
    detail = 'no loop writing the log lines found'
    for lp in loops:
        writes = [c for b in lp.ast.body for c in ast.walk(b)
                  if isinstance(c, ast.Call) and isinstance(
                      c.func, ast.Attribute) and c.func.attr == 'write']
        if not writes:
            continue
        good, detail = _value_sanitised(db, fi, rd, feas, lp.ast.iter,
                                        lp.id)
        ok = good
    ctx.ob(rule, 'CommandLog.write_log:lines', fi.loc(), ok,
           'under cloud_safe the lines written to the log file are the '
           'sanitised ones' if ok else
           f'under cloud_safe write_log writes {detail}')
    # default of the flag must not hide an unsanitised call: checked at the
    # call site in run_mapping


def check_otf(ctx):
    db = ctx.db
    fi = db.functions.get('cli.map_to_on_the_fly_markers:OnTheFlyMapper.run')
    if fi is None:
        raise AnalysisError('anchor definition not found: '
                            'OnTheFlyMapper.run')
    ctx.touch(fi)
    cfg = cfg_of(fi)
    rd = rd_of(fi)
    feas = feasible(fi, _assume_cloud_safe, follow_exc=True)
    rule = 'R-MUST/sanitised'
    found = False
    for node in cfg.nodes:
        if node.kind != 'stmt' or node.id not in rd.live \
                or node.id not in feas.nodes:
            continue
        s = node.ast
        if isinstance(s, ast.Assign):
            for tg in s.targets:
                if isinstance(tg, ast.Subscript) and isinstance(
                        tg.slice, ast.Constant) \
                        and tg.slice.value == 'config':
                    found = True
                    ok, detail = _value_sanitised(db, fi, rd, feas,
                                                  s.value, node.id)
                    ctx.ob(rule, "OnTheFlyMapper.run:results['config']",
                           fi.loc(s), ok,
                           'the re-written config is sanitised under '
                           'cloud_safe' if ok else
                           'under cloud_safe the on-the-fly mapper '
                           f're-writes the config with {detail}')
    if not found:
        ctx.ok(rule, "OnTheFlyMapper.run:results['config']", fi.loc(),
               'the wrapper does not re-write the config',
               nontrivial=False)
    for k in ('tmp_dir', 'extended_result_dir'):
        ok = any(isinstance(c, ast.Call) and isinstance(
            c.func, ast.Attribute) and c.func.attr == 'pop' and c.args
            and isinstance(c.args[0], ast.Constant)
            and c.args[0].value == k for c in ast.walk(fi.node))
        ctx.ob('R-MUST/dir-keys-removed', f'OnTheFlyMapper.run:{k}',
               fi.loc(), ok or not found,
               f"'{k}' is removed" if ok else
               f"the on-the-fly wrapper keeps '{k}' in the recorded "
               'configuration')


def check_metadata_module(ctx):
    db = ctx.db
    fi = db.fn('utils.output_utils:get_execution_metadata')
    ctx.touch(fi)
    cfg = cfg_of(fi)
    rd = rd_of(fi)
    ex = Expander(fi)
    rule = 'R-MUST/module-relative'
    ok = False
    detail = 'metadata[\'module\'] is never stored'
    for node in cfg.nodes:
        if node.kind == 'stmt' and node.id in rd.live and isinstance(
                node.ast, ast.Assign):
            for tg in node.ast.targets:
                if isinstance(tg, ast.Subscript) and isinstance(
                        tg.slice, ast.Constant) \
                        and tg.slice.value == 'module':
                    t = ex.expand(node.ast.value, node.id)
                    # on every path: each alternative of the stored value
                    # is made relative to the package (or sanitised)
                    ok = all(T.has_call(a, 'relative_to') or T.has_call(
                        a, 'sanitize_paths') for a in _leaf_alts(t))
                    detail = fmt_term(t)[:100]
    ctx.ob(rule, 'get_execution_metadata:module', fi.loc(), ok,
           'the module is recorded relative to the package' if ok else
           f'the module is recorded as {detail}: an absolute path of the '
           'installation')


# ----------------------------------------------------------------------

OK_BEFORE = set(' \t\n\r"\'')


def check_messages(ctx, pa):
    db = ctx.db
    rule = 'R-ROLE/path-in-message'
    root = 'cli.from_specified_markers:run_mapping'
    closure = ctx.cg.reachable([root])
    n_interp = 0
    n_funcs = 0
    # a parameter that is only ever *mentioned* (in a message) is a path
    # all the same when callers hand it one: path-valued arguments are
    # propagated to the parameters they are bound to, to a fixpoint
    global _EXTRA_ROOTS
    _EXTRA_ROOTS = dict()
    for _round in range(4):
        grew = False
        for q in sorted(closure):
            fi = db.functions.get(q)
            if fi is None or fi.module.short.startswith(('gpu_utils',)):
                continue
            roots = None
            for c in ast.walk(fi.node):
                if not isinstance(c, ast.Call):
                    continue
                t = resolve_callee(db, fi, c)
                if not isinstance(t, FunctionInfo):
                    continue
                m, _ = bind_args(t, c)
                for pname, a in m.items():
                    if a is None or pname in _EXTRA_ROOTS.get(
                            t.qual, ()):
                        continue
                    if roots is None:
                        roots = _path_roots(pa, fi)
                    try:
                        pv = _is_path_valued(pa, fi, a, roots)
                    except Exception:
                        pv = False
                    if pv:
                        _EXTRA_ROOTS.setdefault(t.qual, set()).add(pname)
                        grew = True
        if not grew:
            break
    for q in sorted(closure):
        fi = db.functions.get(q)
        if fi is None or fi.module.short.startswith(('gpu_utils',)):
            continue
        n_funcs += 1
        path_roots = None
        for node in ast.walk(fi.node):
            if isinstance(node, ast.JoinedStr):
                prev_text = ''
                # implicit concatenation with preceding literal pieces is
                # already merged by the parser into one JoinedStr
                for part in node.values:
                    if isinstance(part, ast.Constant):
                        prev_text = str(part.value)
                        continue
                    if isinstance(part, ast.FormattedValue):
                        if path_roots is None:
                            path_roots = _path_roots(pa, fi)
                        if _is_path_valued(pa, fi, part.value, path_roots):
                            n_interp += 1
                            before = prev_text[-1:] if prev_text else ''
                            ok = (before == '' or before in OK_BEFORE)
                            # start of the f-string but glued to a
                            # preceding string by `+`
                            if before == '':
                                ok = _start_ok(node)
                            key = (f'{fi.qual}:#'
                                   f'{node.values.index(part)}@'
                                   f'{_ctx_text(node)}')
                            ctx.touch(fi)
                            ctx.ob(rule, key, fi.loc(node), ok,
                                   'the path starts a word' if ok else
                                   f'the path `{unparse(part.value)}` is '
                                   'interpolated right after '
                                   f'{before!r} in '
                                   f'`{unparse(node)[:70]}`: the word the '
                                   'sanitiser sees starts with that '
                                   'character, is not recognised as an '
                                   'existing path, and the absolute path '
                                   'reaches the log / traceback')
                            _check_rendered_as_text(ctx, fi, node, part)
                            _check_message_channel(ctx, fi, node, part)
                        prev_text = 'x'      # something non-empty follows
            elif isinstance(node, ast.BinOp) and isinstance(
                    node.op, ast.Add):
                # "(" + str(path)
                l, r = node.left, node.right
                rv = r
                if isinstance(r, ast.Call) and isinstance(
                        r.func, ast.Name) and r.func.id == 'str' and r.args:
                    rv = r.args[0]
                lit = None
                if isinstance(l, ast.Constant) and isinstance(l.value, str):
                    lit = l.value
                elif isinstance(l, ast.BinOp) and isinstance(
                        l.right, ast.Constant) and isinstance(
                            l.right.value, str):
                    lit = l.right.value
                if lit is None:
                    continue
                if path_roots is None:
                    path_roots = _path_roots(pa, fi)
                if _is_path_valued(pa, fi, rv, path_roots):
                    n_interp += 1
                    before = lit[-1:]
                    ok = before == '' or before in OK_BEFORE
                    key = f'{fi.qual}:{unparse(rv)[:40]}@concat'
                    ctx.touch(fi)
                    ctx.ob(rule, key, fi.loc(node), ok,
                           'the path starts a word' if ok else
                           f'`{unparse(node)[:70]}` glues the path to '
                           f'{before!r}')
    ctx.ok(rule + '/scan', 'run_mapping-closure', 'package',
           f'{n_funcs} functions reachable from run_mapping scanned, '
           f'{n_interp} path interpolations found', nontrivial=n_interp > 0)
    if n_interp < 3:
        raise AnalysisError('path interpolation scan found only '
                            f'{n_interp} sites')


REPR_RENDERED = ('KeyError',)
_EXTRA_ROOTS = dict()

MESSAGE_CALLS = {'info', 'warn', 'warning', 'error', 'debug', 'add_msg',
                 'benchmark', 'env', 'print', 'write', 'critical'}


def _message_use(node):
    """the expression is (part of) the text of a raised exception or of a
    logged / warned message; returns (True, None) or (False, how it is
    used instead)"""
    child = node
    p_ = getattr(node, '_parent', None)
    while p_ is not None and not isinstance(p_, ast.stmt):
        if isinstance(p_, ast.Call):
            f = p_.func
            nm = f.attr if isinstance(f, ast.Attribute) else getattr(
                f, 'id', None)
            if nm in MESSAGE_CALLS:
                return True, None
            q_ = getattr(p_, '_parent', None)
            if isinstance(q_, ast.Raise) and q_.exc is p_:
                return True, None
            if nm in ('str', 'format', 'join', 'dedent'):
                pass
            else:
                kw = [k.arg for k in p_.keywords
                      if k is child or k.value is child]
                return False, (f'`{kw[0]}=` of `{unparse(f)}(...)`' if kw
                               else f'an argument of `{unparse(f)}(...)`')
        elif isinstance(p_, (ast.Dict, ast.List, ast.Tuple, ast.Set,
                             ast.Subscript)):
            return False, f'an element of `{unparse(p_)[:40]}`'
        child = p_
        p_ = getattr(p_, '_parent', None)
    if isinstance(p_, ast.Raise):
        return True, None
    if isinstance(p_, (ast.Assign, ast.AugAssign)):
        tg = p_.targets[0] if isinstance(p_, ast.Assign) else p_.target
        if isinstance(tg, ast.Name):
            return None, tg.id           # judged by the uses of the local
        return False, f'stored in `{unparse(tg)[:40]}`'
    if isinstance(p_, ast.Return):
        return False, 'returned to the caller'
    if isinstance(p_, ast.Expr):
        return True, None
    return True, None


def _check_message_channel(ctx, fi, joined, part):
    """the word rule above protects a path where it is written into a
    message.  A string with an absolute path in it that is handed to
    anything else -- the label of a process or thread, a field of a
    record, a return value -- can be printed later by code that does not
    know there is a path inside (in brackets, after a colon, ...), out of
    reach of the rule.  Text with a path in it is therefore only ever (part
    of) a raised or logged message."""
    ok, how = _message_use(joined)
    if ok is None:
        # a local: every use of it is a message use (or extends itself)
        local = how
        ok, how = True, None
        for x in ast.walk(fi.node):
            if isinstance(x, ast.Name) and x.id == local and isinstance(
                    x.ctx, ast.Load):
                o, h = _message_use(x)
                if o is False:
                    ok, how = False, h
                    break
                if o is None and h != local:
                    ok, how = False, f'copied into `{h}`'
                    break
    key = (f'{fi.qual}:#{joined.values.index(part)}@{_ctx_text(joined)}')
    ctx.ob('R-ROLE/path-in-message/message-only', key, fi.loc(joined), ok,
           'the text with the path in it is only used as a message' if ok
           else f'`{unparse(joined)[:60]}` puts the path '
           f'`{unparse(part.value)}` into a string that is used as {how}: '
           'whoever prints that later does so outside the word rule the '
           'sanitiser depends on, and the absolute path reaches the log')


def _check_rendered_as_text(ctx, fi, joined, part):
    """a message with a path in it reaches the log through the traceback;
    the sanitiser recognises the path as a whitespace-delimited word.
    KeyError renders its argument with repr(): line breaks become the two
    characters backslash-n and the text is wrapped in quotes, so a path on
    a line of its own is no longer a word and is not replaced."""
    if getattr(part, 'conversion', -1) in (ord('r'), ord('a')):
        # {path!r}: a str is wrapped in quotes (which the sanitiser strips)
        # but a pathlib.Path is written as PosixPath('/abs/...'): the word
        # starts with `PosixPath(` and is no path any more
        ctx.ob('R-ROLE/path-in-message/rendered-as-text',
               f'{fi.qual}:#{joined.values.index(part)}@'
               f'{_ctx_text(joined)}!r', fi.loc(joined), False,
               f'`{{{unparse(part.value)}!r}}` writes the repr of the path '
               'into the message; for a pathlib.Path that is '
               "`PosixPath('/abs/...')`, one word that is_exposed does not "
               'recognise as a path, so the absolute path reaches the log')
    p_ = getattr(joined, '_parent', None)
    while p_ is not None and not isinstance(
            p_, (ast.Raise, ast.stmt)):
        p_ = getattr(p_, '_parent', None)
    if not isinstance(p_, ast.Raise) or not isinstance(p_.exc, ast.Call):
        return
    cls = p_.exc.func
    name = cls.id if isinstance(cls, ast.Name) else (
        cls.attr if isinstance(cls, ast.Attribute) else None)
    if name is None:
        return
    # a class of the package deriving from KeyError renders the same way
    bad = name in REPR_RENDERED
    ci = None
    try:
        from ..core.resolve import resolve_name_in_module
        from ..core.loader import ClassInfo
        ci = resolve_name_in_module(ctx.db, fi.module, name)
        if isinstance(ci, ClassInfo):
            for c in ctx.db.mro(ci):
                for b in c.node.bases:
                    if isinstance(b, ast.Name) and b.id in REPR_RENDERED:
                        bad = True
    except Exception:
        pass
    key = (f'{fi.qual}:#{joined.values.index(part)}@{_ctx_text(joined)}')
    ctx.ob('R-ROLE/path-in-message/rendered-as-text', key,
           fi.loc(p_), not bad,
           f'{name} renders its message as text' if not bad else
           f'`raise {name}(...)` carries the path '
           f'`{unparse(part.value)}`, but {name} prints repr(message): '
           'line breaks and quotes around the path become literal '
           'characters, the sanitiser no longer sees the path as a word, '
           'and it reaches the log')


def _start_ok(joined):
    """an f-string that starts with the path: fine unless it is the right
    operand of a `+` / implicit join whose left ends with punctuation"""
    p = getattr(joined, '_parent', None)
    if isinstance(p, ast.BinOp) and isinstance(p.op, ast.Add) \
            and p.right is joined:
        l = p.left
        if isinstance(l, ast.Constant) and isinstance(l.value, str):
            return l.value[-1:] == '' or l.value[-1:] in OK_BEFORE
        if isinstance(l, ast.JoinedStr) and l.values and isinstance(
                l.values[-1], ast.Constant):
            v = str(l.values[-1].value)
            return v[-1:] == '' or v[-1:] in OK_BEFORE
    return True


def _ctx_text(node):
    """the literal pieces of the f-string (no variable names: instance
    keys must survive the renaming of a local)"""
    t = ''.join(str(p.value) if isinstance(p, ast.Constant) else '{}'
                for p in node.values)
    return ' '.join(t.split())[:40]


def _path_roots(pa, fi):
    """roots (parameters / locals) that fi or its callees use as paths"""
    out = set()
    for e in pa.effects(fi):
        out.add(e.root)
    out |= _EXTRA_ROOTS.get(fi.qual, set())
    return out


def _opened_path(fi, base):
    """if `base` is a local bound to `open(p, ...)` / `h5py.File(p, ...)`
    (by `with ... as base` or by assignment), the expression p"""
    if not isinstance(base, ast.Name):
        return None
    for n in ast.walk(fi.node):
        call = None
        if isinstance(n, ast.With):
            for it in n.items:
                if isinstance(it.optional_vars, ast.Name) \
                        and it.optional_vars.id == base.id:
                    call = it.context_expr
        elif isinstance(n, ast.Assign) and len(n.targets) == 1 \
                and isinstance(n.targets[0], ast.Name) \
                and n.targets[0].id == base.id:
            call = n.value
        if isinstance(call, ast.Call) and call.args:
            f = call.func
            nm = f.id if isinstance(f, ast.Name) else getattr(
                f, 'attr', None)
            if nm in ('open', 'File'):
                return call.args[0]
    return None


def _is_path_valued(pa, fi, e, path_roots):
    # projections to name / stem are not paths
    if isinstance(e, ast.Attribute) and e.attr in ('name', 'stem',
                                                   'suffix'):
        # ... of a pathlib.Path.  The `.name` of a *file object*
        # (`open(p)`, `h5py.File(p)`) is the path it was opened with, in
        # full: judged like the path handed to open()
        opened = _opened_path(fi, e.value) if e.attr == 'name' else None
        if opened is None:
            return False
        return _is_path_valued(pa, fi, opened, path_roots)
    o = pa.origins(fi, e)
    for (r, rel) in o:
        if rel.startswith('key:'):
            continue
        if r in path_roots:
            return True
    return False


def _leaf_alts(t):
    """alternatives of a term, looking through wrappers such as str(...)
    whose single argument is a phi"""
    if t[0] == 'phi':
        out = []
        for a in t[1]:
            out += _leaf_alts(a)
        return out
    if t[0] == 'call' and len(t[2]) == 1 and not t[3] and t[1][0] == 'name' \
            and t[1][1] in ('str', 'repr'):
        return _leaf_alts(t[2][0])
    return [t]


def check_word_is_tested_as_path(ctx, rule='R-SAMEVAL/word-tested-as-is'):
    """every word of a message is looked up in the file system under its
    own spelling (quotation marks aside): the helper that turns a word into
    the path handed to is_exposed returns, on every path through it,
    `Path(<the word with characters removed>)`.  A return of some other
    path for a class of words (too long, odd characters, a scheme prefix)
    declares those words harmless without looking: an absolute path of that
    class stays in the log."""
    db = ctx.db
    fi = db.fn(SANITIZER)
    helpers = set()
    for c in ast.walk(fi.node):
        if isinstance(c, ast.Call) and getattr(
                c.func, 'id', getattr(c.func, 'attr', None)) == 'is_exposed' \
                and c.args:
            sl = backward_slice(fi, c.args[0])
            # the calls that produce the tested path
            for d in ast.walk(fi.node):
                if isinstance(d, ast.Assign) and isinstance(
                        d.targets[0], ast.Name) \
                        and d.targets[0].id in sl.names \
                        and isinstance(d.value, ast.Call):
                    t = resolve_callee(db, fi, d.value)
                    if isinstance(t, FunctionInfo):
                        helpers.add(t.qual)
            if isinstance(c.args[0], ast.Call):
                t = resolve_callee(db, fi, c.args[0])
                if isinstance(t, FunctionInfo):
                    helpers.add(t.qual)
    n = 0

    def from_word(t, params, depth=0):
        if depth > 20 or not isinstance(t, tuple) or not t:
            return False
        if t[0] == 'param':
            return t[1] in params
        if t[0] == 'rec':
            return True
        if t[0] == 'phi':
            return all(from_word(a, params, depth + 1) for a in t[1])
        if t[0] == 'call' and isinstance(t[1], tuple) and t[1][0] == 'attr' \
                and t[1][2] in ('replace', 'strip', 'lstrip', 'rstrip'):
            return from_word(t[1][1], params, depth + 1)
        if t[0] == 'call' and T.call_name(t) == 'str' and t[2]:
            return from_word(t[2][0], params, depth + 1)
        return False

    if not helpers:
        # the word is turned into a path in the sanitiser itself
        cfg = cfg_of(fi)
        rd = rd_of(fi)
        ex = Expander(fi)
        for node in cfg.nodes:
            if node.id not in rd.live:
                continue
            for c in cfg.calls_in(node):
                if getattr(c.func, 'id', getattr(c.func, 'attr', None)) \
                        != 'is_exposed' or not c.args:
                    continue
                n += 1
                t = ex.expand(c.args[0], node.id)

                def word(x, depth=0):
                    if depth > 20 or not isinstance(x, tuple) or not x:
                        return False
                    if x[0] == 'iterelem':
                        return T.call_name(x[1]) == 'split'
                    if x[0] == 'rec':
                        return True
                    if x[0] == 'phi':
                        return all(word(a, depth + 1) for a in x[1])
                    if x[0] == 'call' and isinstance(x[1], tuple) \
                            and x[1][0] == 'attr' and x[1][2] in (
                                'replace', 'strip', 'lstrip', 'rstrip'):
                        return word(x[1][1], depth + 1)
                    return False
                ok = all(alt[0] == 'call' and T.call_name(alt) in (
                    'Path', 'PurePath', 'PosixPath', 'PurePosixPath')
                    and len(alt[2]) == 1 and word(alt[2][0])
                    for alt in term_alts(t))
                ctx.touch(fi)
                ctx.ob(rule, f'{fi.qual}:tested#{n - 1}', fi.loc(c), ok,
                       'the path tested is the word itself' if ok else
                       f'the path tested can be {fmt_term(t)[:60]}, which '
                       'is not the word of the message: words of that '
                       'class are never looked up, and an absolute path '
                       'among them is written to the log as it is')
    for q in sorted(helpers):
        h = db.fn(q)
        cfg = cfg_of(h)
        rd = rd_of(h)
        ex = Expander(h)
        params = set(h.params)
        for node in cfg.nodes:
            if node.kind != 'return' or node.id not in rd.live:
                continue
            n += 1
            t = ex.expand(node.ast.value, node.id) \
                if node.ast.value is not None else ('const', 'None')
            ok = all(
                alt[0] == 'call' and T.call_name(alt) in (
                    'Path', 'PurePath', 'PosixPath', 'PurePosixPath')
                and len(alt[2]) == 1 and from_word(alt[2][0], params)
                for alt in term_alts(t))
            ctx.touch(h)
            ctx.ob(rule, f'{h.qual}:return#{n - 1}', h.loc(node.ast), ok,
                   'the path tested is the word itself' if ok else
                   f'{h.name} can return {fmt_term(t)[:60]}, which is not '
                   'the word it was given: words of that class are never '
                   'looked up in the file system, and an absolute path '
                   'among them is written to the log as it is')
    ctx.floor(rule, 1)
    return n
