"""
C01 -- one complete, ordered, tree-consistent assignment per query cell.

Structural necessary conditions (DESIGN.md section 5, C01):
 1. cell ids are attached to the rows they belong to (chunk protocol
    (data, r0, r1); ids sliced with those very bounds; worker labels row i
    with name i)
 2. results are written back through the index that selected the rows
 3. query order is restored by re_order_blob on every return, and its
    order comes from the query file's obs index
 4. levels removed for the run are restored from the tree as stored in the
    reference file; the output carries that tree
 5. inferred levels are flagged copies without runner-up fields; voted
    levels are flagged True
 6. no level-keyed record is subscripted with a possibly-None level
"""
import ast

from ..core.cfg import cfg_of
from ..core.defuse import rd_of, Expander, fmt_term, term_alts
from ..core import terms as T
from ..core.loader import unparse, FunctionInfo, AnalysisError
from ..core.resolve import resolve_callee, bind_args, ext_name
from ..rules import workers as W

ID = 'C01'

EXPLANATION = (
    "Static analysis over the statement CFG with reaching definitions; "
    "expressions are expanded into symbolic terms over parameters, loop "
    "elements and calls ('light SSA'), and two uses are the same value when "
    "their terms are equal. The check shows: the dispatcher slices the "
    "obs-name list with exactly the bounds delivered in positions 1 and 2 "
    "of the chunk it took the data (position 0) from, and the iterator is "
    "opened on the same query file the names were read from; both row "
    "iterators return (rows[r0:r1], r0, r1) built from their own arguments "
    "and advance the cursor to the bound they returned; the worker labels "
    "assignment[i] with query_cell_names[i]; in run_type_assignment the "
    "index passed to downsample_cells is the index zipped with the results "
    "and subscripted to store the next level's row sets; every normal "
    "return of run_type_assignment_on_h5ad is re_order_blob(election "
    "result, own query path) and re_order_blob iterates the obs index of "
    "that file; _run_mapping back-fills through, and embeds, a tree "
    "derived only from the stored taxonomy (no drop_level/flatten on its "
    "provenance) while marker cache, election and marker report receive "
    "one and the same (latest) tree; back-filled records are deep copies "
    "with runner_up keys removed and directly_assigned=False, voted "
    "records get True; no record keyed by the hierarchy is subscripted "
    "with a loop variable that ranges over [None]+hierarchy without a "
    "dominating None test.")

EXPLANATION += (
    ' Added after the seeded rounds: tables filled inside loops over '
    'the taxonomy levels are keyed by (level, label) '
    '(R-KEY/node-identity), memo keys are complete (R-MEMO), zipped '
    'lists are filled in lock-step (R-ALIGN).'
)

EXPLANATION += (
    " Round 5: the pre-flight reconciliation of taxonomy and marker cache can fail only through the place where a parent of the run's tree is found without markers (R-MUST/rejects-only-missing-parent)."
)

EXPLANATION += (
    ' Round 7: single-child parents, the root included, are exempt from needing markers wherever the table is validated (R-FOLD/single-child-exempt, rule of C08).'
)

EXPLANATION += (
    ' Round 8: node identity is checked over all taxonomy modules (get_child_to_parent included).'
)

EXPLANATION += (
    ' Round 10: no return of a function in the anchored modules is empty in one position next to positions that carry data while a sibling return fills it (R-AGREE/partially-empty-return).'
)

EXPLANATION += (
    ' Round 11: no output writer edits a record reached from the results it was handed (R-ALIAS/records-read-only).'
)

EXPLANATION += (
    ' Round 13: no reader of the marker cache uses a position dataset as a fancy index without an integer type (R-ROLE/positions-as-stored).'
)

EXPLANATION += (
    ' Round 14: the bootstrap sample size is floored only as far as a guard on the number of markers allows (R-CAP/sample-within-population, rule of C02).'
)

EXPLANATION += (
    ' Round 15: the candidates compared under a parent are the leaves below that very node (R-PROV/leaves-under-parent, rule of C02).'
)

EXPLANATION += (
    ' Round 16: a per-level settings table may name levels the reduced tree no longer has (R-GUARD/lookup-superset-tolerated, rule of C17).'
)

EXPLANATION += (
    ' Round 17: the blob that holds the records is never replaced by a function of itself in the front ends (R-SAMEVAL/results-written-as-computed).'
)

RULE_TEXT = (
    "one obligation per value-identity / provenance / dominance relation "
    "named above; non-trivial when both ends of the relation exist")

ASSUMPTIONS = [
    "term equality under reaching definitions (mutation of containers "
    "between definition and use is not modelled)",
    "the (data, r0, r1) chunk protocol of AnnDataRowIterator is the only "
    "producer of chunks on the CPU path",
    "CPU configuration; necessary conditions only",
]


def check(ctx):
    check_ids_and_rows(ctx)
    check_chunk_protocol(ctx)
    check_write_back(ctx)
    check_reorder(ctx)
    check_tree_versions(ctx)
    check_backfill(ctx)
    check_level_keys(ctx)
    check_reconcile_one_sided(ctx)
    # single-child parents (the root included) are exempt from needing
    # markers wherever the table is validated or consulted (rule of C08)
    # ... and for such a parent (no markers, an empty position array in
    # the cache) every reader of the cache still works (sa/rules/roles.py)
    from ..rules import roles as R_
    for q_ in ('type_assignment.election:run_type_assignment_on_h5ad_cpu',
               'type_assignment.matching:assemble_query_data',
               'type_assignment.marker_cache_v2:serialize_markers'):
        R_.check_positions_not_fancy_indexed_raw(ctx, ctx.db.fn(q_))
    ctx.ok('R-ROLE/positions-as-stored', 'cache readers', 'package',
           'no reader uses a position dataset of the cache as a fancy '
           'index without giving it an integer type', nontrivial=False)
    # a parent with a single usable marker is still mapped (rule of C02)
    from .C02 import check_sample_within_population
    check_sample_within_population(ctx)
    from .C08 import check_single_child
    check_single_child(ctx)
    from .C10 import check_node_identity
    check_node_identity(ctx, ('type_assignment.election', 'taxonomy.'), floor=2)
    # the records stay complete on their way out: no output writer edits
    # the records it is handed (sa/rules/escape.py)
    from ..rules.escape import check_param_records_not_edited
    n_ro = 0
    for fi_ in ctx.db.iter_functions():
        if fi_.module.short == 'utils.output_utils':
            n_ro += check_param_records_not_edited(
                ctx, fi_, ('results_blob', 'output_blob', 'results',
                           'blob'))
    if n_ro < 4:
        raise AnalysisError(f'only {n_ro} record parameters found among '
                            'the output writers')
    # the candidates a cell is compared with under a parent are the leaves
    # below that very node, level and label (rule of C02): a candidate from
    # another branch gives an assignment that is not a path of the tree
    from .C02 import check_leaves_under_parent
    check_leaves_under_parent(ctx)
    # a run that drops a level or flattens is a valid run: the settings
    # tables validated against the reduced tree may name levels it no
    # longer has (rule of C17)
    from .C17 import check_lookup_superset_tolerated
    check_lookup_superset_tolerated(ctx)
    check_results_blob_written_as_computed(ctx)


def _node_of(cfg, rd, astn):
    ns = [n for n in cfg.node_of_expr(astn) if n.id in rd.live]
    if not ns:
        raise AnalysisError(f'no CFG node for {unparse(astn)[:60]}')
    return ns[0]


# ----------------------------------------------------------------------
# 1. ids and rows
# ----------------------------------------------------------------------

def check_ids_and_rows(ctx):
    db = ctx.db
    fi = db.fn('type_assignment.election:run_type_assignment_on_h5ad_cpu')
    worker = db.fn('type_assignment.election:'
                   '_run_type_assignment_on_h5ad_worker')
    ctx.touch(fi)
    ctx.touch(worker)
    cfg = cfg_of(fi)
    rd = rd_of(fi)
    ex = Expander(fi)
    rule = 'R-SAMEVAL/ids-rows'
    sites = [s for s in W.find_spawn_sites(db, lambda m: m is fi.module)
             if s.fi is fi and s.target is worker]
    if len(sites) != 1 or sites[0].kwargs is None:
        ctx.fail(rule, 'dispatch', fi.loc(),
                 'the dispatch of _run_type_assignment_on_h5ad_worker with '
                 'literal kwargs was not found')
        return
    s = sites[0]
    at = _node_of(cfg, rd, s.call).id
    kw = s.kwargs
    need = ('query_cell_names', 'query_cell_chunk')
    for k in need:
        if k not in kw:
            ctx.fail(rule, f'dispatch:{k}', fi.loc(s.call),
                     f'worker is not given `{k}`')
            return
    t_names = ex.expand(kw['query_cell_names'], at)
    t_data = ex.expand(kw['query_cell_chunk'], at)
    where = fi.loc(s.call)
    # names must be a slice  NAMES[a:b]
    ok_shape = (t_names[0] == 'sub' and t_names[2][0] == 'slice')
    if not ok_shape:
        ctx.fail(rule, 'dispatch:names-slice', where,
                 'the cell names given to the worker are not a slice '
                 f'NAMES[r0:r1] of the obs index: {fmt_term(t_names)}')
        return
    names_src, (_s, lo, hi, step) = t_names[1], t_names[2]
    # the chunk: an element of the row iterator
    chunk_terms = [x for x in T.subterms(t_data) if x[0] == 'iterelem']
    if not chunk_terms:
        ctx.fail(rule, 'dispatch:data-from-chunk', where,
                 'the data given to the worker does not come from a chunk '
                 f'of the row iterator: {fmt_term(t_data)}')
        return
    chunk = chunk_terms[0]
    want_lo = ('sub', chunk, ('const', '1'))
    want_hi = ('sub', chunk, ('const', '2'))
    want_data = ('sub', chunk, ('const', '0'))
    ctx.ob(rule, 'dispatch:lower-bound', where, lo == want_lo,
           'lower bound of the name slice is position 1 of the chunk the '
           'data came from' if lo == want_lo else
           f'lower bound of the name slice is {fmt_term(lo)}, not position '
           '1 (r0) of the chunk the data came from')
    ctx.ob(rule, 'dispatch:upper-bound', where, hi == want_hi,
           'upper bound of the name slice is position 2 of that chunk'
           if hi == want_hi else
           f'upper bound of the name slice is {fmt_term(hi)}, not position '
           '2 (r1) of the chunk the data came from')
    ctx.ob(rule, 'dispatch:no-stride', where,
           step == ('const', 'None'),
           'no stride' if step == ('const', 'None') else
           f'name slice has a stride {fmt_term(step)}')
    ctx.ob(rule, 'dispatch:data-position', where,
           T.contains(t_data, want_data),
           'the rows are position 0 of the same chunk'
           if T.contains(t_data, want_data) else
           'the rows given to the worker are not position 0 of the chunk: '
           + fmt_term(t_data))
    # names come from the obs index of the query file, unsorted
    obs_calls = T.calls(names_src, 'read_df_from_h5ad')
    qparam = ('param', 'query_h5ad_path')
    ok_obs = any(T.contains(c, qparam) and T.contains(c, ('const', "'obs'"))
                 for c in obs_calls)
    reorder = [n for n in ('sorted', 'sort', 'unique', 'set', 'reversed',
                           'argsort') if T.has_call(names_src, n)]
    ctx.ob(rule, 'dispatch:names-from-obs', where,
           ok_obs and not reorder,
           'names are the obs index of the query file in file order'
           if ok_obs and not reorder else
           'the name list is not the untouched obs index of '
           f'query_h5ad_path: {fmt_term(names_src)}')
    # the iterator runs over the same file
    it = chunk[1]
    it_calls = T.calls(it, 'AnnDataRowIterator')
    ok_it = any(T.contains(c, qparam) for c in it_calls)
    ctx.ob(rule, 'dispatch:iterator-same-file', where, ok_it,
           'the row iterator is opened on query_h5ad_path' if ok_it else
           'the row iterator is not opened on query_h5ad_path: '
           + fmt_term(it))
    # --- worker: assignment[i]['cell_id'] = query_cell_names[i]
    wcfg = cfg_of(worker)
    wrd = rd_of(worker)
    wex = Expander(worker)
    found = 0
    for node in wcfg.nodes:
        if node.kind != 'stmt' or node.id not in wrd.live:
            continue
        st = node.ast
        if not isinstance(st, ast.Assign) or len(st.targets) != 1:
            continue
        tg = st.targets[0]
        if not (isinstance(tg, ast.Subscript)
                and isinstance(tg.slice, ast.Constant)
                and tg.slice.value == 'cell_id'):
            continue
        found += 1
        t_target = wex.expand(tg.value, node.id)     # assignment[idx]
        t_value = wex.expand(st.value, node.id)      # names[idx]
        ok = (t_target[0] == 'sub' and t_value[0] == 'sub'
              and t_target[2] == t_value[2]
              and t_value[1] == ('param', 'query_cell_names')
              and T.has_call(t_target[1], 'run_type_assignment'))
        ctx.ob(rule, 'worker:cell_id', worker.loc(st), ok,
               'row i of the election result is labelled with name i'
               if ok else
               f'cell_id of {fmt_term(t_target)} is set to '
               f'{fmt_term(t_value)}: not the same position of '
               'query_cell_names')
    if found == 0:
        ctx.fail(rule, 'worker:cell_id', worker.loc(),
                 'the worker never stores a cell_id')


# ----------------------------------------------------------------------
# chunk protocol of the two row iterators (shared with C05)
# ----------------------------------------------------------------------

ITERATORS = ('anndata_iterator.anndata_iterator:CSRRowIterator',
             'anndata_iterator.anndata_iterator:DenseArrayRowIterator')


def check_chunk_protocol(ctx, rule='R-SAMEVAL/chunk-protocol'):
    db = ctx.db
    for cq in ITERATORS:
        ci = db.cls(cq)
        gc = db.find_method(ci, 'get_chunk')
        nx = db.find_method(ci, '__next__')
        if gc is None or nx is None:
            raise AnalysisError(f'{cq} lacks get_chunk/__next__')
        ctx.touch(gc)
        ctx.touch(nx)
        # get_chunk(r0, r1) returns (X, r0, r1)
        ex = Expander(gc)
        cfg = cfg_of(gc)
        rd = rd_of(gc)
        rets = [n for n in cfg.nodes if n.kind == 'return'
                and n.id in rd.live]
        for r in rets:
            t = ex.expand(r.ast.value, r.id)
            ok = (t[0] == 'tuple' and len(t[1]) == 3
                  and t[1][1] == ('param', 'r0')
                  and t[1][2] == ('param', 'r1'))
            rows_ok = ok and _rows_cut_by(t[1][0])
            ctx.ob(rule, f'{ci.name}.get_chunk:return', gc.loc(r.ast),
                   ok and rows_ok,
                   'returns (rows cut by (r0, r1), r0, r1) from its own '
                   'arguments' if ok and rows_ok else
                   f'get_chunk returns {fmt_term(t)}: positions 1,2 must '
                   'be the arguments r0, r1 and position 0 the rows cut by '
                   'exactly those bounds')
        # __next__: r1 = min(n_rows, r0 + step); chunk = get_chunk(r0, r1)
        #           self.r0 = r1 ; return chunk
        ex = Expander(nx)
        cfg = cfg_of(nx)
        rd = rd_of(nx)
        gcalls = []
        for node in cfg.nodes:
            if node.id not in rd.live:
                continue
            for c in cfg.calls_in(node):
                if isinstance(c.func, ast.Attribute) \
                        and c.func.attr == 'get_chunk':
                    gcalls.append((node, c))
        if len(gcalls) != 1:
            ctx.fail(rule, f'{ci.name}.__next__:get_chunk', nx.loc(),
                     f'expected one get_chunk call, found {len(gcalls)}')
            continue
        node, c = gcalls[0]
        mapping, _ = bind_args(gc, c)
        t_r0 = ex.expand(mapping.get('r0'), node.id)
        t_r1 = ex.expand(mapping.get('r1'), node.id)
        cur = ('attr', ('param', 'self'), 'r0')
        ok0 = t_r0 == cur
        # upper bound: min(self.n_rows, self.r0 + self.row_chunk_size)
        ok1 = (T.call_name(t_r1) == 'min' and len(t_r1[2]) == 2
               and ('attr', ('param', 'self'), 'n_rows') in t_r1[2]
               and any(x[0] == 'binop' and x[1] == 'Add' and cur in x[2:]
                       for x in t_r1[2]))
        ctx.ob(rule, f'{ci.name}.__next__:lower', nx.loc(c), ok0,
               'chunk starts at the cursor' if ok0 else
               f'chunk starts at {fmt_term(t_r0)}, not at the cursor '
               'self.r0')
        ctx.ob(rule, f'{ci.name}.__next__:upper', nx.loc(c), ok1,
               'chunk ends at min(n_rows, cursor + chunk size)' if ok1 else
               f'chunk ends at {fmt_term(t_r1)}; expected '
               'min(self.n_rows, self.r0 + self.row_chunk_size)')
        # cursor advanced to the very upper bound, after the fetch
        stores = []
        for n2 in cfg.nodes:
            if n2.kind == 'stmt' and n2.id in rd.live and isinstance(
                    n2.ast, ast.Assign):
                for tg in n2.ast.targets:
                    if isinstance(tg, ast.Attribute) and isinstance(
                            tg.value, ast.Name) and tg.value.id == 'self' \
                            and tg.attr == 'r0':
                        stores.append(n2)
        good = False
        detail = 'the cursor self.r0 is never advanced'
        for st in stores:
            t_new = ex.expand(st.ast.value, st.id)
            if t_new == t_r1 and cfg.dominates(node.id, st.id):
                good = True
            else:
                detail = (f'cursor is set to {fmt_term(t_new)}, not to the '
                          f'upper bound {fmt_term(t_r1)} of the chunk just '
                          'returned')
        ctx.ob(rule, f'{ci.name}.__next__:advance', nx.loc(), good,
               'cursor advances to the upper bound of the chunk it '
               'returned' if good else detail)
        # stop test  cursor >= n_rows raises StopIteration
        stop_ok = False
        for n2 in cfg.nodes:
            if n2.kind == 'if' and n2.id in rd.live:
                tt = ex.expand(n2.ast.test, n2.id)
                nrows = ('attr', ('param', 'self'), 'n_rows')
                if tt in (('cmp', ('GtE',), cur, (nrows,)),
                          ('cmp', ('LtE',), nrows, (cur,))):
                    okp, _p = cfg.must_pass(
                        [t for (t, lab) in cfg.succ[n2.id]
                         if lab == 'true'][0], {cfg.exit},
                        lambda n: n.kind == 'raise',
                        edge_ok=lambda a, b, lab: lab != 'exc')
                    if okp:
                        stop_ok = True
        ctx.ob(rule, f'{ci.name}.__next__:stop', nx.loc(), stop_ok,
               'iteration stops when the cursor reaches n_rows'
               if stop_ok else
               'no `if self.r0 >= self.n_rows: raise StopIteration` guard')
        # the returned value is the fetched chunk
        for r in [n for n in cfg.nodes if n.kind == 'return'
                  and n.id in rd.live]:
            tr = ex.expand(r.ast.value, r.id)
            ok = T.call_name(tr) == 'get_chunk'
            ctx.ob(rule, f'{ci.name}.__next__:return', nx.loc(r.ast), ok,
                   'returns the fetched chunk' if ok else
                   f'returns {fmt_term(tr)}')


def _rows_cut_by(t):
    """the rows term is cut by exactly (r0, r1): a slice [r0:r1, ...] or a
    loader called with row_spec=(r0, r1)"""
    r0, r1 = ('param', 'r0'), ('param', 'r1')
    for x in T.subterms(t):
        if x[0] == 'slice' and x[1] == r0 and x[2] == r1:
            return True
        if x[0] == 'tuple' and x[1] == (r0, r1):
            return True
    return False


# ----------------------------------------------------------------------
# 2. write back through the selecting index
# ----------------------------------------------------------------------

def check_write_back(ctx):
    db = ctx.db
    fi = db.fn('type_assignment.election:run_type_assignment')
    ctx.touch(fi)
    cfg = cfg_of(fi)
    rd = rd_of(fi)
    ex = Expander(fi)
    rule = 'R-SAMEVAL/write-back'
    # (a) the selection
    sel = None
    for node in cfg.nodes:
        if node.id not in rd.live:
            continue
        for c in cfg.calls_in(node):
            if isinstance(c.func, ast.Attribute) \
                    and c.func.attr == 'downsample_cells':
                a = None
                for k in c.keywords:
                    if k.arg == 'selected_cells':
                        a = k.value
                if a is None and c.args:
                    a = c.args[0]
                sel = (node, c, a)
    if sel is None:
        ctx.fail(rule, 'selection', fi.loc(),
                 'no downsample_cells(selected_cells=...) call found')
        return
    # the variable that carries the selection
    if not isinstance(sel[2], ast.Name):
        ctx.fail(rule, 'selection', fi.loc(sel[1]),
                 'selected_cells is not a plain variable')
        return
    idx_var = sel[2].id
    sel_defs = {d.id for d in rd.reaching(idx_var, sel[0].id)}
    # (b) stores into result[...][child_level]
    result_var = _result_var(fi, cfg, rd)
    stores = []
    for node in cfg.nodes:
        if node.kind != 'stmt' or node.id not in rd.live:
            continue
        st = node.ast
        if isinstance(st, ast.Assign) and len(st.targets) == 1:
            tg = st.targets[0]
            if isinstance(tg, ast.Subscript) and isinstance(
                    tg.value, ast.Subscript) and isinstance(
                        tg.value.value, ast.Name) \
                    and tg.value.value.id == result_var \
                    and isinstance(st.value, ast.Dict):
                stores.append((node, st, tg.value.slice))
    if not stores:
        ctx.fail(rule, 'result-store', fi.loc(),
                 f'no store `{result_var}[i][level] = {{...}}` found')
        return
    for node, st, idx_expr in stores:
        t = ex.expand(idx_expr, node.id)
        # expected: position 0 of an element of zip(<idx_var>, ...)
        ok = False
        detail = f'row index is {fmt_term(t)}'
        if t[0] == 'sub' and t[2] == ('const', '0') \
                and t[1][0] == 'iterelem' \
                and T.call_name(t[1][1]) == 'zip':
            # the first argument of that zip, at the loop header
            loop = _enclosing_for(st)
            if loop is not None and isinstance(loop.iter, ast.Call) \
                    and loop.iter.args and isinstance(
                        loop.iter.args[0], ast.Name):
                a0 = loop.iter.args[0]
                hdr = [n for n in cfg.nodes_of(loop) if n.kind == 'for'
                       and n.id in rd.live]
                if hdr and a0.id == idx_var:
                    here = {d.id for d in rd.reaching(a0.id, hdr[0].id)}
                    if here == sel_defs or here <= sel_defs \
                            or sel_defs <= here:
                        ok = True
                    else:
                        detail = (f'`{a0.id}` was re-defined between the '
                                  'selection and the write-back')
                else:
                    detail = (f'results are zipped with '
                              f'`{unparse(a0)}`, but rows were selected '
                              f'with `{idx_var}`')
        ctx.ob(rule, 'result-store:index', fi.loc(st), ok,
               f'results are written to the rows `{idx_var}` that were '
               'selected' if ok else
               'results are written back through a different index than '
               f'the one that selected the rows: {detail}')
        # the per-row values zipped alongside come from the election
        # result of the same iteration
    # (c) row sets stored for the next level are chosen_idx[mask].  The
    # table of row sets is whatever two-level container the selecting
    # index is read from (`idx = table[level][node]`)
    tables = set()
    def _base_of(e):
        while isinstance(e, ast.Subscript):
            e = e.value
        return e.id if isinstance(e, ast.Name) else None
    for d in rd.reaching(idx_var, sel[0].id):
        v = getattr(d, 'value', None)
        if d.kind == 'assign' and isinstance(v, ast.Subscript) \
                and _base_of(v) is not None:
            tables.add(_base_of(v))
    n_sets = 0
    for node in cfg.nodes:
        if node.kind != 'stmt' or node.id not in rd.live:
            continue
        st = node.ast
        if isinstance(st, ast.Assign) and len(st.targets) == 1:
            tg = st.targets[0]
            if isinstance(tg, ast.Subscript) and _base_of(tg) in tables \
                    and not (isinstance(st.value, (ast.Dict, ast.Call))
                             and not isinstance(tg.value, ast.Subscript)
                             and isinstance(st.value, ast.Call)
                             and getattr(st.value.func, 'id', '')
                             == 'dict'):
                n_sets += 1
                t = ex.expand(st.value, node.id)
                ok = False
                for alt in term_alts(t):
                    if alt[0] == 'sub':
                        base_defs = None
                        # base must be the selecting index variable
                        v = st.value
                        if isinstance(v, ast.Name):
                            for d in rd.reaching(v.id, node.id):
                                if d.kind == 'assign' and isinstance(
                                        d.value, ast.Subscript) \
                                        and isinstance(d.value.value,
                                                       ast.Name) \
                                        and d.value.value.id == idx_var:
                                    ok = True
                        elif isinstance(v, ast.Subscript) and isinstance(
                                v.value, ast.Name) \
                                and v.value.id == idx_var:
                            ok = True
                ctx.ob(rule, 'row-sets', fi.loc(st), ok,
                       f'row sets for the next level are `{idx_var}[mask]` '
                       '(chunk coordinates)' if ok else
                       'row sets stored for the next level are '
                       f'{fmt_term(t)}: not a subscript of the selecting '
                       f'index `{idx_var}`, so they are not in the '
                       "chunk's coordinates")
    if n_sets == 0:
        ctx.fail(rule, 'row-sets', fi.loc(),
                 'no store into the table of row sets (the container the '
                 'selecting index is read from) found')


def _result_var(fi, cfg, rd):
    """the variable returned by run_type_assignment"""
    for n in cfg.nodes:
        if n.kind == 'return' and n.id in rd.live and isinstance(
                n.ast.value, ast.Name):
            return n.ast.value.id
    raise AnalysisError(f'{fi.qual} does not return a variable')


def _enclosing_for(astn):
    p = getattr(astn, '_parent', None)
    while p is not None and not isinstance(p, (ast.For, ast.FunctionDef)):
        p = getattr(p, '_parent', None)
    return p if isinstance(p, ast.For) else None


# ----------------------------------------------------------------------
# 3. query order restored
# ----------------------------------------------------------------------

def check_reorder(ctx):
    db = ctx.db
    fi = db.fn('type_assignment.election_runner:run_type_assignment_on_h5ad')
    ro = db.fn('utils.output_utils:re_order_blob')
    ctx.touch(fi)
    ctx.touch(ro)
    cfg = cfg_of(fi)
    rd = rd_of(fi)
    ex = Expander(fi)
    rule = 'R-MUST/reorder'
    rets = [n for n in cfg.nodes if n.kind == 'return' and n.id in rd.live]
    if not rets:
        ctx.fail(rule, 'runner:return', fi.loc(), 'no return statement')
    for r in rets:
        t = ex.expand(r.ast.value, r.id) if r.ast.value is not None \
            else ('const', 'None')
        ok = False
        detail = f'returns {fmt_term(t)}'
        for alt in term_alts(t):
            if T.call_name(alt) == 're_order_blob':
                blob = T.call_arg(alt, 0, 'results_blob')
                qp = T.call_arg(alt, 1, 'query_path')
                src_ok = blob is not None and (
                    T.has_call(blob, 'run_type_assignment_on_h5ad_cpu')
                    or T.has_call(blob, 'run_type_assignment_on_h5ad_gpu'))
                qp_ok = qp == ('param', 'query_h5ad_path')
                if src_ok and qp_ok:
                    ok = True
                elif not qp_ok:
                    detail = ('re_order_blob is given '
                              f'query_path={fmt_term(qp)}, not this '
                              "function's query_h5ad_path")
                else:
                    detail = ('re_order_blob is not applied to the '
                              'election result')
            else:
                ok = False
                break
        ctx.ob(rule, 'runner:return', fi.loc(r.ast), ok,
               'returns re_order_blob(election result, query_h5ad_path)'
               if ok else
               'a normal return of run_type_assignment_on_h5ad does not '
               f'restore query order: {detail}')
    # summary of re_order_blob: order from the obs index of query_path
    cfg2 = cfg_of(ro)
    rd2 = rd_of(ro)
    ex2 = Expander(ro)
    for r in [n for n in cfg2.nodes if n.kind == 'return'
              and n.id in rd2.live]:
        t = ex2.expand(r.ast.value, r.id)
        src = _iteration_source(t)
        ok = False
        detail = f'returns {fmt_term(t)}'
        if src is not None:
            obs = [c for c in T.calls(src, 'read_df_from_h5ad')
                   if T.contains(c, ('param', 'query_path'))
                   and T.contains(c, ('const', "'obs'"))]
            tainted = T.contains(src, ('param', 'results_blob'))
            reorder = [n for n in ('sorted', 'sort', 'unique', 'set',
                                   'reversed') if T.has_call(src, n)]
            if obs and not tainted and not reorder:
                ok = True
            else:
                detail = ('its order is taken from '
                          f'{fmt_term(src)}')
        ctx.ob(rule + '/order-source', 're_order_blob:return',
               ro.loc(r.ast), ok,
               'the returned list iterates the obs index of query_path; '
               'records are looked up by key' if ok else
               're_order_blob does not take its order from the obs index '
               f'of query_path: {detail}')
    # the lookup is keyed by cell_id
    keyed = False
    for node in ast.walk(ro.node):
        if isinstance(node, ast.DictComp):
            if isinstance(node.key, ast.Subscript) and isinstance(
                    node.key.slice, ast.Constant) \
                    and node.key.slice.value == 'cell_id':
                keyed = True
        if isinstance(node, ast.Assign):
            for tg in node.targets:
                if isinstance(tg, ast.Subscript) and isinstance(
                        tg.slice, ast.Subscript) and isinstance(
                            tg.slice.slice, ast.Constant) \
                        and tg.slice.slice.value == 'cell_id':
                    keyed = True
    ctx.ob(rule + '/keyed', 're_order_blob:lookup', ro.loc(), keyed,
           "records are stored under their 'cell_id'" if keyed else
           "re_order_blob does not key the records by 'cell_id'")


def _iteration_source(t):
    """for list(comp) / comp / list built in a loop: the iterated term"""
    t = T.strip_wrappers(t, names=('list', 'tuple'))
    if t[0] == 'comp':
        gens = t[3]
        if gens:
            return gens[0][1]
    return None


# ----------------------------------------------------------------------
# 4. tree versions in _run_mapping (shared with C17 / C08 / C15)
# ----------------------------------------------------------------------

REDUCERS = ('drop_level', 'flatten', '_drop_level', 'drop_leaf_level')


def tree_version_facts(ctx):
    """terms of every tree-valued argument in _run_mapping"""
    db = ctx.db
    fi = db.fn('cli.from_specified_markers:_run_mapping')
    ctx.touch(fi)
    cfg = cfg_of(fi)
    rd = rd_of(fi)
    ex = Expander(fi)
    facts = dict()
    for node in cfg.nodes:
        if node.id not in rd.live:
            continue
        for c in cfg.calls_in(node):
            t = resolve_callee(db, fi, c)
            nm = None
            if isinstance(t, FunctionInfo):
                nm = t.qual
            if nm is None:
                continue
            mapping, _ = bind_args(t, c)
            for p, a in mapping.items():
                if p == 'taxonomy_tree':
                    facts.setdefault(('arg', nm), []).append(
                        (c, ex.expand(a, node.id)))
            if t.name == 'backfill_assignments' and isinstance(
                    c.func, ast.Attribute):
                facts.setdefault(('recv', nm), []).append(
                    (c, ex.expand(c.func.value, node.id)))
    return fi, cfg, rd, ex, facts


def reduced(term):
    return any(T.has_call(term, r) for r in REDUCERS)


def check_tree_versions(ctx):
    db = ctx.db
    fi, cfg, rd, ex, facts = tree_version_facts(ctx)
    rule = 'R-PROV/tree-version'
    # back-fill receiver: stored tree only
    recv = facts.get(('recv', 'taxonomy.taxonomy_tree:'
                      'TaxonomyTree.backfill_assignments'), [])
    if not recv:
        ctx.fail(rule, '_run_mapping:backfill', fi.loc(),
                 'backfill_assignments is never called: levels removed for '
                 'the run are not restored')
    for (c, t) in recv:
        stored = T.has_call(t, 'from_str') or T.has_call(
            t, 'from_precomputed_stats')
        ok = stored and not reduced(t)
        ctx.ob(rule, '_run_mapping:backfill-receiver', fi.loc(c), ok,
               'back-fill uses the tree as stored in the reference file'
               if ok else
               'levels are back-filled through a tree that '
               + ('was reduced by drop_level/flatten'
                  if reduced(t) else 'is not the stored tree')
               + f': {fmt_term(t)[:200]}')
    # output['results'] passed through backfill; output tree unreduced
    for node in cfg.nodes:
        if node.kind != 'stmt' or node.id not in rd.live:
            continue
        st = node.ast
        if not isinstance(st, ast.Assign):
            continue
        for tg in st.targets:
            if isinstance(tg, ast.Subscript) and isinstance(
                    tg.slice, ast.Constant) and isinstance(
                        tg.value, ast.Name) and tg.value.id == 'output':
                k = tg.slice.value
                t = ex.expand(st.value, node.id)
                if k == 'results':
                    ok = all(T.call_name(a) == 'backfill_assignments'
                             and T.has_call(
                                 a, 'run_type_assignment_on_h5ad')
                             for a in term_alts(t))
                    ctx.ob('R-MUST/backfilled-results',
                           "_run_mapping:output['results']", fi.loc(st), ok,
                           'the result records are the back-filled '
                           'election result' if ok else
                           "output['results'] did not pass through "
                           f'backfill_assignments: {fmt_term(t)[:160]}')
                elif k == 'taxonomy_tree':
                    ok = (T.has_call(t, 'from_str')
                          or T.has_call(t, 'from_precomputed_stats')) \
                        and not reduced(t)
                    ctx.ob(rule, "_run_mapping:output['taxonomy_tree']",
                           fi.loc(st), ok,
                           'the embedded tree is the stored tree' if ok
                           else 'the tree embedded in the output is not '
                           'the stored taxonomy: ' + fmt_term(t)[:160])
    # consumers of the (possibly reduced) tree all see the same version
    consumers = [
        'type_assignment.marker_cache_v2:'
        'create_marker_cache_from_specified_markers',
        'type_assignment.election_runner:run_type_assignment_on_h5ad',
        'type_assignment.marker_cache_v2:serialize_markers']
    terms_ = []
    for q in consumers:
        got = facts.get(('arg', q), [])
        if not got:
            ctx.fail('R-SAMEVAL/tree-consumers', f'_run_mapping:{q}',
                     fi.loc(), f'{q.split(":")[1]} is not given a '
                     'taxonomy_tree')
            continue
        for (c, t) in got:
            terms_.append((q, c, t))
    if terms_:
        ref_q, ref_c, ref_t = terms_[1] if len(terms_) > 1 else terms_[0]
        for (q, c, t) in terms_:
            ok = (t == ref_t)
            ctx.ob('R-SAMEVAL/tree-consumers',
                   f'_run_mapping:{q.split(":")[1]}', fi.loc(c), ok,
                   'receives the same tree version as the election'
                   if ok else
                   f'{q.split(":")[1]} receives a different tree version '
                   'than the election (markers, votes and reported '
                   'markers would refer to different taxonomies)')


# ----------------------------------------------------------------------
# 5. back-fill produces flagged copies
# ----------------------------------------------------------------------

COPIERS = ('deepcopy', 'copy', 'dict')


def check_backfill(ctx):
    db = ctx.db
    fi = db.fn('taxonomy.taxonomy_tree:TaxonomyTree.backfill_assignments')
    ctx.touch(fi)
    cfg = cfg_of(fi)
    rd = rd_of(fi)
    ex = Expander(fi)
    rule = 'R-ALIAS/backfill'
    stores = []
    for node in cfg.nodes:
        if node.kind != 'stmt' or node.id not in rd.live:
            continue
        st = node.ast
        if isinstance(st, ast.Assign) and len(st.targets) == 1:
            tg = st.targets[0]
            if isinstance(tg, ast.Subscript) and isinstance(
                    tg.value, ast.Name) and isinstance(
                        st.value, ast.Name):
                # cell[parent_level] = new_data
                cell_defs = rd.reaching(tg.value.id, node.id)
                if any(d.kind == 'for' for d in cell_defs):
                    stores.append((node, st))
    if not stores:
        ctx.fail(rule, 'backfill:store', fi.loc(),
                 'no `cell[parent_level] = record` store found')
        return
    for node, st in stores:
        var = st.value.id
        t = ex.expand(st.value, node.id)
        is_copy = all(T.call_name(a) in COPIERS for a in term_alts(t))
        ctx.ob(rule, 'backfill:copy', fi.loc(st), is_copy,
               'the inferred record is a copy of the child record'
               if is_copy else
               'the record stored for the inferred level aliases the '
               f"child's record ({fmt_term(t)[:120]}): setting its "
               "assignment would overwrite the child's")
        # on every path from the copy to the store: directly_assigned=False
        defs = [d for d in rd.reaching(var, node.id) if d.kind == 'assign']
        flag_nodes = set()
        pop_nodes = set()
        assign_nodes = dict()
        for n2 in cfg.nodes:
            if n2.id not in rd.live:
                continue
            s2 = n2.ast
            if n2.kind == 'stmt' and isinstance(s2, ast.Assign):
                for tg in s2.targets:
                    if isinstance(tg, ast.Subscript) and isinstance(
                            tg.value, ast.Name) and tg.value.id == var \
                            and isinstance(tg.slice, ast.Constant):
                        if tg.slice.value == 'directly_assigned':
                            v = s2.value
                            if isinstance(v, ast.Constant) \
                                    and v.value is False:
                                flag_nodes.add(n2.id)
                            else:
                                assign_nodes['flag-not-false'] = n2
                        if tg.slice.value == 'assignment':
                            assign_nodes['assignment'] = n2
            for c in cfg.calls_in(n2):
                if isinstance(c.func, ast.Attribute) \
                        and c.func.attr == 'pop' and isinstance(
                            c.func.value, ast.Name) \
                        and c.func.value.id == var:
                    pop_nodes.add(n2.id)
        for d in defs:
            okp, p = cfg.must_pass(d.node, {node.id},
                                   lambda n: n.id in flag_nodes,
                                   edge_ok=lambda a, b, lab: lab != 'exc')
            ctx.ob('R-CONST/backfill-flag', 'backfill:directly_assigned',
                   fi.loc(st), okp and 'flag-not-false' not in assign_nodes,
                   'inferred records are flagged directly_assigned=False'
                   if okp and 'flag-not-false' not in assign_nodes else
                   'an inferred record can be stored without '
                   'directly_assigned being set to the constant False')
        # runner-up keys removed: a pop under a startswith('runner_up')
        from ..core.guards import facts_at
        ru = False
        for pn in pop_nodes:
            for (_g, test, truth) in facts_at(cfg, rd, pn):
                if not truth:
                    continue
                for sub in ast.walk(test):
                    if isinstance(sub, ast.Call) and isinstance(
                            sub.func, ast.Attribute) \
                            and sub.func.attr == 'startswith' \
                            and sub.args and isinstance(
                                sub.args[0], ast.Constant) \
                            and str(sub.args[0].value).startswith(
                                'runner_up'):
                        ru = True
        ctx.ob('R-CONST/backfill-runner-up', 'backfill:runner_up',
               fi.loc(st), ru,
               'runner_up_* keys are removed from inferred records'
               if ru else
               'inferred records keep the runner_up_* fields of the child')
        # the assignment is the parent of the child's assignment
        an = assign_nodes.get('assignment')
        if an is None:
            ctx.fail('R-PROV/backfill-parent', 'backfill:assignment',
                     fi.loc(st), "the inferred record's assignment is "
                     'never set')
        else:
            ta = ex.expand(an.ast.value, an.id)
            ok = any(x == ('attr', ('param', 'self'), '_child_to_parent')
                     for x in T.subterms(ta)) and any(
                x == ('const', "'assignment'") for x in T.subterms(ta))
            ctx.ob('R-PROV/backfill-parent', 'backfill:assignment',
                   fi.loc(an.ast), ok,
                   "the inferred assignment is the stored parent of the "
                   "child's assignment" if ok else
                   'the inferred assignment is '
                   f'{fmt_term(ta)[:140]}: not child_to_parent[child '
                   "level][child's assignment]")
    # voted levels are flagged True in the runner
    runner = db.fn('type_assignment.election_runner:'
                   'run_type_assignment_on_h5ad')
    found_true = False
    for n in ast.walk(runner.node):
        if isinstance(n, ast.Assign):
            for tg in n.targets:
                if isinstance(tg, ast.Subscript) and isinstance(
                        tg.slice, ast.Constant) \
                        and tg.slice.value == 'directly_assigned':
                    if isinstance(n.value, ast.Constant) \
                            and n.value.value is True:
                        found_true = True
                    else:
                        found_true = False
    ctx.ob('R-CONST/voted-flag', 'runner:directly_assigned', runner.loc(),
           found_true,
           'voted levels are flagged directly_assigned=True' if found_true
           else 'voted levels are not flagged directly_assigned=True')


# ----------------------------------------------------------------------
# 6. level-keyed records and possibly-None levels
# ----------------------------------------------------------------------

def check_level_keys(ctx):
    db = ctx.db
    fi = db.fn('type_assignment.election:run_type_assignment')
    ctx.touch(fi)
    cfg = cfg_of(fi)
    rd = rd_of(fi)
    ex = Expander(fi)
    rule = 'R-GUARD/level-key'
    result_var = _result_var(fi, cfg, rd)
    n = 0
    for node in cfg.nodes:
        if node.id not in rd.live:
            continue
        for root in node.exprs:
            if root is None:
                continue
            for sub in ast.walk(root):
                if not isinstance(sub, ast.Subscript):
                    continue
                if not isinstance(sub.slice, ast.Name):
                    continue
                # is the base a record of `result`?
                tb = ex.expand(sub.value, node.id)
                if not _is_record_of(tb, result_var, fi, ex, rd, node):
                    continue
                tk = ex.expand(sub.slice, node.id)
                may_none = _may_be_none(tk)
                if may_none is None:
                    continue
                n += 1
                key = f'run_type_assignment:{unparse(sub)}'
                if not may_none:
                    ctx.ok(rule, key, fi.loc(sub),
                           'the level ranges over the hierarchy only')
                    continue
                if _none_guarded(cfg, node, sub.slice.id):
                    ctx.ok(rule, key, fi.loc(sub),
                           'dominated by an `is not None` test')
                else:
                    ctx.fail(rule, key, fi.loc(sub),
                             f'`{unparse(sub)}`: the record is keyed by '
                             'the levels of the hierarchy but '
                             f'`{sub.slice.id}` ranges over [None] + '
                             'hierarchy; for the first pair it is None '
                             '(KeyError when the top level has a single '
                             'node and its correlation must be inherited)')
    if n == 0:
        ctx.fail(rule, 'run_type_assignment', fi.loc(),
                 'no level-keyed record access recognised')


def _is_record_of(tb, result_var, fi, ex, rd, node):
    """term denotes an element of the result list (result[i] or a loop
    element of result)"""
    for alt in term_alts(tb):
        if alt[0] == 'iterelem' and _is_result_list(alt[1]):
            return True
        if alt[0] == 'sub' and _is_result_list(alt[1]):
            return True
    return False


def _is_result_list(t):
    # the list comprehension of {level: None for level in hierarchy}
    if t[0] == 'comp' and t[1] == 'ListComp':
        body = t[2]
        if body[0] == 'comp' and body[1] == 'DictComp':
            return True
    return False


def _may_be_none(tk):
    """True/False if the key is a loop element of a list built as
    [None] + list(hierarchy) (or a slice of it); None if unrelated"""
    for alt in term_alts(tk):
        # element i of zip(A, B)
        if alt[0] == 'sub' and alt[2][0] == 'const' \
                and alt[1][0] == 'iterelem' \
                and T.call_name(alt[1][1]) == 'zip':
            i = int(alt[2][1])
            z = alt[1][1]
            if i < len(z[2]):
                return _list_may_hold_none(z[2][i])
        if alt[0] == 'iterelem':
            r = _list_may_hold_none(alt[1])
            if r is not None:
                return r
    return None


def _list_may_hold_none(t):
    """t is (a slice of) [None] + list(h)  ->  does it include index 0?"""
    if t[0] == 'sub' and t[2][0] == 'slice':
        base = t[1]
        lo = t[2][1]
        inner = _list_may_hold_none(base)
        if inner is None:
            return None
        if not inner:
            return False
        # lower bound None or 0 keeps the leading None
        if lo == ('const', 'None') or lo == ('const', '0'):
            return True
        return False
    if t[0] == 'binop' and t[1] == 'Add':
        left = t[2]
        if left[0] == 'list' and any(x == ('const', 'None')
                                     for x in left[1]):
            return True
        return False
    if t[0] == 'attr' and t[2] == 'hierarchy':
        return False
    if T.call_name(t) in ('list', 'tuple') and t[2]:
        return _list_may_hold_none(t[2][0])
    return None


def _none_guarded(cfg, node, var):
    """node is dominated by the true edge of `var is not None` (or the
    false edge of `var is None`)"""
    for n in cfg.nodes:
        if n.kind != 'if':
            continue
        t = n.ast.test
        if isinstance(t, ast.Compare) and len(t.ops) == 1 and isinstance(
                t.left, ast.Name) and t.left.id == var and isinstance(
                    t.comparators[0], ast.Constant) \
                and t.comparators[0].value is None:
            edge = 'true' if isinstance(t.ops[0], (ast.IsNot,
                                                   ast.NotEq)) else 'false'
            for (tt, lab) in cfg.succ[n.id]:
                if lab == edge and (tt == node.id
                                    or cfg.dominates(tt, node.id)):
                    return True
    return False


def check_reconcile_one_sided(ctx):
    """the pre-flight comparison of taxonomy and marker cache may reject a
    run only for a parent of the run's tree that has no markers.  The
    cache is allowed to hold more than the tree asks for: a run with a
    level dropped or the tree flattened uses the marker table of the full
    taxonomy.  Every failing verdict `(False, ...)` must therefore pass
    through the place where a parent of the tree was found missing from
    the cache; a failing verdict reachable without it rejects taxonomies
    the property says are mapped."""
    db = ctx.db
    fi = db.fn('type_assignment.utils:reconcile_taxonomy_and_markers')
    ctx.touch(fi)
    cfg = cfg_of(fi)
    rd = rd_of(fi)
    ex = Expander(fi)
    rule = 'R-MUST/rejects-only-missing-parent'
    recorders = set()
    for loop in ast.walk(fi.node):
        if not isinstance(loop, ast.For):
            continue
        hdr = [x for x in cfg.nodes_of(loop) if x.kind == 'for'
               and x.id in rd.live]
        if not hdr:
            continue
        t = ex.expand(loop.iter, hdr[0].id)
        from ..core.defuse import term_contains
        if not term_contains(t, lambda x: len(x) == 3 and x[0] == 'attr'
                             and x[2] == 'all_parents'):
            continue
        for iff in ast.walk(loop):
            if not isinstance(iff, ast.If):
                continue
            tst, arm = iff.test, iff.body
            if isinstance(tst, ast.UnaryOp) and isinstance(
                    tst.op, ast.Not):
                tst, arm = tst.operand, iff.orelse
                if isinstance(tst, ast.Compare) and isinstance(
                        tst.ops[0], ast.In):
                    pass
                else:
                    continue
            elif isinstance(tst, ast.Compare) and isinstance(
                    tst.ops[0], ast.NotIn):
                pass
            elif isinstance(tst, ast.Compare) and isinstance(
                    tst.ops[0], ast.In):
                arm = iff.orelse
            else:
                continue
            for st in arm:
                for sub in ast.walk(st):
                    if isinstance(sub, ast.stmt):
                        for x in cfg.nodes_of(sub):
                            recorders.add(x.id)
    if not recorders:
        raise AnalysisError('the place where a parent of the tree is '
                            'found missing from the marker cache was not '
                            'recognised in reconcile_taxonomy_and_markers')
    # collections that are empty unless a missing parent was recorded:
    # created empty, filled only at the recording place.  On a path that
    # avoids that place their emptiness tests have a known outcome.
    def _empty_literal(v):
        return (isinstance(v, (ast.List, ast.Set, ast.Dict, ast.Tuple))
                and not getattr(v, 'elts', getattr(v, 'keys', None))) or (
            isinstance(v, ast.Call) and isinstance(v.func, ast.Name)
            and v.func.id in ('list', 'set', 'dict') and not v.args)
    only_there = set()
    for name in {d.name for d in rd.defs}:
        defs = [d for d in rd.defs if d.name == name]
        muts = [m for m in rd.mutations(name) if m[0] in rd.live]
        if defs and muts and all(
                d.kind == 'assign' and not d.path and _empty_literal(
                    d.value) for d in defs) and all(
                        m[0] in recorders for m in muts):
            only_there.add(name)

    def _known_empty(test):
        """True / False: outcome of the test when the collections are
        empty; None: not such a test"""
        t, neg = test, False
        if isinstance(t, ast.UnaryOp) and isinstance(t.op, ast.Not):
            t, neg = t.operand, True
        val = None
        if isinstance(t, ast.Name) and t.id in only_there:
            val = False
        elif isinstance(t, ast.Compare) and len(t.ops) == 1 \
                and isinstance(t.left, ast.Call) and isinstance(
                    t.left.func, ast.Name) and t.left.func.id == 'len' \
                and t.left.args and isinstance(t.left.args[0], ast.Name) \
                and t.left.args[0].id in only_there and isinstance(
                    t.comparators[0], ast.Constant) \
                and t.comparators[0].value == 0:
            op = t.ops[0]
            if isinstance(op, ast.Eq):
                val = True
            elif isinstance(op, (ast.Gt, ast.NotEq)):
                val = False
        if val is None:
            return None
        return (not val) if neg else val

    def edge_ok(a, b, lab):
        if lab == 'exc':
            return False
        na = cfg.nodes[a]
        if na.kind == 'if' and lab in ('true', 'false'):
            v = _known_empty(na.ast.test)
            if v is not None and (lab == 'true') != v:
                return False
        return True
    k = 0
    for r in cfg.nodes:
        if r.kind != 'return' or r.id not in rd.live:
            continue
        v = r.ast.value
        first = v.elts[0] if isinstance(v, ast.Tuple) and v.elts else v
        if not (isinstance(first, ast.Constant) and first.value is False):
            continue
        p = cfg.path(cfg.entry, {r.id}, avoid=lambda x: x.id in recorders,
                     edge_ok=edge_ok)
        ok = p is None
        ctx.ob(rule, f'{fi.qual}:return#{k}', fi.loc(r.ast), ok,
               'the run is rejected only after a parent of the tree was '
               'found without markers' if ok else
               f'`{unparse(r.ast)[:60]}` rejects the run although no '
               'parent of the tree lacks markers: a marker table that '
               'holds more than the run\'s tree (level dropped, tree '
               'flattened) is refused',
               witness=cfg.fmt_path(p) if p else None)
        k += 1
    if k == 0:
        raise AnalysisError('no failing verdict found in '
                            'reconcile_taxonomy_and_markers')


def check_results_blob_written_as_computed(
        ctx, rule='R-SAMEVAL/results-written-as-computed'):
    """the records `_run_mapping` returns are the records that are written:
    in run_mapping (and the on-the-fly front end) the blob that holds
    'results' is never replaced by the result of a function applied to it
    (`output = f(output)`): a transformation of the whole blob -- a
    sanitiser, a cleaner -- rewrites cell ids and node names that look like
    something else.  Keys are added to it and the log is sanitised on its
    own."""
    db = ctx.db
    n = 0
    for q in ('cli.from_specified_markers:run_mapping',
              'cli.map_to_on_the_fly_markers:OnTheFlyMapper.run'):
        fi = db.fn(q, required=False)
        if fi is None:
            continue
        blobs = set()
        for st in ast.walk(fi.node):
            if isinstance(st, ast.Assign) and isinstance(
                    st.targets[0], ast.Subscript) and isinstance(
                        st.targets[0].value, ast.Name) and isinstance(
                            st.targets[0].slice, ast.Constant) \
                    and st.targets[0].slice.value in ('config', 'log',
                                                      'metadata'):
                blobs.add(st.targets[0].value.id)
        for b in sorted(blobs):
            n += 1
            bad = None
            for st in ast.walk(fi.node):
                if isinstance(st, ast.Assign) and any(
                        isinstance(t, ast.Name) and t.id == b
                        for t in st.targets) and isinstance(
                            st.value, ast.Call):
                    nm = getattr(st.value.func, 'attr', getattr(
                        st.value.func, 'id', None))
                    uses = any(isinstance(x, ast.Name) and x.id == b
                               for a in list(st.value.args) + [
                                   k.value for k in st.value.keywords]
                               for x in ast.walk(a))
                    if uses and nm not in ('deepcopy', 'copy', 'dict'):
                        bad = st
            ctx.touch(fi)
            ctx.ob(rule, f'{fi.qual}:{b}', fi.loc(bad or fi.node),
                   bad is None,
                   f'`{b}` is only added to' if bad is None else
                   f'`{unparse(bad)[:60]}` replaces the whole output blob, '
                   'the per-cell records included, by a transformed copy: '
                   'cell ids and assignments are no longer written as they '
                   'were computed')
    if n < 1:
        raise AnalysisError('no output blob found in the mapping front '
                            'ends')
    return n
