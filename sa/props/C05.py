"""
C05 -- row access is exact for every on-disk encoding and chunking.

Decided (DESIGN.md section 5, C05):
 1. R-EXH: every member of the encoding vocabulary {array, csr_matrix,
    csc_matrix} reaches a non-raising arm in each encoding dispatcher, and
    in the row iterator the three members select three different arms
    (CSC is transposed first, never read as if it were CSR).
 2. the cursor rule of both row iterators (shared with C01).
 3. R-POS: range steps and slice strides derived from a memory budget, a
    division or a rounding cannot be zero.
 4. R-POS / R-SAMEVAL: HDF5 chunk extents built from a count cannot be
    zero for matrices without stored entries, and are bounded by the shape
    of the dataset they belong to.
"""
import ast

from ..core.cfg import cfg_of
from ..core.defuse import rd_of, Expander, fmt_term
from ..core import terms as T
from ..core.loader import unparse, AnalysisError
from ..rules import dispatch as D
from ..rules.sign import SignEval, step_and_chunk_sites, MAYZERO, POS, UNK
from ..rules import cursors as CU
from .C01 import check_chunk_protocol

ID = 'C05'

EXPLANATION = (
    "Static analysis. (1) Conditional constant propagation over the CFG of "
    "each of the seven encoding-type dispatchers, once per member of "
    "{array, csr_matrix, csc_matrix} (string predicates ==, in, "
    "startswith are folded), shows that a normal continuation stays "
    "feasible for every member and that in AnnDataRowIterator.__init__ "
    "the CSR iterator on the original file is feasible only for csr, the "
    "CSC re-writing only for csc, the dense iterator only for array. "
    "(2) Value identity on symbolic terms shows that both row iterators "
    "cut rows with (r0, r1), report those bounds, advance the cursor to "
    "the bound returned and stop at n_rows. (3,4) A sign analysis over "
    "reaching definitions (POS / MAYZERO / UNK, with branch-edge "
    "refinement for zero tests and interprocedural return classes) shows "
    "that no range step, slice stride or HDF5 chunk extent in the anchored "
    "files can be zero, and chunk extents of the form min(x, K) use the "
    "x that is the dataset's own shape. The values delivered by the "
    "readers (index arithmetic of _load_sparse, _csr_to_dense, "
    "_load_disjoint_csr) are not decided.")

EXPLANATION += (
    ' Added after the seeded rounds: write cursors are used, advanced '
    'and recorded in every iteration (R-CURSOR); chunked loops tile '
    'their axis exactly (R-TILE); slices and gathers in the '
    'transposition are applied in the index space they were computed in '
    '(R-SPACE).'
)

EXPLANATION += (
    ' Round 3: pointer values are never the positions of a '
    'fancy-indexed store (R-IDIOM/pointer-scatter).'
)

EXPLANATION += (
    ' Round 5: sorted reads are put back with the matching permutation, not indexed with it a second time, and before every return (R-PERM); settings are forwarded (R-FWD).'
)

EXPLANATION += (
    ' Round 6: a reader answers from the requested row list itself, not only from an order-free summary of it (R-PERM/request-order).'
)

EXPLANATION += (
    ' Round 7: a re-used read buffer is consumed through the part just filled (R-TILE/buffer-window).'
)

EXPLANATION += (
    ' Round 8: CSR range readers return re-based pointers on every path; stored values are placed by their column index (R-SAMEVAL/pointers-rebased, /placed-by-index).'
)

EXPLANATION += (
    " Round 9: an array allocated with another array's element type is used as the same kind of sparse-matrix member (R-DTYPE/borrowed-type)."
)

EXPLANATION += (
    ' Round 12: single elements and the length of a request the function sorts are order-free summaries (R-PERM/request-order).'
)

EXPLANATION += (
    ' Round 13: a tiling loop over several arrays takes its extent from the array of the current turn (R-TILE/extent-of-the-array).'
)

EXPLANATION += (
    ' Round 14: a test that relates x[-1] - x[0] to the length of x is last - first == count - 1 over a sorted, distinct x (R-ARITH/span-contiguity), also in the utils.utils helpers the anchored code calls.'
)

EXPLANATION += (
    " Round 18: a converted sparse group's pointer array is not shaped like the input's (R-AXIS/converted-pointer-extent)."
)

RULE_TEXT = (
    "one obligation per (dispatcher, encoding member), per arm-"
    "distinctness relation, per cursor relation, per range step / slice "
    "stride / chunk extent site; non-trivial when the site's value is "
    "computed (not a literal)")

ASSUMPTIONS = [
    "h5py rejects a zero chunk extent and a chunk larger than a fixed "
    "shape",
    "the encoding vocabulary anndata writes is {array, csr_matrix, "
    "csc_matrix}; other strings are outside the property",
    "parameters are not judged by the sign analysis (UNK): callers' "
    "preconditions",
    "CPU configuration; necessary conditions only",
]

DISPATCHERS = [
    'anndata_iterator.anndata_iterator:AnnDataRowIterator.__init__',
    'utils.anndata_utils:copy_layer_to_x',
    'validation.utils:is_x_integers',
    'validation.utils:round_x_to_integers',
    'validation.utils:get_minmax_x_from_h5ad',
    'validation.utils:is_data_ge_zero',
    'utils.anndata_utils:_amalgamate_h5ad',
]

ANCHOR_MODULES = ('anndata_iterator.anndata_iterator', 'utils.sparse_utils',
                  'utils.csc_to_csr')


def check(ctx):
    check_dispatch(ctx, DISPATCHERS)
    check_iterator_arms(ctx)
    check_chunk_protocol(ctx, rule='R-SAMEVAL/cursor')
    check_signs(ctx, ANCHOR_MODULES)
    check_cursor_use(ctx, ANCHOR_MODULES, floor=3)
    check_tiles(ctx, ANCHOR_MODULES, floor=2)
    check_scatter(ctx)
    check_unsort(ctx)
    check_rebased_pointers(ctx)
    check_placed_by_column_index(ctx)
    from .C13 import check_index_spaces
    check_index_spaces(ctx)
    sweep_generic_rules(ctx, ANCHOR_MODULES)
    # settings this property depends on are handed down every call
    # chain, never left to a callee's default (sa/rules/forwarding.py)
    from ..rules.forwarding import check_forwarding
    check_forwarding(ctx, {'layer', 'max_gb', 'row_chunk_size', 'chunk_size', 'keep_open'})


def check_dispatch(ctx, dispatchers, rule='R-EXH/encoding'):
    db = ctx.db
    ctx.floor(rule, 3 * len(dispatchers))
    for q in dispatchers:
        fi = db.fn(q)
        D.check_total_dispatch(ctx, fi, rule)


def check_iterator_arms(ctx):
    """csr / csc / array select three different arms of the row iterator"""
    db = ctx.db
    fi = db.fn('anndata_iterator.anndata_iterator:'
               'AnnDataRowIterator.__init__')
    rule = 'R-EXH/iterator-arms'
    want = {
        'csr_matrix': ('CSRRowIterator', True),
        'csc_matrix': ('_initialize_as_csc', True),
        'array': ('DenseArrayRowIterator', True),
    }
    regions = {m: D.fold(fi, m) for m in D.ENCODINGS}
    for m, (callee, _x) in want.items():
        reg = regions[m]
        own = D.feasible_calls(fi, reg, callee)
        others = [c for (mm, (c, _y)) in want.items()
                  if mm != m and D.feasible_calls(fi, reg, c)]
        ok = own and not others
        ctx.ob(rule, f'AnnDataRowIterator.__init__:{m}', fi.loc(), ok,
               f"'{m}' selects {callee} and no other arm" if ok else
               f"'{m}' " + ('does not reach ' + callee if not own else
                            f'can also reach {others}: a matrix stored '
                            f'as {m} would be read with the wrong layout'))


def check_signs(ctx, modules, rule_prefix='R-POS', advisory_rest=True):
    db = ctx.db
    n_sites = 0
    for fi in db.iter_functions():
        anchored = fi.module.short in modules
        if not anchored and not (ctx.tier == 'thorough' and advisory_rest):
            continue
        if fi.module.short.startswith('gpu_utils'):
            continue
        sites = step_and_chunk_sites(db, fi)
        if not sites:
            continue
        ctx.touch(fi)
        se = SignEval(db, fi)
        ex = Expander(fi)
        for kind, expr, site, node in sites:
            c = se.eval(expr, node.id)
            key = f'{fi.qual}:{_site_name(site)}:{unparse(expr)}'
            rule = f'{rule_prefix}/{kind}'
            n_sites += 1
            literal = isinstance(expr, ast.Constant) or (
                isinstance(expr, ast.UnaryOp))
            if c == MAYZERO:
                msg = (f'`{unparse(expr)}` is used as a {kind} but can be '
                       'zero (it is a count, or was rounded / floor-'
                       'divided, and no floor or zero test protects this '
                       'use)')
                if kind == 'chunk-extent':
                    msg += ('; h5py rejects a zero chunk extent, so a '
                            'matrix without stored entries cannot be '
                            'written')
                else:
                    msg += '; a zero step raises / never advances'
                ctx.ob(rule, key, fi.loc(site), False, msg,
                       advisory=not anchored)
            else:
                ctx.ob(rule, key, fi.loc(site), True,
                       f'{kind} `{unparse(expr)[:50]}` is {c}',
                       nontrivial=not literal, advisory=not anchored)
            # chunk extent min(x, K) must use the dataset's own shape
            if kind == 'chunk-extent' and isinstance(site, ast.Call):
                _check_chunk_vs_shape(ctx, fi, ex, site, expr, node,
                                      anchored)
    if n_sites == 0:
        raise AnalysisError('no range-step / chunk-extent site found in '
                            f'{modules}')


def _site_name(site):
    if isinstance(site, ast.Call):
        f = site.func
        if isinstance(f, ast.Attribute) and site.args and isinstance(
                site.args[0], ast.Constant):
            return f"{f.attr}('{site.args[0].value}')"
        return unparse(f)
    return 'slice'


def _check_chunk_vs_shape(ctx, fi, ex, call, expr, node, anchored):
    """create_dataset(shape=S, chunks=(min(x, K), ...)): x must be the
    corresponding component of S"""
    shape = None
    chunks = None
    for kw in call.keywords:
        if kw.arg == 'shape':
            shape = kw.value
        if kw.arg == 'chunks':
            chunks = kw.value
    if shape is None or chunks is None:
        return
    ts = ex.expand(shape, node.id)
    tc = ex.expand(chunks, node.id)
    comps_s = list(ts[1]) if ts[0] == 'tuple' else [ts]
    alts = []
    from ..core.defuse import term_alts
    for alt in term_alts(tc):
        if alt[0] == 'tuple':
            alts.append(list(alt[1]))
        elif alt == ('const', 'None') or alt == ('const', 'True'):
            continue
        else:
            alts.append([alt])
    for comps_c in alts:
        if len(comps_c) != len(comps_s):
            continue
        for i, (c, s) in enumerate(zip(comps_c, comps_s)):
            if c[0] == 'call' and c[1] == ('name', 'min') and len(
                    c[2]) == 2:
                args = list(c[2])
                non_const = [a for a in args if a[0] != 'const']
                if len(non_const) != 1:
                    continue
                x = non_const[0]
                ok = (x == s)
                key = (f'{fi.qual}:{_site_name(call)}:axis{i}')
                ctx.ob('R-SAMEVAL/chunk-vs-shape', key, fi.loc(call), ok,
                       'chunk extent is bounded by the extent of its own '
                       'axis' if ok else
                       f'chunk extent min({fmt_term(x)[:40]}, K) is not '
                       f'bounded by the shape of its own axis '
                       f'({fmt_term(s)[:40]}): h5py rejects a chunk larger '
                       'than a fixed shape, so small matrices cannot be '
                       'written', advisory=not anchored)


def check_cursor_use(ctx, modules, floor=1, rule='R-CURSOR/used'):
    """every advancing write cursor of the assembly loops positions a
    store of its loop (sa/rules/cursors.py)"""
    n = 0
    for fi in ctx.db.iter_functions():
        if fi.module.short in modules:
            n += CU.check_cursors(ctx, fi, rule)
            CU.check_bookkeeping(ctx, fi)
            CU.check_advance(ctx, fi)
    if n < floor:
        raise AnalysisError(f'only {n} write cursors found in {modules}')


def check_tiles(ctx, modules, floor=1, rule='R-TILE/window'):
    """chunked loops tile their axis exactly (sa/rules/tiling.py)"""
    from ..rules.tiling import (check_tiling, check_window_writes,
                                check_whole_axis)
    n = 0
    for fi in ctx.db.iter_functions():
        if fi.module.short in modules:
            n += check_tiling(ctx, fi, rule)
            check_window_writes(ctx, fi)
            check_whole_axis(ctx, fi)
    if n < floor:
        raise AnalysisError(f'only {n} chunked loops found in {modules}')


def check_scatter(ctx, rule='R-IDIOM/pointer-scatter'):
    """no reader of the sparse encodings uses pointer values as scatter
    positions (sa/rules/scatter.py)"""
    from ..rules.scatter import check_pointer_scatter
    n = 0
    for fi in ctx.db.iter_functions():
        if fi.module.short in ('utils.sparse_utils', 'utils.csc_to_csr',
                               'anndata_iterator.anndata_iterator'):
            n += check_pointer_scatter(ctx, fi, rule)
    ctx.ok(rule, 'sparse-readers', 'package',
           f'{n} array-indexed stores in the sparse readers examined: none '
           'uses pointer values as positions', nontrivial=n > 0)


def sweep_generic_rules(ctx, anchored_modules):
    """thorough tier: the generic structural rules (tiling, cursors, index
    spaces, pointer scatter, node keys, memo keys, zip lock-step) over every
    pipeline module that is NOT an anchor of this property.  Advisory only:
    printed and counted, never a violation -- code outside the anchors is
    outside what the property states."""
    if ctx.tier != 'thorough':
        return
    from ..rules.tiling import (check_tiling, check_window_writes,
                                check_whole_axis)
    from ..rules.spaces import check_spaces
    from ..rules.scatter import check_pointer_scatter
    from ..rules.nodekeys import (check_node_keys, check_memo_keys,
                                  check_zip_alignment)
    from ..rules.idioms import (check_shared_mutable, check_narrowing_cast,
                                check_inplace_float_store,
                                check_abs_of_extremum)
    from ..rules.capacity import (check_index_dtype, check_borrowed_dtype,
                                  check_sum_capacity)
    from ..rules.h5names import check_h5_names_created_once
    from ..rules.perm import check_sorted_results_unsorted
    n = 0
    with ctx.advisory_scope():
        for fi in ctx.db.iter_functions():
            m = fi.module.short
            if m.startswith(('gpu_utils',)) or m.startswith(
                    tuple(anchored_modules)):
                continue
            try:
                n += check_tiling(ctx, fi, 'R-TILE/window')
                check_window_writes(ctx, fi)
                check_whole_axis(ctx, fi)
                n += CU.check_cursors(ctx, fi, 'R-CURSOR/used')
                CU.check_advance(ctx, fi)
                n += check_spaces(ctx, ctx.db, fi, 'R-SPACE/positions')
                check_pointer_scatter(ctx, fi)
                n += check_node_keys(ctx, fi)
                n += check_memo_keys(ctx, fi)
                n += check_zip_alignment(ctx, fi)
                n += check_shared_mutable(ctx, fi)
                n += check_index_dtype(ctx, fi)
                n += check_borrowed_dtype(ctx, fi)
                n += check_sum_capacity(ctx, fi)
                n += check_sorted_results_unsorted(ctx, fi)
                n += check_narrowing_cast(ctx, fi)
                n += check_inplace_float_store(ctx, fi)
                n += check_abs_of_extremum(ctx, fi)
                n += check_h5_names_created_once(ctx, fi)
            except AnalysisError:
                continue
    ctx.note(f'thorough sweep: generic structural rules evaluated on {n} '
             'further instances outside the anchored modules (advisory)')


def check_rebased_pointers(ctx, rule='R-SAMEVAL/pointers-rebased'):
    """a reader that cuts rows [a, b) out of a CSR file returns the
    pointer slice *re-based* to start at zero (`p - p.min()` / `p - p[0]`):
    the pieces are later concatenated and each is assumed to start at 0.
    Every return of such a function has to hand back the re-based form; a
    shortcut that returns the raw slice of the file's pointer array puts
    file offsets where local offsets are expected."""
    db = ctx.db
    n = 0
    for fi in db.iter_functions():
        if fi.module.short != 'utils.sparse_utils':
            continue
        cfg = cfg_of(fi)
        rd = rd_of(fi)
        ex = Expander(fi)
        rets = [r for r in cfg.nodes if r.kind == 'return' and r.id in rd.live
                and isinstance(r.ast.value, ast.Tuple)]
        if len(rets) < 1:
            continue
        terms = [(r, [ex.expand(e, r.id) for e in r.ast.value.elts])
                 for r in rets]

        def rebased(t):
            # X - X.min() / X - X[0] / X - min(X)
            if t[0] == 'binop' and t[1] == 'Sub':
                a, b = t[2], t[3]
                if b[0] == 'call' and T.call_name(b) == 'min' and (
                        T.call_receiver(b) == a or (b[2] and b[2][0] == a)):
                    return a
                if b[0] == 'sub' and b[1] == a and b[2] == ('const', '0'):
                    return a
            return None
        # positions that some return re-bases
        pos = set()
        for (r, ts) in terms:
            for k, t in enumerate(ts):
                if rebased(t) is not None:
                    pos.add((k, rebased(t)))
        for (k, base) in sorted(pos, key=repr):
            for (r, ts) in terms:
                if k >= len(ts):
                    continue
                n += 1
                t = ts[k]
                ok = rebased(t) is not None or not any(
                    x == base for x in T.subterms(t))
                ctx.touch(fi)
                ctx.ob(rule, f'{fi.qual}:return@{k}#{n - 1}', fi.loc(r.ast),
                       ok,
                       'the pointer slice is returned re-based to zero'
                       if ok else
                       f'`{unparse(r.ast)[:60]}` returns the raw pointer '
                       'slice where the other return of the function '
                       're-bases it to start at zero: file offsets end up '
                       'where offsets into the piece are expected')
    if n < 1:
        raise AnalysisError('no re-based pointer return found in '
                            'utils.sparse_utils')


def check_placed_by_column_index(ctx, rule='R-SAMEVAL/placed-by-index'):
    """when a run of stored values (a slice of `data`) is written into a
    dense row, every value goes to the column its stored index names: the
    column position of the store is the matching slice of `indices`.
    Writing the run to a plain range of columns assumes the indices are
    sorted and complete, which CSR files need not satisfy (anndata keeps
    the order the columns were permuted into)."""
    db = ctx.db
    fi = db.fn('utils.sparse_utils:_csr_to_dense')
    ctx.touch(fi)
    cfg = cfg_of(fi)
    rd = rd_of(fi)
    ex = Expander(fi)
    n = 0
    for node in cfg.nodes:
        st = node.ast
        if not (node.id in rd.live and isinstance(st, ast.Assign)
                and isinstance(st.targets[0], ast.Subscript)):
            continue
        v = ex.expand(st.value, node.id)
        if not any(x == ('param', 'data') for x in T.subterms(v)):
            continue
        if v[0] != 'sub' and v != ('param', 'data'):
            continue
        n += 1
        sl = st.targets[0].slice
        parts = sl.elts if isinstance(sl, ast.Tuple) else [sl]
        col = parts[-1]
        ok = False
        if not isinstance(col, ast.Slice):
            tc = ex.expand(col, node.id)
            ok = any(x == ('param', 'indices') for x in T.subterms(tc))
        ctx.ob(rule, f'{fi.qual}:store#{n - 1}', fi.loc(st), ok,
               'stored values are placed at the columns their indices name'
               if ok else
               f'`{unparse(st)[:60]}` writes a run of stored values to a '
               'range of columns instead of the columns named by the '
               'matching indices: a row whose indices are not in ascending '
               'order gets its values under the wrong genes')
    if n < 1:
        # written without an explicit store of the values (e.g. through
        # scipy): nothing for this rule to judge
        ctx.ok(rule, f'{fi.qual}:stores', fi.loc(),
               'no explicit store of stored values into the dense result',
               nontrivial=False)


def check_unsort(ctx, rule='R-PERM/unsort-pair'):
    """row batches read in sorted order are put back with the matching
    permutation (sa/rules/perm.py)"""
    from ..rules.perm import (check_unsort_pairs,
                              check_sorted_results_unsorted,
                              check_request_order)
    n = 0
    for fi in ctx.db.iter_functions():
        if fi.module.short in ('anndata_iterator.anndata_iterator',
                               'utils.sparse_utils'):
            n += check_unsort_pairs(ctx, fi, rule)
            n += check_sorted_results_unsorted(ctx, fi)
            check_request_order(ctx, fi)
    if n < 1:
        raise AnalysisError('no sort / un-sort pair found in the row '
                            'batch readers')
