"""
C19 -- runs leave inputs untouched, scratch space empty, and do not
interfere.

Decides (DESIGN.md section 5, C19):
 1. R-EFFECT: no write / remove effect of any CLI stage (with callees and
    workers) on a path its schema declares as an input; files are created
    only at declared output locations or in scratch space.
 2. R-PAIR: every mkdtemp / mkstemp_clean acquisition is released on every
    normal path (every path, for a mapping run), in its frame, by an owner
    object, or by a calling frame that owns the parent directory.
 3. Fresh names: nothing under a scratch or output root is listed or given
    a fixed name unless it sits in a freshly created directory.
 4. Worker output locations are distinct per dispatched worker.
"""
import ast

from ..core.cfg import cfg_of
from ..core.defuse import rd_of, Expander, term_contains
from ..core.loader import unparse, FunctionInfo, AnalysisError
from ..core.resolve import resolve_callee, ext_name, bind_args
from ..rules import pathkinds as PK
from ..rules import tempdirs as TD
from ..rules import workers as W
from ..rules.effects import PathAnalysis, _split_root

ID = 'C19'

# the generic data-path rules (sa/rules/closure.py) say nothing about this
# property (scheduling / failure / scratch / path disclosure)
GENERIC_SCAN = False

EXPLANATION = (
    "Static analysis. (1) Path kinds are read from the repository's own "
    "argschema declarations (InputFile/OutputFile/...; overrides in "
    "sa/specs/entry_points.json); an interprocedural may-effect analysis "
    "(open modes, copy/move/unlink, writer methods, worker targets) shows "
    "that no CLI stage has a write/remove effect on a declared input "
    "(the documented obsm write excepted) and that every write lands on a "
    "declared output or in scratch space. (2) For every mkdtemp/"
    "mkstemp_clean call the statement CFG is searched for a path from the "
    "acquisition to a normal return (for functions reachable from "
    "run_mapping: to any exit, following only exception edges of "
    "statements that can definitely fail) that passes no release "
    "(_clean_up / unlink / move / return / owner __del__); if the frame "
    "does not release it, every caller must own and release the parent "
    "directory (checked recursively over the call graph, including "
    "Process kwargs). (3) Directory listings and fixed-name files must be "
    "under freshly created directories. (4) Per-worker output paths must "
    "be created inside the dispatch loop or be named from per-iteration "
    "values. Decides these structural conditions; OS-level behaviour is "
    "not decided.")

EXPLANATION += (
    ' Added after the seeded rounds: per function, a listed directory '
    'was created by the lister under a unique name or handed over '
    'whole; no predictable file name directly under a scratch '
    'parameter.'
)

EXPLANATION += (
    ' Round 5: tmp_dir and the other settings are forwarded at every call (R-FWD/parameter-forwarded; two documented exceptions).'
)

EXPLANATION += (
    ' Round 6: the recorded statistics path is tried before a same-named file beside the marker file (R-PROV/recorded-path-first).'
)

EXPLANATION += (
    ' Round 7: an output file that is appended to is first created or replaced by the stage (R-FRESH/output-created-afresh).'
)

EXPLANATION += (
    ' Round 8: finalisers release the scratch directory they own on every normally returning path (R-PAIR/tempdir/finaliser).'
)

EXPLANATION += (
    ' Round 9: where a stale output of an earlier run is removed, every normally returning path writes the output or removes what was there (R-FRESH/stale-output-removed).'
)

EXPLANATION += (
    ' Round 10: no directory is created by mkdir / makedirs in worker code or under a scratch parameter (R-FRESH/directories-only-by-mkdtemp).'
)

EXPLANATION += (
    ' Round 13: an append to an output file follows its creation on every path (R-FRESH/append-follows-create).'
)

RULE_TEXT = (
    "one obligation per (CLI runner, input key), per write effect root, "
    "per temp acquisition and exit-set mode, per listing, per worker "
    "output parameter; non-trivial when the effect / acquisition exists")

ASSUMPTIONS = [
    "h5py/open: mode 'r' cannot modify a file; other modes may",
    "refcount-driven __del__ (CPython) for FileTracker / AnnDataRowIterator",
    "exceptions may arise at any call; finally runs on every exit",
    "CPU configuration; gpu_utils and corr are swept as advisory only",
    "necessary conditions only",
]

NOT_PIPELINE = ('gpu_utils', 'corr')


def in_pipeline(m):
    return not m.short.startswith(NOT_PIPELINE)


class _Advisory(object):
    def __init__(self, ctx):
        self._ctx = ctx
        self.db = ctx.db
        self.cg = ctx.cg
        self.tier = ctx.tier

    def touch(self, fi):
        self._ctx.touch(fi)

    def ok(self, rule, key, where, detail='', **kw):
        kw['advisory'] = True
        return self._ctx.ob(rule, key, where, True, detail, **kw)

    def fail(self, rule, key, where, detail='', **kw):
        kw['advisory'] = True
        return self._ctx.ob(rule, key, where, False, detail, **kw)


def check(ctx):
    pa = PathAnalysis(ctx.db, ctx.cg)
    check_input_effects(ctx, pa)
    check_temp_release(ctx)
    check_fresh_names(ctx, pa)
    check_own_listing(ctx, pa)
    check_worker_outputs(ctx, pa)
    check_recorded_path_first(ctx)
    check_outputs_created_afresh(ctx, pa)
    check_stale_output_removed(ctx)
    check_directories_only_by_mkdtemp(ctx)
    check_append_follows_create(ctx)
    check_finalisers_release(ctx)
    # settings this property depends on are handed down every call
    # chain, never left to a callee's default (sa/rules/forwarding.py)
    from ..rules.forwarding import check_forwarding
    check_forwarding(ctx, {'tmp_dir', 'results_output_path', 'buffer_dir', 'output_path'})


# ----------------------------------------------------------------------
# 1. effects on inputs / writes only to outputs
# ----------------------------------------------------------------------

def check_input_effects(ctx, pa):
    db = ctx.db
    spec = PK.load_spec()
    documented = spec.get('documented_input_writes', [])
    rule_in = 'R-EFFECT/input-untouched'
    rule_out = 'R-EFFECT/writes-only-to-outputs'
    ctx.floor(rule_in, 12)
    runners = PK.runners(db)
    if len(runners) < 10:
        raise AnalysisError(f'only {len(runners)} argschema runners found')
    for (rci, sci) in runners:
        run = db.find_method(rci, 'run')
        if run is None:
            continue
        ctx.touch(run)
        fields = PK.schema_path_keys(db, sci)
        kinds = dict()
        for keys, kind in fields.items():
            kinds[PK.key_root('self.args', keys)] = kind
        all_fields = _all_fields(db, sci)
        for k, kind in spec.get('config_overrides', {}).items():
            if tuple(k.split('.')) in all_fields:
                kinds[PK.key_root('self.args', tuple(k.split('.')))] = kind
        effs = pa.effects(run)
        # --- inputs
        for root, kind in sorted(kinds.items()):
            if not kind.startswith('Input'):
                continue
            bad = []
            for e in effs:
                if e.kind not in ('write', 'remove'):
                    continue
                if not _root_matches(e.root, root, kind, kinds):
                    continue
                if e.rel not in ('same',) and not (
                        kind.endswith('[]') and e.rel == 'same'):
                    # writing into a fresh / derived location under an
                    # input *directory* is still a write into the input
                    if e.rel in ('under',):
                        pass
                    else:
                        continue
                if _documented(e, documented):
                    continue
                bad.append(e)
            key = f'{rci.qual}:{root}'
            if bad:
                e = bad[0]
                ctx.fail(rule_in, key, e.fi.loc(e.site),
                         f'{rci.name}: input `{root}` (declared '
                         f'{kind} by {sci.name}) can be modified: '
                         f'{e.kind} effect at {e.fi.qual}',
                         witness=e.chain())
            else:
                reads = sum(1 for e in effs if _root_matches(
                    e.root, root, kind, kinds) and e.kind == 'read')
                ctx.ok(rule_in, key, run.loc(),
                       f'no write/remove effect on `{root}` '
                       f'({reads} read effect(s))',
                       nontrivial=reads > 0)
        # --- every write lands on an output or in scratch
        seen = set()
        for e in effs:
            if e.kind != 'write':
                continue
            base, chain = _split_root(e.root)
            if base != 'self.args':
                continue
            k = _kind_of(e.root, kinds)
            tag = (e.root, e.rel, k)
            if tag in seen:
                continue
            seen.add(tag)
            key = f'{rci.qual}:{e.root}:{e.rel}'
            if k is None:
                ctx.fail(rule_out, key, e.fi.loc(e.site),
                         f'{rci.name} writes to `{e.root}`, which its '
                         'schema does not declare as an output or scratch '
                         'location', witness=e.chain())
            elif k.startswith('Input'):
                if _documented(e, documented) or e.rel in ('same', 'under'):
                    # same/under: reported by the input rule
                    continue
                ctx.fail(rule_out, key, e.fi.loc(e.site),
                         f'{rci.name} creates a file next to / derived '
                         f'from its input `{e.root}` ({e.rel}), which is '
                         'not a requested output location',
                         witness=e.chain())
            else:
                ctx.ok(rule_out, key, e.fi.loc(e.site),
                       f'write lands on {k} `{e.root}` ({e.rel})')
    # library-level stage functions: inputs by parameter
    for entry in spec.get('library_inputs', []):
        fi = db.fn(entry['function'])
        ctx.touch(fi)
        effs = pa.effects(fi)
        for p in entry['inputs']:
            if p not in fi.params:
                raise AnalysisError(
                    f'{fi.qual} has no parameter {p} (entry_points.json)')
            bad = [e for e in effs if e.root == p
                   and e.kind in ('write', 'remove') and e.rel == 'same'
                   and not _documented(e, documented)]
            key = f'{fi.qual}:{p}'
            if bad:
                e = bad[0]
                ctx.fail(rule_in, key, e.fi.loc(e.site),
                         f'{fi.name}: input parameter `{p}` can be '
                         f'modified ({e.kind} at {e.fi.qual})',
                         witness=e.chain())
            else:
                reads = sum(1 for e in effs if e.root == p
                            and e.kind == 'read')
                ctx.ok(rule_in, key, fi.loc(),
                       f'no write/remove effect on parameter `{p}` '
                       f'({reads} read effect(s))', nontrivial=reads > 0)
    _effect_positive_control(ctx)


def _all_fields(db, sci, prefix=()):
    """every declared key of a schema (any field type)"""
    out = set()
    for c in db.mro(sci):
        for stmt in c.node.body:
            if isinstance(stmt, ast.Assign) and len(stmt.targets) == 1 \
                    and isinstance(stmt.targets[0], ast.Name) \
                    and isinstance(stmt.value, ast.Call):
                out.add(prefix + (stmt.targets[0].id,))
    for keys in PK.schema_path_keys(db, sci):
        out.add(keys)
    return out


def _norm_root(eroot, kinds):
    """a constant subscript applied to a path-valued key indexes a local
    container of paths derived from it, not a deeper configuration key"""
    r = eroot
    while r not in kinds and r.endswith(']') and '[' in r:
        r = r[:r.rindex('[')]
    return r if r in kinds else eroot


def _root_matches(eroot, root, kind, kinds=None):
    if eroot == root:
        return True
    if kinds is not None and _norm_root(eroot, kinds) == root:
        return True
    return False


def _kind_of(root, kinds):
    return kinds.get(_norm_root(root, kinds))


def _documented(e, documented):
    for d in documented:
        if e.root.endswith(d['root_suffix']) or e.root == d.get('param'):
            chain_fis = [e.fi.qual] + [v[0].qual for v in e.via]
            if d['callee'] in chain_fis:
                return True
    return False


def _effect_positive_control(ctx):
    """zero-expected rule: a fixture that opens its input with 'a' must be
    reported by the effect analysis"""
    from ..core.loader import ModuleInfo, _set_parents
    src = ("import h5py\n"
           "def stage(query_path, out):\n"
           "    helper(query_path)\n"
           "def helper(p):\n"
           "    with h5py.File(p, 'a') as f:\n"
           "        f.create_dataset('x', data=1)\n")
    tree = ast.parse(src)
    _set_parents(tree)
    m = ModuleInfo('cell_type_mapper._fixture_effect', None, '<fixture>',
                   tree, src)
    m.imports['h5py'] = ('module', 'h5py')
    fis = {}
    for node in tree.body:
        if isinstance(node, ast.FunctionDef):
            fi = FunctionInfo(m, None, node.name, node)
            m.functions[node.name] = fi
            m.all_functions.append(fi)
            fis[node.name] = fi
    from ..core.resolve import CallGraph

    class _DB(object):
        pass
    pa = PathAnalysis(ctx.db, ctx.cg)
    effs = pa.effects(fis['stage'])
    if not any(e.kind == 'write' and e.root == 'query_path'
               and e.rel == 'same' for e in effs):
        raise AnalysisError('positive control for R-EFFECT did not fire')
    ctx.note('positive control for R-EFFECT/input-untouched fired on the '
             'fixture')


# ----------------------------------------------------------------------
# 2. temp directories and files
# ----------------------------------------------------------------------

MAPPING_ROOT = 'cli.from_specified_markers:run_mapping'


def check_temp_release(ctx):
    db = ctx.db
    chk = TD.TempDirChecker(ctx)
    acqs = TD.find_acquisitions(db)
    rule = 'R-PAIR/tempdir'
    ctx.floor(rule, 40)
    mapping_closure = set(ctx.cg.reachable([MAPPING_ROOT]))
    if MAPPING_ROOT not in db.functions:
        raise AnalysisError(f'anchor definition not found: {MAPPING_ROOT}')
    for a in acqs:
        pipeline = in_pipeline(a.fi.module)
        c = ctx if pipeline else (_Advisory(ctx) if ctx.tier == 'thorough'
                                  else None)
        if c is None:
            continue
        c.touch(a.fi)
        # NORMAL exits: every stage
        st, detail, wit = _released(chk, a, 'NORMAL', None)
        key = a.key
        where = a.fi.loc(a.call)
        if st == 'ok':
            c.ok(rule + '/normal', key, where, detail)
        elif st == 'ancestor':
            c.ok(rule + '/normal', key, where, detail)
        else:
            c.fail(rule + '/normal', key, where,
                   f'scratch {a.kind} created here is left behind on a '
                   f'normal return: {detail}', witness=wit)
        # NORMAL+EXC exits: the mapping run
        if pipeline and _qual(a.fi) in mapping_closure:
            st, detail, wit = _released(chk, a, 'EXC', mapping_closure)
            if st in ('ok', 'ancestor'):
                c.ok(rule + '/mapping-run-any-exit', key, where, detail)
            else:
                c.fail(rule + '/mapping-run-any-exit', key, where,
                       f'scratch {a.kind} created during a mapping run '
                       f'survives a failing run: {detail}', witness=wit)


def _qual(fi):
    return fi.qual


def _released(chk, a, mode, closure):
    """('ok'|'ancestor'|'fail', detail, witness)"""
    ok, detail, wit = chk.released(a, mode, closure)
    if ok:
        return 'ok', detail, None
    if 'is itself not released' in detail:
        # the root cause is the enclosing acquisition, reported on its own
        return 'ancestor', ('nested under a directory whose own release is '
                            'reported separately: ' + detail), None
    return 'fail', detail, wit


# ----------------------------------------------------------------------
# 3. fresh names
# ----------------------------------------------------------------------

def check_fresh_names(ctx, pa):
    db = ctx.db
    spec = PK.load_spec()
    rule = 'R-FRESH/listing'
    rule2 = 'R-FRESH/fixed-name-in-scratch'
    for (rci, sci) in PK.runners(db):
        run = db.find_method(rci, 'run')
        if run is None:
            continue
        fields = PK.schema_path_keys(db, sci)
        kinds = {PK.key_root('self.args', k): v for k, v in fields.items()}
        all_fields = _all_fields(db, sci)
        for k, kind in spec.get('config_overrides', {}).items():
            if tuple(k.split('.')) in all_fields:
                kinds[PK.key_root('self.args', tuple(k.split('.')))] = kind
        effs = pa.effects(run)
        seen = set()
        for e in effs:
            k = _kind_of(e.root, kinds)
            if k not in ('ScratchRoot', 'Output'):
                continue
            if e.kind == 'list':
                tag = ('list', e.root, e.rel, id(e.site))
                if tag in seen:
                    continue
                seen.add(tag)
                key = f'{rci.qual}:{e.root}:{e.rel}:{e.fi.qual}'
                if e.rel == 'fresh':
                    ctx.ok(rule, key, e.fi.loc(e.site),
                           'only a freshly created directory is listed')
                else:
                    ctx.fail(rule, key, e.fi.loc(e.site),
                             f'{rci.name} lists `{e.root}` ({e.rel}), a '
                             'directory that may hold files of earlier or '
                             'concurrent runs: the result can depend on '
                             'them', witness=e.chain())
            elif e.kind == 'write' and k == 'ScratchRoot' \
                    and e.rel in ('under', 'same'):
                tag = ('write', e.root, e.rel, id(e.site))
                if tag in seen:
                    continue
                seen.add(tag)
                key = f'{rci.qual}:{e.root}:{e.rel}:{e.fi.qual}'
                ctx.fail(rule2, key, e.fi.loc(e.site),
                         f'{rci.name} writes a fixed-name file directly '
                         f'under the scratch root `{e.root}`; concurrent '
                         'runs sharing the directory would collide',
                         witness=e.chain())
        ctx.ok(rule + '/scan', rci.qual, run.loc(),
               f'{len(effs)} effects of {rci.name}.run scanned',
               nontrivial=len(effs) > 0)


def check_own_listing(ctx, pa):
    """library level: a stage function that lists a directory (to merge
    what its workers left there) lists a directory it created itself under
    a unique name (mkdtemp), or one its caller handed over whole.  A
    predictable name under a directory shared with other calls would let
    files of earlier or concurrent calls into the result."""
    db = ctx.db
    rule = 'R-FRESH/listing/own-directory'
    n = 0
    for fi in db.iter_functions():
        if not in_pipeline(fi.module):
            continue
        for e in pa.effects(fi):
            if e.kind != 'list' or e.via or e.fi is not fi:
                continue
            n += 1
            ctx.touch(fi)
            ok = e.rel in ('fresh', 'same')
            ctx.ob(rule, f'{fi.qual}:{e.root}:{_short_call(e.site)}',
                   fi.loc(e.site), ok,
                   ('lists a directory it created under a unique name'
                    if e.rel == 'fresh' else
                    'lists the directory its caller passed (judged at the '
                    'callers)') if ok else
                   f'{fi.name} lists a directory with a predictable name '
                   f'({e.rel} `{e.root}`): files left there by an earlier '
                   'or concurrent call that was given the same '
                   f'`{e.root}` are read as if they were its own',
                   witness=e.chain())
    if n < 2:
        raise AnalysisError(f'only {n} directory listings found in the '
                            'pipeline')
    # and no helper writes a file with a predictable name directly under
    # the scratch directory it was given (two calls given the same scratch
    # directory would share the file)
    rule = 'R-FRESH/scratch-names'
    n_w = 0
    for fi in db.iter_functions():
        if not in_pipeline(fi.module):
            continue
        for e in pa.effects(fi):
            if e.kind != 'write' or e.via or e.fi is not fi:
                continue
            if not any(w in e.root for w in ('tmp_dir', 'scratch')):
                continue
            n_w += 1
            if e.rel in ('under', 'sibling'):
                ctx.touch(fi)
                ctx.fail(rule, f'{fi.qual}:{e.root}:{_short_call(e.site)}',
                         fi.loc(e.site),
                         f'{fi.name} writes a file with a predictable '
                         f'name {e.rel} the scratch directory `{e.root}`: '
                         'calls sharing that directory overwrite each '
                         "other's file", witness=e.chain())
    ctx.ok(rule, 'pipeline', 'package',
           f'{n_w} direct writes into scratch directories examined: all go '
           'to uniquely named files or directories', nontrivial=n_w > 0)


def _short_call(site):
    f = getattr(site, 'func', None)
    if isinstance(f, ast.Attribute):
        return f.attr
    if isinstance(f, ast.Name):
        return f.id
    return type(site).__name__


# ----------------------------------------------------------------------
# 4. worker outputs distinct per dispatch
# ----------------------------------------------------------------------

def check_worker_outputs(ctx, pa):
    db = ctx.db
    rule = 'R-FRESH/worker-output'
    sites = [s for s in W.find_spawn_sites(db) if in_pipeline(s.fi.module)]
    for s in sites:
        if s.target is None or s.kwargs is None:
            continue
        fi = s.fi
        ctx.touch(fi)
        ctx.touch(s.target)
        loop = _enclosing_loop(s.call)
        effs = pa.effects(s.target)
        out_params = dict()
        for e in effs:
            if e.kind == 'write' and e.root in s.target.params \
                    and e.rel in ('same', 'under'):
                out_params.setdefault((e.root, e.rel), e)
        if not out_params:
            ctx.ok(rule, s.key, fi.loc(s.call),
                   'worker writes no file at a location given by the '
                   'dispatcher (results travel through shared memory or '
                   'fresh files)', nontrivial=False)
            continue
        ex = Expander(fi)
        rd = rd_of(fi)
        cfg = cfg_of(fi)
        for (p, rel), e in sorted(out_params.items()):
            arg = s.kwargs.get(p)
            key = f'{s.key}:{p}'
            if arg is None:
                continue
            if loop is None:
                ctx.ok(rule, key, fi.loc(s.call),
                       'single dispatch (not in a loop)', nontrivial=False)
                continue
            if rel == 'same':
                ok, why = _loop_fresh(pa, fi, arg, loop, rd, cfg)
                if ok:
                    ctx.ok(rule, key, fi.loc(arg),
                           f'`{p}={unparse(arg)}`: {why}')
                else:
                    ctx.fail(rule, key, fi.loc(arg),
                             f'every worker dispatched by this loop is '
                             f'given the same output file '
                             f'`{p}={unparse(arg)}` ({why}); they would '
                             'overwrite each other', witness=e.chain())
            else:
                # shared directory: the file name must be built from
                # per-iteration values
                ok, why = _name_from_iteration(pa, s, p, e, loop, rd, cfg,
                                               fi)
                if ok:
                    ctx.ok(rule, key, fi.loc(arg),
                           f'`{p}` is a shared directory; {why}')
                else:
                    ctx.fail(rule, key, fi.loc(arg),
                             f'workers write under the shared directory '
                             f'`{p}` with a name that does not depend on '
                             f'the iteration ({why})', witness=e.chain())


def _enclosing_loop(n):
    p = getattr(n, '_parent', None)
    while p is not None and not isinstance(p, (ast.FunctionDef,
                                               ast.AsyncFunctionDef)):
        if isinstance(p, (ast.For, ast.While)):
            return p
        p = getattr(p, '_parent', None)
    return None


def _inside(astn, loop):
    for b in loop.body:
        for sub in ast.walk(b):
            if sub is astn:
                return True
    return False


def _loop_fresh(pa, fi, arg, loop, rd, cfg):
    """the value is created by an acquisition executed in the loop body"""
    v = arg
    origins = pa.origins(fi, v)
    if not origins or not all(rel == 'fresh' for (_r, rel) in origins):
        return False, 'it is not a freshly created temp file'
    # and the definition that reaches the dispatch is inside the loop
    names = [x for x in ast.walk(v) if isinstance(x, ast.Name)]
    for nm in names:
        defs = rd.reaching_at_expr(nm)
        for d in defs:
            if d.kind == 'param':
                continue
            if d.stmt is None or not _inside(d.stmt, loop):
                # is this name the one carrying the path?
                if pa.origins(fi, nm):
                    return False, (f'`{nm.id}` is created outside the '
                                   'dispatch loop')
    return True, 'created by mkstemp/mkdtemp inside the dispatch loop'


def _name_from_iteration(pa, s, p, eff, loop, rd, cfg, fi):
    """worker joins `p` with a name formatted from other parameters whose
    dispatch-site values change with the iteration"""
    target = s.target
    # find, in the worker's frame, the expression written to
    site = eff.via[-1][1] if eff.via else eff.site
    wfi = eff.via[-1][0] if eff.via else eff.fi
    if wfi is not target:
        # the write happens deeper; look at the call in the worker frame
        for (vfi, vsite) in eff.via:
            if vfi is target:
                site = vsite
    used = set()
    # collect the names used to build any path under p in the worker
    for node in ast.walk(target.node):
        if isinstance(node, ast.Call):
            t = resolve_callee(pa.db, target, node)
            is_join = ext_name(t) == 'os.path.join'
            if is_join and node.args and any(
                    r == p for (r, _rel) in pa.origins(target,
                                                       node.args[0])):
                for a in node.args[1:]:
                    for sub in ast.walk(a):
                        if isinstance(sub, ast.Name):
                            used.add(sub.id)
        if isinstance(node, ast.BinOp) and isinstance(node.op, ast.Div):
            if any(r == p for (r, _rel) in pa.origins(target, node.left)):
                for sub in ast.walk(node.right):
                    if isinstance(sub, ast.Name):
                        used.add(sub.id)
    used &= set(target.params)
    if not used:
        return False, 'the file name uses no per-worker parameter'
    varying = []
    for u in sorted(used):
        a = s.kwargs.get(u)
        if a is None:
            continue
        for nm in [x for x in ast.walk(a) if isinstance(x, ast.Name)]:
            for d in rd.reaching_at_expr(nm):
                if d.stmt is not None and (_inside(d.stmt, loop)
                                           or d.stmt is loop):
                    varying.append(u)
    if varying:
        return True, ('the file name is built from '
                      f'{sorted(set(varying))}, bound inside the dispatch '
                      'loop')
    return False, (f'the name parameters {sorted(used)} are bound outside '
                   'the dispatch loop')


def check_recorded_path_first(ctx):
    """when a marker file records where its statistics file is, that
    recorded location is what a later stage reads; a same-named file next
    to the marker file is a fall-back for a recorded path that no longer
    exists.  Trying the fall-back first makes the result depend on
    whatever an earlier run left in that directory.  Decided on the
    existence tests of patch_child_to_parent: every test of a location
    derived from the parent file's directory is reached only through a
    test of the recorded path (for a first-match loop over a candidate
    list: every element that can come first is the recorded path)."""
    from ..core.defuse import Expander
    from ..core import terms as T
    db = ctx.db
    rule = 'R-PROV/recorded-path-first'
    fi = db.fn('utils.config_utils:patch_child_to_parent')
    ctx.touch(fi)
    cfg = cfg_of(fi)
    rd = rd_of(fi)
    ex = Expander(fi)

    def kind(t):
        """'alternative' if the location is derived from a *value* of the
        table (the parent file), 'recorded' if only from a key"""
        via_value = any(x[0] == 'sub' and x[1] == (
            'param', 'child_to_parent') for x in T.subterms(t))
        via_key = any(x[0] == 'iterelem' and x[1] == (
            'param', 'child_to_parent') for x in T.subterms(t))
        if via_value:
            return 'alternative'
        return 'recorded' if via_key else None

    tests = []
    for n in cfg.nodes:
        if n.id not in rd.live:
            continue
        for c in cfg.calls_in(n):
            f = c.func
            if isinstance(f, ast.Attribute) and f.attr in (
                    'is_file', 'exists') and not c.args:
                tests.append((n, c, f.value))
    if not tests:
        raise AnalysisError('patch_child_to_parent: no existence test '
                            'found')
    recorded_nodes = set()
    alt = []
    for (n, c, recv) in tests:
        t = ex.expand(recv, n.id)
        # a first-match loop over a local candidate list
        if isinstance(recv, ast.Name):
            loop = None
            p_ = getattr(c, '_parent', None)
            while p_ is not None:
                if isinstance(p_, ast.For) and isinstance(
                        p_.target, ast.Name) and p_.target.id == recv.id \
                        and isinstance(p_.iter, ast.Name):
                    loop = p_
                p_ = getattr(p_, '_parent', None)
            params = {a.arg for a in fi.node.args.args}
            firsts = []
            if loop is not None and loop.iter.id not in params:
                firsts = _possible_first_elements(fi, cfg, rd, loop.iter.id,
                                                  loop)
            if firsts:
                for (an, e) in firsts:
                    k = kind(ex.expand(e, an.id))
                    alt.append((n, c, f'element `{unparse(e)[:40]}` of '
                                f'`{loop.iter.id}` can be tried first',
                                k == 'recorded', None))
                continue
        k = kind(t)
        if k == 'recorded':
            recorded_nodes.add(n.id)
        elif k == 'alternative':
            alt.append((n, c, None, None, n.id))
    k_ = 0
    for (n, c, msg, ok, nid) in alt:
        if nid is not None:
            p = cfg.path(cfg.entry, {nid},
                         avoid=lambda x: x.id in recorded_nodes,
                         edge_ok=lambda a, b, lab: lab != 'exc')
            ok = p is None and bool(recorded_nodes)
            msg = (f'`{unparse(c)[:50]}` (a location next to the parent '
                   'file) can be tested without the recorded path having '
                   'been tested first')
        ctx.ob(rule, f'patch_child_to_parent:test#{k_}', fi.loc(c), ok,
               'the recorded location is tried before the fall-back'
               if ok else
               msg + ': a same-named file left in that directory by an '
               'earlier run is preferred over the file the metadata '
               'names')
        k_ += 1
    if k_ == 0:
        raise AnalysisError('patch_child_to_parent: the fall-back location '
                            'test was not recognised')


def _possible_first_elements(fi, cfg, rd, listname, loop):
    """appends to a local list that can be the first one executed after
    its creation: [(cfg node, appended expression)]"""
    creation = [n for n in cfg.nodes if n.id in rd.live and isinstance(
        n.ast, ast.Assign) and isinstance(n.ast.targets[0], ast.Name)
        and n.ast.targets[0].id == listname]
    appends = []
    for n in cfg.nodes:
        if n.id not in rd.live:
            continue
        for c in cfg.calls_in(n):
            f = c.func
            if isinstance(f, ast.Attribute) and f.attr == 'append' \
                    and isinstance(f.value, ast.Name) \
                    and f.value.id == listname and c.args:
                appends.append((n, c.args[0]))
    out = []
    # elements of a literal
    for cr in creation:
        v = cr.ast.value
        if isinstance(v, ast.List) and v.elts:
            out.append((cr, v.elts[0]))
            return out
    ids = {a[0].id for a in appends}
    for (an, e) in appends:
        for cr in creation:
            p = cfg.path(cr.id, {an.id},
                         avoid=lambda x, _a=an: x.id in ids
                         and x.id != _a.id,
                         edge_ok=lambda a, b, lab: lab != 'exc')
            if p is not None:
                out.append((an, e))
                break
    return out


def _write_creates(e):
    """does this write effect create / replace the file (True), or add to
    whatever is there (False)?  None: not a file-open we can read"""
    site = e.site
    if not isinstance(site, ast.Call):
        return None
    f = site.func
    nm = f.attr if isinstance(f, ast.Attribute) else (
        f.id if isinstance(f, ast.Name) else None)
    if nm in ('File', 'open'):
        mode = None
        pos = 1
        if len(site.args) > pos:
            mode = site.args[pos]
        for k in site.keywords:
            if k.arg == 'mode':
                mode = k.value
        if mode is None:
            return None
        if isinstance(mode, ast.Constant) and isinstance(mode.value, str):
            m = mode.value
            if 'w' in m or 'x' in m:
                return True
            if 'a' in m or '+' in m:
                return False
        return None
    # move / copy / replace into place, DataFrame.to_csv, AnnData.write...
    return True


def check_outputs_created_afresh(ctx, pa):
    """what a stage leaves at its output location is the result of this
    run: among everything the stage does to an output *file* there is at
    least one step that creates or replaces it (an open with 'w', a move
    or copy into place, a to_csv / write_h5ad).  If every write is an
    append-mode open, the stage builds on whatever an earlier run left at
    that path -- it fails on names that already exist, or silently carries
    stale datasets into the new output."""
    db = ctx.db
    rule = 'R-FRESH/output-created-afresh'
    n = 0
    for (rci, sci) in PK.runners(db):
        run = db.find_method(rci, 'run')
        if run is None:
            continue
        fields = PK.schema_path_keys(db, sci)
        kinds = {PK.key_root('self.args', keys): kind
                 for keys, kind in fields.items()}
        effs = pa.effects(run)
        for root, kind in sorted(kinds.items()):
            if not kind.startswith('Output'):
                continue
            ws = [e for e in effs if e.kind == 'write'
                  and e.root == root and e.rel == 'same']
            judged = [(e, _write_creates(e)) for e in ws]
            appends = [e for (e, c) in judged if c is False]
            creates = [e for (e, c) in judged if c is True]
            unknown = [e for (e, c) in judged if c is None]
            if not appends:
                continue
            n += 1
            ok = bool(creates) or bool(unknown)
            e = appends[0]
            ctx.ob(rule, f'{rci.qual}:{root}', e.fi.loc(e.site), ok,
                   f'`{root}` is created or replaced by the stage before '
                   f'it is added to ({len(creates)} creating, '
                   f'{len(appends)} appending write(s))' if ok else
                   f'{rci.name} only ever opens its output `{root}` in '
                   'append mode: the result depends on what an earlier '
                   'run left at that path',
                   witness=e.chain())
    if n < 3:
        raise AnalysisError(f'only {n} output files with append-mode '
                            'writes found among the runners')


def check_finalisers_release(ctx):
    """objects that own a scratch directory (the row iterator's CSR
    transcription, the file tracker's staging area) give it back in
    `__del__`.  Whenever the attribute holding the directory is set, the
    finaliser must reach the release on every path on which it returns
    normally: a release that sits behind a statement whose exception is
    caught and dropped is skipped exactly when that statement fails, and
    the directory stays behind."""
    db = ctx.db
    rule = 'R-PAIR/tempdir/finaliser'
    n = 0
    for fi in db.iter_functions():
        if fi.name != '__del__' or fi.module.short.startswith('gpu_utils'):
            continue
        cfg = cfg_of(fi)
        rd = rd_of(fi)
        rel = {}
        for node in cfg.nodes:
            if node.id not in rd.live:
                continue
            for c in cfg.calls_in(node):
                f = c.func
                nm = f.id if isinstance(f, ast.Name) else (
                    f.attr if isinstance(f, ast.Attribute) else None)
                if nm in ('_clean_up', 'rmtree') and c.args and isinstance(
                        c.args[0], ast.Attribute) and isinstance(
                            c.args[0].value, ast.Name) \
                        and c.args[0].value.id == 'self':
                    rel.setdefault(c.args[0].attr, set()).add(node.id)
        for attr, nodes in sorted(rel.items()):
            n += 1

            def edge_ok(a, b, lab, _attr=attr):
                if b == cfg.exc_exit:
                    return False
                na = cfg.nodes[a]
                if na.kind == 'if' and lab in ('true', 'false'):
                    t = na.ast.test
                    if isinstance(t, ast.Compare) and len(t.ops) == 1 \
                            and isinstance(t.left, ast.Attribute) \
                            and t.left.attr == _attr and isinstance(
                                t.comparators[0], ast.Constant) \
                            and t.comparators[0].value is None:
                        holds = isinstance(t.ops[0], ast.IsNot)
                        if (lab == 'true') != holds:
                            return False     # the directory is set
                return True
            p = cfg.path(cfg.entry, {cfg.exit},
                         avoid=lambda x: x.id in nodes, edge_ok=edge_ok)
            ok = p is None
            ctx.touch(fi)
            ctx.ob(rule, f'{fi.qual}:self.{attr}', fi.loc(), ok,
                   f'the finaliser releases self.{attr} whenever it is '
                   'set and the finaliser returns normally' if ok else
                   f'{fi.qual} can return normally without releasing '
                   f'self.{attr} (an exception on the way is caught and '
                   'dropped): the scratch directory stays behind',
                   witness=cfg.fmt_path(p) if p else None)
    # every class that takes a scratch directory into an attribute has
    # such a finaliser
    owners = 0
    for ci in db.iter_classes() if hasattr(db, 'iter_classes') else []:
        pass
    seen_cls = {}
    for fi in db.iter_functions():
        if fi.cls is None or fi.module.short.startswith('gpu_utils'):
            continue
        for st in ast.walk(fi.node):
            if isinstance(st, ast.Assign) and len(st.targets) == 1 \
                    and isinstance(st.targets[0], ast.Attribute) \
                    and isinstance(st.targets[0].value, ast.Name) \
                    and st.targets[0].value.id == 'self' and any(
                        isinstance(c, ast.Call) and (
                            (isinstance(c.func, ast.Attribute)
                             and c.func.attr == 'mkdtemp')
                            or (isinstance(c.func, ast.Name)
                                and c.func.id == 'mkdtemp'))
                        for c in ast.walk(st.value)):
                seen_cls.setdefault(fi.cls.qual, (fi.cls, set()))[1].add(
                    st.targets[0].attr)
    for q, (ci, attrs) in sorted(seen_cls.items()):
        d = db.find_method(ci, '__del__')
        for attr in sorted(attrs):
            owners += 1
            has = False
            if d is not None:
                for c in ast.walk(d.node):
                    if isinstance(c, ast.Call) and c.args and isinstance(
                            c.args[0], ast.Attribute) \
                            and c.args[0].attr == attr and isinstance(
                                c.func, (ast.Name, ast.Attribute)) and (
                                    getattr(c.func, 'id', None)
                                    or getattr(c.func, 'attr', None)) in (
                                        '_clean_up', 'rmtree'):
                        has = True
            ctx.ob(rule, f'{q}:owns:self.{attr}', ci.loc()
                   if hasattr(ci, 'loc') else None, has,
                   f'{ci.name} releases self.{attr} in its finaliser'
                   if has else
                   f'{ci.name} takes a scratch directory into self.{attr} '
                   'but its finaliser does not release it')
    if owners < 2:
        raise AnalysisError(f'only {owners} classes that own a scratch '
                            'directory found')


def _path_calls(cfg, rd, name):
    """(unlink nodes, guard nodes, write nodes) of the path held in the
    local `name`"""
    unlinks, guards, writes = set(), set(), set()
    for node in cfg.nodes:
        if node.id not in rd.live:
            continue
        if node.kind == 'if':
            t = node.ast.test
            while isinstance(t, ast.UnaryOp) and isinstance(t.op, ast.Not):
                t = t.operand
            if isinstance(t, ast.Call) and isinstance(
                    t.func, ast.Attribute) and t.func.attr in (
                        'exists', 'is_file') and (
                    (isinstance(t.func.value, ast.Name)
                     and t.func.value.id == name) or any(
                         isinstance(a, ast.Name) and a.id == name
                         for a in t.args)):
                guards.add(node.id)
            continue
        for c in cfg.calls_in(node):
            f = c.func
            if isinstance(f, ast.Attribute) and f.attr == 'unlink' \
                    and isinstance(f.value, ast.Name) and f.value.id == name:
                unlinks.add(node.id)
                continue
            if isinstance(f, ast.Attribute) and f.attr in (
                    'remove', 'unlink') and any(
                        isinstance(a, ast.Name) and a.id == name
                        for a in c.args):
                unlinks.add(node.id)
                continue
            if isinstance(f, ast.Attribute) and isinstance(
                    f.value, ast.Name) and f.value.id == name:
                continue            # a method of the path itself
            if isinstance(f, ast.Attribute) and isinstance(
                    f.value, ast.Name) and f.value.id in (
                        'log', 'logger', 'warnings'):
                continue
            args = list(c.args) + [kw.value for kw in c.keywords]
            if any(isinstance(a, ast.Name) and a.id == name for a in args):
                nm = f.attr if isinstance(f, ast.Attribute) else getattr(
                    f, 'id', '')
                if nm in ('Path', 'str', 'print', 'isinstance', 'len'):
                    continue
                writes.add(node.id)
    return unlinks, guards, writes


STALE_ANCHORS = {
    'validation.validate_h5ad:_validate_h5ad':
    ('copy_h5_excluding_data', 'dst_path'),
}


def check_stale_output_removed(ctx, rule='R-FRESH/stale-output-removed'):
    """A function that removes the file at one of its paths *without
    having written it* (the removal is not reachable from any of its own
    writes to that path) is clearing what an earlier run left there: the
    code itself says a file found at that location must not survive a run
    that does not write it.  Then that must hold on every path: every way
    from the entry to a normal return passes either a step that writes the
    path or the removal (or the `exists()` test that guards it).  A path
    that does neither leaves the earlier run's file in place, and what is
    at the output location afterwards depends on history."""
    db = ctx.db
    n = 0
    for fi in db.iter_functions():
        if fi.module.short.startswith(('gpu_utils', 'test_utils')):
            continue
        names = set()
        for c in ast.walk(fi.node):
            if isinstance(c, ast.Call) and isinstance(
                    c.func, ast.Attribute) and c.func.attr == 'unlink' \
                    and isinstance(c.func.value, ast.Name):
                names.add(c.func.value.id)
        # the validated copy of the query: clearing its location is part
        # of what the function is for, judged even if the removal is gone
        anchored = set()
        if fi.qual in STALE_ANCHORS:
            callee, kw = STALE_ANCHORS[fi.qual]
            for c in ast.walk(fi.node):
                if isinstance(c, ast.Call) and (
                        getattr(c.func, 'id', None) == callee
                        or getattr(c.func, 'attr', None) == callee):
                    for k in c.keywords:
                        if k.arg == kw and isinstance(k.value, ast.Name):
                            anchored.add(k.value.id)
            if not anchored:
                raise AnalysisError(
                    f'{fi.qual}: the call {callee}({kw}=...) that writes '
                    'the output was not found')
        names |= anchored
        if not names:
            continue
        cfg = cfg_of(fi)
        rd = rd_of(fi)
        for name in sorted(names):
            unlinks, guards, writes = _path_calls(cfg, rd, name)
            if name not in anchored and (not unlinks or not writes):
                continue
            ok_edge = lambda a, b, lab: b != cfg.exc_exit  # noqa: E731
            reach_w = set()
            for w in writes:
                reach_w |= cfg.reachable(w, edge_ok=ok_edge) - {w}
            stale = {u for u in unlinks if u not in reach_w}
            if not stale and name not in anchored:
                continue       # write-then-remove: a probe, or clean-up
            # the guards that lead to a stale removal
            settle = set(writes) | stale
            for g in guards:
                if any(cfg.path(g, {u}, edge_ok=ok_edge) is not None
                       for u in stale):
                    settle.add(g)
            n += 1
            ctx.touch(fi)
            okp, wit = cfg.must_pass(
                cfg.entry, {cfg.exit}, lambda x: x.id in settle,
                edge_ok=ok_edge)
            ctx.ob(rule, f'{fi.qual}:{name}', fi.loc(), okp,
                   f'every normal path either writes `{name}` or removes '
                   'what was found there' if okp else
                   f'{fi.name} removes a file found at `{name}` on some '
                   'paths, but there is a path to a normal return that '
                   'neither writes it nor removes it: a file left there '
                   'by an earlier run survives, and the state of the '
                   'output location depends on history',
                   witness=cfg.fmt_path(wit) if wit else None)
    if n < 1:
        raise AnalysisError('no function that clears a stale output file '
                            'was found (expected _validate_h5ad)')


def _dir_creations(tree):
    """calls that create a directory at a path of the caller's choosing"""
    out = []
    for c in ast.walk(tree):
        if isinstance(c, ast.Call):
            f = c.func
            nm = f.attr if isinstance(f, ast.Attribute) else getattr(
                f, 'id', None)
            if nm in ('mkdir', 'makedirs', 'mkdirs'):
                out.append(c)
    return out


def check_directories_only_by_mkdtemp(
        ctx, rule='R-FRESH/directories-only-by-mkdtemp'):
    """every scratch directory the package works in is acquired with
    `tempfile.mkdtemp` -- a fresh, unique name with an owner that the
    pairing rules follow to its release.  A `mkdir` / `makedirs` creates a
    directory nobody owns.  Two places where that breaks the property:
    (a) in code a worker process runs: a worker that outlives the
    clean-up of a failed run re-creates the scratch directory it was told
    to write into, and the run leaves files behind; (b) anywhere, for a
    path that derives from a scratch parameter (`tmp_dir`, `buffer_dir`,
    `results_output_path`, ...).  Other directory creations (an output
    directory asked for by the user) are listed, not judged."""
    from ..core.slicing import backward_slice
    db = ctx.db
    # the matcher recognises the construct (control)
    probe = ast.parse("def f(p):\n    p.parent.mkdir(parents=True, "
                      "exist_ok=True)\n    os.makedirs(p)\n")
    if len(_dir_creations(probe)) != 2:
        raise AnalysisError('directory-creation matcher failed its control')
    targets = [s_.target.qual for s_ in W.find_spawn_sites(db)
               if s_.target is not None and in_pipeline(s_.fi.module)]
    if len(targets) < 5:
        raise AnalysisError(f'only {len(targets)} worker targets found')
    in_worker = set(ctx.cg.reachable(targets))
    scratch_names = ('tmp', 'scratch', 'buffer', 'results_output_path')
    n_fn = 0
    n_other = 0
    k = 0
    for fi in db.iter_functions():
        if fi.module.short.startswith(('gpu_utils', 'test_utils')):
            continue
        n_fn += 1
        for c in _dir_creations(fi.node):
            f = c.func
            path = f.value if isinstance(f, ast.Attribute) and not (
                isinstance(f.value, ast.Name) and f.value.id == 'os') \
                else (c.args[0] if c.args else None)
            why = None
            if fi.qual in in_worker:
                why = 'in code that worker processes run'
            elif path is not None:
                try:
                    sl = backward_slice(fi, path)
                    hit = sorted(p_ for p_ in sl.params if any(
                        s_ in p_ for s_ in scratch_names))
                except Exception:
                    hit = []
                if hit:
                    why = f'at a path derived from the scratch ' \
                          f'parameter(s) {hit}'
            if why is None:
                n_other += 1
                continue
            ctx.touch(fi)
            ctx.fail(rule, f'{fi.qual}:mkdir#{k}', fi.loc(c),
                     f'`{unparse(c)[:60]}` in {fi.name} creates a '
                     f'directory {why}, outside the mkdtemp / release '
                     'discipline: nothing owns it, and it is (re)created '
                     'even after the run that was to clean it up has '
                     'given up')
            k += 1
    ctx.ok(rule, 'package', 'package',
           f'{n_fn} functions scanned ({len(in_worker)} run by workers): '
           f'no directory is created in worker code or under a scratch '
           f'parameter other than by mkdtemp ({n_other} other creation(s) '
           'not judged)', nontrivial=True)


def _open_mode(call):
    """(path expression, mode) of an h5py.File(...) / open(...) call"""
    f = call.func
    nm = f.attr if isinstance(f, ast.Attribute) else getattr(f, 'id', None)
    if nm not in ('File', 'open') or not call.args:
        return None
    mode = 'r'
    if len(call.args) > 1 and isinstance(call.args[1], ast.Constant):
        mode = call.args[1].value
    for kw in call.keywords:
        if kw.arg == 'mode' and isinstance(kw.value, ast.Constant):
            mode = kw.value.value
    return call.args[0], mode


def check_append_follows_create(ctx, rule='R-FRESH/append-follows-create'):
    """a function that adds to a file it was given the path of (an open
    in mode 'a' / 'r+') builds on whatever is at that path -- unless the
    same function has, on *every* path to that open, first created the
    file (an open in mode 'w', directly or in a callee whose first open of
    the path is 'w').  Where the creating open sits on one branch only (a
    run that succeeded), the other branch (a failed run that still writes
    its log) appends to the file an earlier run left there."""
    db = ctx.db
    n = 0
    for fi in db.iter_functions():
        if fi.module.short not in ('utils.output_utils',):
            continue
        cfg = cfg_of(fi)
        rd = rd_of(fi)
        events = []          # (node id, path param name, mode, call)
        for node in cfg.nodes:
            if node.id not in rd.live:
                continue
            for c in cfg.calls_in(node):
                om = _open_mode(c)
                if om is not None and isinstance(om[0], ast.Name) \
                        and om[0].id in fi.params:
                    events.append((node.id, om[0].id, om[1], c, 'direct'))
                    continue
                t = resolve_callee(db, fi, c)
                if isinstance(t, FunctionInfo):
                    m, _ = bind_args(t, c)
                    for pname, a in m.items():
                        if isinstance(a, ast.Name) and a.id in fi.params:
                            first = None
                            for c2 in ast.walk(t.node):
                                if isinstance(c2, ast.Call):
                                    o2 = _open_mode(c2)
                                    if o2 is not None and isinstance(
                                            o2[0], ast.Name) \
                                            and o2[0].id == pname:
                                        if first is None or getattr(
                                                c2, 'lineno', 0) < first[0]:
                                            first = (getattr(c2, 'lineno',
                                                             0), o2[1])
                            if first is not None:
                                events.append((node.id, a.id, first[1], c,
                                               'callee'))
        by_path = dict()
        for ev in events:
            by_path.setdefault(ev[1], []).append(ev)
        for pth, evs in sorted(by_path.items()):
            creates = [e for e in evs if e[2] in ('w', 'w-', 'x', 'wb')]
            appends = [e for e in evs if e[2] in ('a', 'r+', 'ab')]
            # a function that only appends relies on its caller; one that
            # opens the path itself *and* through a callee puts the file
            # together, and is judged even when no creating open is left
            assembles = any(e[4] == 'callee' for e in evs) and any(
                e[4] == 'direct' for e in evs)
            if not appends or not (creates or assembles):
                continue
            for e in appends:
                n += 1
                ok = any(c_[0] != e[0] and cfg.dominates(c_[0], e[0])
                         for c_ in creates)
                ctx.touch(fi)
                ctx.ob(rule, f'{fi.qual}:{pth}#{n - 1}', fi.loc(e[3]), ok,
                       f'`{pth}` has been created afresh on every path to '
                       'this append' if ok else
                       f'`{unparse(e[3])[:60]}` adds to `{pth}` on a path '
                       'on which this function has not created it: the '
                       'file an earlier run left there is extended (or the '
                       'write fails on names that already exist), so what '
                       'a failed run leaves behind depends on history')
    if n < 1:
        raise AnalysisError('no create-then-append pair found among the '
                            'output writers')
