"""
C16 -- validation rewrites identifiers and integers without altering the
data.

Decided (DESIGN.md section 5, C16):
 1. R-EFFECT: validate_h5ad (with callees) has no write/remove effect on
    its input path; every mutating helper receives the scratch copy.
 2. the returned path is the requested output location; it is written only
    by the final full copy, after which no rejection can happen; when
    nothing needs changing the function returns None and creates nothing.
 3. R-ARMS on the rejection branches (log / no log agree on raising);
    duplicate cell ids, duplicate / empty gene names and two genes mapping
    to one identifier each end in a raise.
 4. R-SAMEVAL: integrality test, min/max and the copy all receive the same
    `layer`; rounding acts on the scratch copy with the dtype chosen from
    that min/max.
 5. the renaming and the mapped-gene count are written to the scratch copy
    before the final copy.
"""
import ast

from ..core.cfg import cfg_of
from ..core.constprop import feasible, UNKNOWN, eval_expr
from ..core.defuse import rd_of, Expander, fmt_term, term_alts
from ..core import terms as T
from ..core.loader import unparse, AnalysisError, FunctionInfo
from ..core.resolve import resolve_callee, bind_args
from ..rules import arms as A
from ..rules.effects import PathAnalysis
from ..rules.tempdirs import definite_raiser

ID = 'C16'

EXPLANATION = (
    "Static analysis. The interprocedural path-effect analysis shows that "
    "validate_h5ad has read effects only on its h5ad_path parameter; the "
    "helpers that modify a file (write_df_to_h5ad, write_uns_to_h5ad, "
    "update_uns, round_x_to_integers, the destination of copy_layer_to_x) "
    "are shown, on symbolic terms, to receive the mkstemp scratch copy. "
    "In _validate_h5ad the only write effects on the output location are "
    "the final copy_h5_excluding_data and the unlink of a stale file; no "
    "statement that can reject the input (explicit raise, log.error) is "
    "reachable after the copy; constant propagation under the assumption "
    "'nothing needs changing' shows the copy unreachable and the returned "
    "path None, and under its negation the returned path is the output "
    "location. Every log/no-log conditional agrees on raising, and the "
    "three census checks end in a raise. The layer argument of "
    "is_x_integers, get_minmax_x_from_h5ad and copy_layer_to_x is the "
    "function's own layer parameter, the dtype for rounding derives from "
    "that min/max, and the uns updates that record the renaming and the "
    "mapped-gene count target the scratch copy and precede the final "
    "copy. Rounding distances, dtype widths at boundaries, the Ensembl "
    "pattern and placeholder uniqueness are not decided.")

EXPLANATION += (
    ' Added after the seeded rounds: scanning loops tile their matrix '
    'exactly (R-TILE, incl. axis agreement of step and bound); gene '
    'identifiers are looked up as given, suffix clipping applies to the '
    'result.'
)

EXPLANATION += (
    ' Round 5: every verdict of the gene renaming step follows a call of the mapper (R-MUST/mapper-consulted); settings are forwarded (R-FWD).'
)

EXPLANATION += (
    ' Round 6: integrality tests take the largest absolute deviation (R-IDIOM/abs-of-extremum); no HDF5 name is created twice in a group (R-TYPESTATE/h5-name-once, finding F8).'
)

EXPLANATION += (
    ' Round 7: the integer type is chosen from the np.round-ed extremes against both bounds of the type (R-ARITH/int-width).'
)

EXPLANATION += (
    ' Round 8: the Ensembl pattern has a literal dot as version separator and is matched against the whole identifier (R-IDIOM/ensembl-pattern, regex AST).'
)

EXPLANATION += (
    ' Round 10: piecewise copies are not filtered by the content just read (R-COVER/copy-not-filtered-by-content).'
)

EXPLANATION += (
    ' Round 11: every return of validate_h5ad follows the call of _validate_h5ad and returns its verdict (R-MUST/validation-runs).'
)

EXPLANATION += (
    ' Round 13: a tiling loop over several arrays takes its extent from the array of the current turn (R-TILE/extent-of-the-array).'
)

EXPLANATION += (
    ' Round 15: sibling helpers with different defaults are called with the parameter bound (R-AGREE/sibling-defaults).'
)

EXPLANATION += (
    ' Round 16: every normal return of round_x_to_integers passes through a rounding helper (R-MUST/rounding-performed).'
)

RULE_TEXT = (
    "one obligation per effect root, per mutating helper call, per "
    "rejection point, per log conditional, per layer argument, per uns "
    "update")

ASSUMPTIONS = [
    "h5py/open: mode 'r' cannot modify a file",
    "CommandLog.error raises (checked)",
    "necessary conditions only",
]

V = 'validation.validate_h5ad:'
MUTATORS = {
    'utils.anndata_utils:write_df_to_h5ad': 'h5ad_path',
    'utils.anndata_utils:write_uns_to_h5ad': 'h5ad_path',
    'utils.anndata_utils:update_uns': 'h5ad_path',
    'validation.utils:round_x_to_integers': 'h5ad_path',
    'utils.anndata_utils:copy_layer_to_x': 'new_h5ad_path',
}


def check(ctx):
    db = ctx.db
    outer = db.fn(V + 'validate_h5ad')
    inner = db.fn(V + '_validate_h5ad')
    ctx.touch(outer)
    ctx.touch(inner)
    pa = PathAnalysis(db, ctx.cg)
    check_validation_always_runs(ctx)
    check_input_effects(ctx, pa, outer, inner)
    check_mutators_on_scratch(ctx, pa, inner)
    check_output_written_last(ctx, pa, inner)
    check_no_change_no_file(ctx, inner)
    check_rejections(ctx, inner)
    check_layer(ctx, inner)
    check_uns(ctx, inner)
    check_lookup_by_given_name(ctx)
    check_mapper_consulted(ctx)
    check_int_width(ctx)
    check_ensembl_pattern(ctx)
    # the files validation writes are assembled without creating a name
    # twice (sa/rules/h5names.py)
    from ..rules.h5names import check_h5_names_created_once
    n_h5 = 0
    for fi_ in ctx.db.iter_functions():
        if fi_.module.short.startswith(('validation.', 'utils.anndata_utils',
                                        'utils.h5_utils')):
            n_h5 += check_h5_names_created_once(ctx, fi_)
    ctx.ok('R-TYPESTATE/h5-name-once', 'validation writers', 'package',
           f'{n_h5} creations of HDF5 names followed along the control '
           'flow: none is reached twice for the same name in the same '
           'group', nontrivial=n_h5 > 0)
    from ..rules.idioms import check_abs_of_extremum
    n_abs = 0
    for fi_ in ctx.db.iter_functions():
        if fi_.module.short.startswith('validation.'):
            n_abs += check_abs_of_extremum(ctx, fi_)
    ctx.ok('R-IDIOM/abs-of-extremum', 'validation', 'package',
           'integrality and range tests take the largest absolute '
           'deviation (absolute value inside the maximum)',
           nontrivial=False)
    from .C05 import check_tiles
    check_tiles(ctx, ('validation.utils', 'validation.validate_h5ad'),
                floor=8)
    from .C05 import sweep_generic_rules
    sweep_generic_rules(ctx, ('validation.',))
    # settings this property depends on are handed down every call
    # chain, never left to a callee's default (sa/rules/forwarding.py)
    from ..rules.forwarding import check_forwarding
    check_forwarding(ctx, {'layer', 'round_to_int', 'valid_h5ad_path', 'output_dir', 'gene_id_mapper', 'expected_max'})
    check_rounding_always_performed(ctx)


def check_input_effects(ctx, pa, outer, inner):
    rule = 'R-EFFECT/input-untouched'
    for fi in (outer, inner):
        effs = pa.effects(fi)
        bad = [e for e in effs if e.root == 'h5ad_path'
               and e.kind in ('write', 'remove')
               and e.rel in ('same', 'under')]
        reads = [e for e in effs if e.root == 'h5ad_path'
                 and e.kind == 'read']
        if bad:
            e = bad[0]
            ctx.fail(rule, f'{fi.qual}:h5ad_path', e.fi.loc(e.site),
                     f'validation can modify its input: {e.kind} effect '
                     f'at {e.fi.qual}', witness=e.chain())
        else:
            ctx.ok(rule, f'{fi.qual}:h5ad_path', fi.loc(),
                   f'no write/remove effect on h5ad_path '
                   f'({len(reads)} read effects)', nontrivial=bool(reads))
    if not any(e.root == 'h5ad_path' and e.kind == 'read'
               for e in pa.effects(inner)):
        raise AnalysisError('_validate_h5ad: no read effect on the input '
                            'recognised')


def check_mutators_on_scratch(ctx, pa, inner):
    db = ctx.db
    rule = 'R-EFFECT/mutators-on-scratch'
    cfg = cfg_of(inner)
    rd = rd_of(inner)
    n = 0
    for node in cfg.nodes:
        if node.id not in rd.live:
            continue
        for c in cfg.calls_in(node):
            t = resolve_callee(db, inner, c)
            if not isinstance(t, FunctionInfo) or t.qual not in MUTATORS:
                continue
            n += 1
            mapping, _ = bind_args(t, c)
            a = mapping.get(MUTATORS[t.qual])
            origins = pa.origins(inner, a) if a is not None else set()
            fresh = bool(origins) and all(
                rel == 'fresh' and r == 'tmp_dir' for (r, rel) in origins)
            ctx.ob(rule, f'_validate_h5ad:{t.name}', inner.loc(c), fresh,
                   f'{t.name} acts on the scratch copy '
                   f'`{unparse(a)}`' if fresh else
                   f'{t.name} modifies `{unparse(a) if a else "?"}` '
                   f'(origins {sorted(origins)}), not the scratch copy '
                   'created by mkstemp_clean under tmp_dir')
    if n < 4:
        raise AnalysisError(f'_validate_h5ad: only {n} mutating helper '
                            'calls recognised')


def _out_roots():
    return {'valid_h5ad_path', 'output_dir'}


def check_output_written_last(ctx, pa, inner):
    db = ctx.db
    rule = 'R-MUST/output-written-last'
    cfg = cfg_of(inner)
    rd = rd_of(inner)
    effs = pa.effects(inner)
    writes = []
    for e in effs:
        if e.root in _out_roots() and e.kind in ('write', 'remove'):
            site = e.via[-1][1] if e.via else e.site
            writes.append((site, e))
    copy_fn = 'utils.h5_utils:copy_h5_excluding_data'
    copy_nodes = []
    seen = set()
    for (site, e) in writes:
        if id(site) in seen:
            continue
        seen.add(id(site))
        t = resolve_callee(db, inner, site) if isinstance(
            site, ast.Call) else None
        is_copy = isinstance(t, FunctionInfo) and t.qual == copy_fn
        is_unlink = isinstance(site, ast.Call) and isinstance(
            site.func, ast.Attribute) and site.func.attr == 'unlink'
        key = f'_validate_h5ad:{unparse(site.func) if isinstance(site, ast.Call) else unparse(site)[:30]}'
        if is_copy:
            copy_nodes.extend(n for n in cfg.node_of_expr(site)
                              if n.id in rd.live)
            ctx.ok(rule + '/writer', key, inner.loc(site),
                   'the output file is produced by the final full copy')
        elif is_unlink and e.kind == 'remove':
            ctx.ok(rule + '/writer', key, inner.loc(site),
                   'a stale file at the output location is removed when '
                   'nothing is written')
        else:
            ctx.fail(rule + '/writer', key, inner.loc(site),
                     f'`{unparse(site)[:60]}` writes the output location '
                     'other than through the final copy of the scratch '
                     'file', witness=e.chain())
    if not copy_nodes:
        ctx.fail(rule, '_validate_h5ad:final-copy', inner.loc(),
                 'no copy_h5_excluding_data(dst_path=<output>) found')
        return
    # source of the copy is the scratch file
    for cn in copy_nodes:
        for c in cfg.calls_in(cn):
            t = resolve_callee(db, inner, c)
            if isinstance(t, FunctionInfo) and t.qual == copy_fn:
                mapping, _ = bind_args(t, c)
                o = pa.origins(inner, mapping.get('src_path'))
                ok = bool(o) and all(rel == 'fresh' for (_r, rel) in o)
                ctx.ob(rule + '/source', '_validate_h5ad:final-copy:src',
                       inner.loc(c), ok,
                       'the copy reads the scratch file' if ok else
                       'the final copy does not read the scratch copy: '
                       f'{sorted(o)}')
    # no rejection after the copy
    rej = _rejection_nodes(ctx, inner)
    bad = []
    for cn in copy_nodes:
        reach = cfg.reachable(cn.id) - {cn.id}
        bad += [r for r in rej if r.id in reach]
    ctx.ob(rule, '_validate_h5ad:no-rejection-after-copy', inner.loc(),
           not bad,
           f'all {len(rej)} rejection points precede the final copy'
           if not bad else
           f'`{bad[0].text()[:60]}` (L{bad[0].lineno}) can reject the '
           'input after the validated file has already been written: an '
           'invalid input leaves an output file')


def _rejection_nodes(ctx, fi):
    """CFG nodes that reject the input: explicit raise, log.error(...),
    and calls of package functions that can do so are not counted (the
    copy itself is a call)"""
    cfg = cfg_of(fi)
    rd = rd_of(fi)
    db = ctx.db
    out = []
    for n in cfg.nodes:
        if n.id not in rd.live:
            continue
        if n.kind == 'raise':
            out.append(n)
            continue
        for c in cfg.calls_in(n):
            if isinstance(c.func, ast.Attribute) and c.func.attr == 'error':
                out.append(n)
                continue
            t = resolve_callee(db, fi, c)
            if isinstance(t, FunctionInfo) and _is_check_function(t):
                out.append(n)
    return out


def _is_check_function(t):
    """a package function whose job is to reject: it returns nothing and
    contains an explicit raise / log.error"""
    has_raise = False
    returns_value = False
    for sub in ast.walk(t.node):
        if isinstance(sub, ast.Raise):
            has_raise = True
        if isinstance(sub, ast.Call) and isinstance(
                sub.func, ast.Attribute) and sub.func.attr == 'error':
            has_raise = True
        if isinstance(sub, ast.Return) and sub.value is not None:
            returns_value = True
    return has_raise and not returns_value


def check_no_change_no_file(ctx, inner):
    rule = 'R-PROV/no-change-no-file'
    cfg = cfg_of(inner)
    rd = rd_of(inner)
    db = ctx.db
    copy_fn = db.fn('utils.h5_utils:copy_h5_excluding_data')
    # the condition that triggers any rewriting
    # found by role: the output copy is guarded by a flag (`if flag:`); the
    # trigger is the `if` under which that flag is set to True
    trig = None
    trig_polarity = True
    flags = set()
    for n in cfg.nodes:
        if n.kind != 'if' or n.id not in rd.live:
            continue
        tst, arm = n.ast.test, n.ast.body
        if isinstance(tst, ast.UnaryOp) and isinstance(tst.op, ast.Not):
            tst, arm = tst.operand, n.ast.orelse
        if isinstance(tst, ast.Name):
            for st in arm:
                for sub in ast.walk(st):
                    if isinstance(sub, ast.Call) and resolve_callee(
                            db, inner, sub) is copy_fn:
                        flags.add(tst.id)
    for d in rd.defs:
        v = getattr(d, 'value', None)
        if d.name in flags and isinstance(v, ast.Constant) \
                and v.value is True and d.stmt is not None:
            p_ = getattr(d.stmt, '_parent', None)
            while p_ is not None and not isinstance(
                    p_, (ast.If, ast.FunctionDef)):
                p_ = getattr(p_, '_parent', None)
            if isinstance(p_, ast.If):
                in_else = any(sub is d.stmt for st in p_.orelse
                              for sub in ast.walk(st))
                for n in cfg.nodes:
                    if n.kind == 'if' and n.ast is p_ and n.id in rd.live:
                        trig = n
                        trig_polarity = not in_else
    if trig is None:
        ctx.fail(rule, '_validate_h5ad:trigger', inner.loc(),
                 'the condition under which the file is rewritten was not '
                 'recognised')
        return
    for needs_change in (False, True):
        def assume(e, env, _t=trig, _v=needs_change, _p=trig_polarity):
            if e is _t.ast.test:
                return _v if _p else (not _v)
            return UNKNOWN
        feas = feasible(inner, assume, follow_exc=False)
        copy_feasible = False
        for nid in feas.nodes:
            for c in cfg.calls_in(cfg.nodes[nid]):
                if resolve_callee(db, inner, c) is copy_fn:
                    copy_feasible = True
        rets = [n for n in cfg.nodes if n.kind == 'return'
                and n.id in feas.nodes]
        vals = []
        for r in rets:
            env = feas.envs.get(r.id, {})
            v = r.ast.value
            first = v.elts[0] if isinstance(v, ast.Tuple) and v.elts else v
            vals.append(eval_expr(first, env))
        if not needs_change:
            ok = (not copy_feasible) and vals and all(
                x is None for x in vals)
            ctx.ob(rule, '_validate_h5ad:nothing-to-change', inner.loc(),
                   ok,
                   'when nothing needs changing no file is written and '
                   'None is returned' if ok else
                   'when nothing needs changing the function '
                   + ('still writes the output file' if copy_feasible
                      else 'does not return None'))
        else:
            ok = copy_feasible and vals and all(
                x is UNKNOWN or x is not None for x in vals)
            ctx.ob(rule, '_validate_h5ad:something-to-change', inner.loc(),
                   ok,
                   'when something changes the file is written and its '
                   'path returned' if ok else
                   'when something needs changing the function '
                   + ('does not write the output' if not copy_feasible
                      else 'returns None'))
    # the returned path is the output location
    ex = Expander(inner)
    for r in [n for n in cfg.nodes if n.kind == 'return'
              and n.id in rd.live]:
        v = r.ast.value
        first = v.elts[0] if isinstance(v, ast.Tuple) and v.elts else v
        t = ex.expand(first, r.id)
        ok = True
        for alt in term_alts(t):
            if alt == ('const', 'None'):
                continue
            ps = T.params_in(alt)
            if not (ps & _out_roots()) or 'tmp_dir' in ps:
                ok = False
        ctx.ob(rule, '_validate_h5ad:returned-path', inner.loc(r.ast), ok,
               'the returned path is the requested output location' if ok
               else f'the returned path is {fmt_term(t)[:120]}: not the '
               'output location (a scratch path would vanish with the '
               'scratch directory)')


def check_rejections(ctx, inner):
    db = ctx.db
    A.check_error_raises(ctx)
    n = 0
    for q in (V + '_validate_h5ad', V + '_check_input_gene_names',
              'validation.utils:map_gene_ids_in_var'):
        n += A.check_arms(ctx, db.fn(q))
    if n < 5:
        raise AnalysisError(f'only {n} log conditionals found in the '
                            'validation functions')
    # the three censuses end in a raise
    rule = 'R-MUST/census-raises'
    cfg = cfg_of(inner)
    rd = rd_of(inner)
    ex = Expander(inner)
    # duplicate cell ids: a census (counting dict) over the obs index, a
    # `count > 1` test, and a raise reachable from that test only
    found = False
    census = set()
    for n_ in cfg.nodes:
        if n_.kind == 'for' and n_.id in rd.live:
            ti = ex.expand(n_.ast.iter, n_.id)
            if any(T.call_name(x) == 'read_df_from_h5ad' and T.contains(
                    x, ('const', "'obs'")) for x in T.subterms(ti)):
                for sub in ast.walk(n_.ast):
                    if isinstance(sub, ast.AugAssign) and isinstance(
                            sub.op, ast.Add) and isinstance(
                                sub.target, ast.Subscript) and isinstance(
                                    sub.target.value, ast.Name):
                        census.add(sub.target.value.id)
    from ..core.guards import facts_at

    def census_exceeds_one(test, truth):
        """the fact says: a count of the census is greater than one"""
        if not (isinstance(test, ast.Compare) and len(test.ops) == 1):
            return False
        l, r, op = test.left, test.comparators[0], test.ops[0]

        def is_count(x):
            return isinstance(x, ast.Subscript) and isinstance(
                x.value, ast.Name) and x.value.id in census

        def is_const(x, v):
            return isinstance(x, ast.Constant) and x.value == v
        if is_count(l) and is_const(r, 1):
            return (isinstance(op, ast.Gt) and truth) or (
                isinstance(op, ast.LtE) and not truth)
        if is_count(r) and is_const(l, 1):
            return (isinstance(op, ast.Lt) and truth) or (
                isinstance(op, ast.GtE) and not truth)
        if is_count(l) and is_const(r, 2):
            return (isinstance(op, ast.GtE) and truth) or (
                isinstance(op, ast.Lt) and not truth)
        return False

    for g_ in cfg.nodes:
        if not (census and g_.id in rd.live and isinstance(
                g_.ast, ast.AugAssign) and isinstance(
                    g_.ast.target, ast.Name)):
            continue
        if not any(census_exceeds_one(t_, tr_)
                   for (_n, t_, tr_) in facts_at(cfg, rd, g_.id)):
            continue
        reach = cfg.reachable(g_.id)
        for r in cfg.nodes:
            if r.kind == 'raise' and r.id in reach \
                    and _derives_from_def(rd, r, g_.ast.target.id, g_.ast):
                found = True
    ctx.ob(rule, '_validate_h5ad:duplicate-cell-ids', inner.loc(), found,
           'repeated cell ids end in a raise whose message is built from '
           'the obs index census' if found else
           'no raise derives from a census of the obs index: duplicate '
           'cell ids are accepted')
    cg = db.fn(V + '_check_input_gene_names')
    calls = [c for n_ in cfg.nodes if n_.id in rd.live
             for c in cfg.calls_in(n_)
             if resolve_callee(db, inner, c) is cg]
    ctx.ob(rule, '_validate_h5ad:gene-name-census', inner.loc(),
           bool(calls),
           'gene names are checked for duplicates / blanks' if calls else
           '_check_input_gene_names is no longer called')
    # in _check_input_gene_names a non-empty message raises on both arms
    cfg2 = cfg_of(cg)
    rd2 = rd_of(cg)
    # the message accumulator: whatever is grown with `+=` in this function
    accum = {st.target.id for st in ast.walk(cg.node)
             if isinstance(st, ast.AugAssign)
             and isinstance(st.target, ast.Name)}
    final_if = [n_ for n_ in cfg2.nodes if n_.kind == 'if'
                and n_.id in rd2.live and accum & {
                    x.id for x in ast.walk(n_.ast.test)
                    if isinstance(x, ast.Name)}]
    ok = False
    for n_ in final_if:
        for (t_, lab) in cfg2.succ[n_.id]:
            if lab == 'true':
                okp, _p = cfg2.must_pass(
                    t_, {cfg2.exit},
                    lambda x: x.kind == 'raise' or any(
                        isinstance(c.func, ast.Attribute)
                        and c.func.attr == 'error'
                        for c in cfg2.calls_in(x)),
                    edge_ok=lambda a, b, lab2: lab2 != 'exc')
                if okp or cfg2.nodes[t_].kind == 'raise':
                    ok = True
    ctx.ob(rule, '_check_input_gene_names:raises', cg.loc(), ok,
           'a non-empty error message always raises' if ok else
           'duplicate / empty gene names no longer raise')
    # two genes -> one identifier
    dup = False
    for n_ in cfg.nodes:
        if n_.kind == 'if' and n_.id in rd.live:
            tt = ex.expand(n_.ast.test, n_.id)
            if tt[0] == 'cmp' and tt[1] == ('NotEq',) and T.has_call(
                    tt, 'set') and T.has_call(tt, 'len'):
                for (t_, lab) in cfg.succ[n_.id]:
                    if lab == 'true':
                        okp, _p = cfg.must_pass(
                            t_, {cfg.exit},
                            lambda x: x.kind == 'raise' or any(
                                isinstance(c.func, ast.Attribute)
                                and c.func.attr == 'error'
                                for c in cfg.calls_in(x)),
                            edge_ok=lambda a, b, lab2: lab2 != 'exc')
                        if okp:
                            dup = True
    ctx.ob(rule, '_validate_h5ad:two-genes-one-id', inner.loc(), dup,
           'two genes mapping to one identifier end in a raise' if dup
           else 'no raising check that the mapped identifiers are unique')


def _derives_from_def(rd, use_node, var, stmt, depth=0):
    """does a definition of `var` made by `stmt` reach use_node, directly
    or through re-definitions that mention var themselves?"""
    if depth > 4:
        return False
    names = {x.id for x in ast.walk(use_node.ast)
             if isinstance(x, ast.Name)}
    if var not in names:
        return False
    for d in rd.reaching(var, use_node.id):
        if d.stmt is stmt:
            return True
        if d.kind in ('assign', 'aug') and d.value is not None and any(
                isinstance(x, ast.Name) and x.id == var
                for x in ast.walk(d.value)):
            node = rd.cfg.nodes[d.node]
            if _derives_from_def(rd, node, var, stmt, depth+1):
                return True
    return False


def check_layer(ctx, inner):
    db = ctx.db
    rule = 'R-SAMEVAL/layer'
    cfg = cfg_of(inner)
    rd = rd_of(inner)
    ex = Expander(inner)
    want = {'validation.utils:is_x_integers': 'layer',
            'validation.utils:get_minmax_x_from_h5ad': 'layer',
            'utils.anndata_utils:copy_layer_to_x': 'layer'}
    seen = set()
    minmax_term = None
    for node in cfg.nodes:
        if node.id not in rd.live:
            continue
        for c in cfg.calls_in(node):
            t = resolve_callee(db, inner, c)
            if isinstance(t, FunctionInfo) and t.qual in want:
                seen.add(t.qual)
                mapping, _ = bind_args(t, c)
                a = mapping.get(want[t.qual])
                term = ex.expand(a, node.id) if a is not None else None
                ok = term == ('param', 'layer')
                ctx.ob(rule, f'_validate_h5ad:{t.name}', inner.loc(c), ok,
                       f'{t.name} examines the requested layer' if ok else
                       f'{t.name} is called with layer='
                       f'{fmt_term(term) if term else "<default X>"}, not '
                       'the requested layer: the check and the copy would '
                       'look at different matrices')
                # and on the original file
                p = mapping.get('h5ad_path') or mapping.get(
                    'original_h5ad_path')
                tp = ex.expand(p, node.id) if p is not None else None
                okp = tp is not None and T.contains(
                    tp, ('param', 'h5ad_path'))
                ctx.ob(rule, f'_validate_h5ad:{t.name}:file', inner.loc(c),
                       okp,
                       f'{t.name} reads the input file' if okp else
                       f'{t.name} does not read the input file: '
                       f'{fmt_term(tp) if tp else None}')
            if isinstance(t, FunctionInfo) and t.qual == \
                    'validation.utils:round_x_to_integers':
                mapping, _ = bind_args(t, c)
                td = ex.expand(mapping.get('output_dtype'), node.id)
                ok = T.call_name(td) == 'choose_int_dtype' and T.has_call(
                    td, 'get_minmax_x_from_h5ad')
                ctx.ob(rule, '_validate_h5ad:round-dtype', inner.loc(c),
                       ok,
                       'the integer type is chosen from the min/max of '
                       'the requested layer' if ok else
                       'the integer type for rounding is '
                       f'{fmt_term(td)[:80]}, not choose_int_dtype of the '
                       'measured min/max')
    for q in want:
        if q not in seen:
            ctx.fail(rule, f'_validate_h5ad:{q.split(":")[1]}',
                     inner.loc(), f'{q.split(":")[1]} is not called')


def check_uns(ctx, inner):
    db = ctx.db
    rule = 'R-MUST/renaming-recorded'
    cfg = cfg_of(inner)
    rd = rd_of(inner)
    ex = Expander(inner)
    copy_fn = db.fn('utils.h5_utils:copy_h5_excluding_data')
    copy_nodes = [n for n in cfg.nodes if n.id in rd.live and any(
        resolve_callee(db, inner, c) is copy_fn for c in cfg.calls_in(n))]
    recs = {'AIBS_CDM_gene_mapping': None, 'AIBS_CDM_n_mapped_genes': None}
    for n in cfg.nodes:
        if n.id not in rd.live:
            continue
        txt = n.text()
        for k in recs:
            if k in txt:
                recs[k] = n
    for k, n in recs.items():
        if n is None:
            ctx.fail(rule, f'_validate_h5ad:{k}', inner.loc(),
                     f"'{k}' is no longer recorded in the validated file")
            continue
        before = all(cn.id in cfg.reachable(n.id) and n.id not in
                     cfg.reachable(cn.id) for cn in copy_nodes)
        ctx.ob(rule, f'_validate_h5ad:{k}', inner.loc(n.ast),
               before and bool(copy_nodes),
               f"'{k}' is recorded before the final copy" if before else
               f"'{k}' is set after the final copy: it never reaches the "
               'validated file')
    # the mapping written is orig -> new for renamed genes
    for n in cfg.nodes:
        if n.kind == 'stmt' and n.id in rd.live and isinstance(
                n.ast, ast.Assign) and isinstance(
                    n.ast.value, ast.DictComp) and isinstance(
                        n.ast.targets[0], ast.Name) \
                and n.ast.targets[0].id == 'gene_mapping':
            dc = n.ast.value
            srcs = unparse(dc.generators[0].iter)
            ok = 'var_original' in srcs and 'mapped_var' in srcs
            ctx.ob(rule, '_validate_h5ad:gene_mapping', inner.loc(n.ast),
                   ok, 'the recorded renaming pairs original and mapped '
                   'names positionally' if ok else
                   f'the recorded renaming is built from {srcs[:80]}')


def check_lookup_by_given_name(ctx):
    """identifiers are classified and looked up exactly as given; clipping
    of version suffixes (`_post_process`) is applied to the *result*.
    Clipping first turns known symbols that contain a dot into strings the
    table does not have, and they are recorded as unmapped."""
    db = ctx.db
    fi = db.fn('gene_id.gene_id_mapper:GeneIdMapper.map_gene_identifiers')
    ctx.touch(fi)
    cfg = cfg_of(fi)
    rd = rd_of(fi)
    ex = Expander(fi)
    rule = 'R-PROV/lookup-by-given-name'
    loops = []
    for n in ast.walk(fi.node):
        if isinstance(n, ast.For) and any(
                isinstance(x, ast.Attribute) and x.attr == '_lookup'
                for x in ast.walk(n)):
            loops.append(n)
    if not loops:
        ctx.fail(rule, 'map_gene_identifiers:loop', fi.loc(),
                 'the loop that looks identifiers up was not found')
        return
    for k, lp in enumerate(loops):
        hdr = [x for x in cfg.nodes_of(lp) if x.kind == 'for'
               and x.id in rd.live]
        t = ex.expand(lp.iter, hdr[0].id) if hdr else None
        ok = t is not None and t[0] == 'param'
        ctx.ob(rule, f'map_gene_identifiers:loop#{k}', fi.loc(lp), ok,
               'identifiers are looked up as the caller gave them' if ok
               else 'the identifiers that are looked up are '
               f'{fmt_term(t)[:70] if t else "?"}, not the list as given: '
               'names altered before the lookup no longer match the table')
    for n in cfg.nodes:
        if n.id not in rd.live:
            continue
        for c in cfg.calls_in(n):
            if isinstance(c.func, ast.Attribute) \
                    and c.func.attr == '_post_process' and c.args:
                t = ex.expand(c.args[0], n.id)
                ok = t[0] != 'param'
                ctx.ob(rule, 'map_gene_identifiers:post-process',
                       fi.loc(c), ok,
                       'suffix clipping is applied to the mapped result'
                       if ok else
                       'suffix clipping is applied to the input list')


def check_mapper_consulted(ctx):
    """the verdict of the gene-renaming step -- including "nothing to
    rename" -- is given only after the mapper has been asked: clipping of
    version suffixes, placeholders for unknown names and the collision
    check all happen inside the mapper, so a return that is reachable
    without the call leaves identifiers as they were."""
    db = ctx.db
    fi = db.fn('validation.utils:map_gene_ids_in_var')
    ctx.touch(fi)
    cfg = cfg_of(fi)
    rd = rd_of(fi)
    target = db.fn(
        'gene_id.gene_id_mapper:GeneIdMapper.map_gene_identifiers')
    rule = 'R-MUST/mapper-consulted'
    consult = set()
    for n in cfg.nodes:
        if n.id not in rd.live:
            continue
        for c in cfg.calls_in(n):
            if isinstance(c.func, ast.Attribute) \
                    and c.func.attr == target.name:
                consult.add(n.id)
    if not consult:
        ctx.fail(rule, 'map_gene_ids_in_var:call', fi.loc(),
                 'no call of the mapper was found')
        return
    k = 0
    for r in cfg.nodes:
        if r.kind != 'return' or r.id not in rd.live:
            continue
        p = cfg.path(cfg.entry, {r.id}, avoid=lambda x: x.id in consult,
                     edge_ok=lambda a, b, lab: lab != 'exc')
        ok = p is None
        ctx.ob(rule, f'map_gene_ids_in_var:return#{k}', fi.loc(r.ast), ok,
               'the verdict is given after the mapper was consulted' if ok
               else f'`{unparse(r.ast)[:50]}` can be reached without the '
               'mapper having seen the identifiers: version suffixes are '
               'not clipped and nothing is recorded',
               witness=cfg.fmt_path(p) if p else None)
        k += 1


def check_int_width(ctx):
    """the integer type of the rounded matrix is chosen by
    choose_int_dtype from the extremes of the data.  It is wide enough
    for every value only if (1) the extremes are rounded the way the data
    is rounded when it is written (np.round: -0.7 becomes -1, which an
    unsigned type cannot hold), and (2) a type is accepted when *both*
    rounded extremes lie within that type's own bounds, minimum against
    minimum and maximum against maximum (int8 holds -128 but not +128)."""
    db = ctx.db
    fi = db.fn('utils.utils:choose_int_dtype')
    ctx.touch(fi)
    cfg = cfg_of(fi)
    rd = rd_of(fi)
    ex = Expander(fi)
    rule = 'R-ARITH/int-width'
    lo_want = ('sub', ('param', 'x_minmax'), ('const', '0'))
    hi_want = ('sub', ('param', 'x_minmax'), ('const', '1'))

    def rounded(t, want):
        """t is np.round(want) / round(want) / np.rint(want)"""
        while t[0] == 'call' and T.call_name(t) in (
                'int', 'float', 'int64') and t[2]:
            t = t[2][0]
        return t[0] == 'call' and T.call_name(t) in (
            'round', 'rint', 'around') and t[2] and t[2][0] == want

    accept = []
    for n in cfg.nodes:
        if n.kind != 'if' or n.id not in rd.live:
            continue
        t = ex.expand(n.ast.test, n.id)
        if not any(T.call_name(x) == 'iinfo' for x in T.subterms(t)
                   if x[0] == 'call'):
            continue
        accept.append((n, t))
    if not accept:
        raise AnalysisError('choose_int_dtype: the test that accepts a '
                            'candidate type was not found')
    for k, (n, t) in enumerate(accept):
        while t[0] == 'unop' and t[1] == 'Not':
            t = t[2]            # `if not (fits): continue` accepts alike
        conj = list(t[2]) if t[0] == 'boolop' and t[1] == 'And' else [t]
        lo_ok = hi_ok = False
        lo_round = hi_round = False
        for c in conj:
            lf = T.lt_form(c)
            if lf is None or lf[0] != 'LtE':
                continue
            small, big = lf[1], lf[2]
            # iinfo(candidate).min <= lo
            if small[0] == 'attr' and small[2] == 'min' \
                    and T.call_name(small[1]) == 'iinfo':
                lo_ok = any(x == lo_want for x in T.subterms(big))
                lo_round = rounded(big, lo_want)
            # hi <= iinfo(candidate).max
            if big[0] == 'attr' and big[2] == 'max' \
                    and T.call_name(big[1]) == 'iinfo':
                hi_ok = any(x == hi_want for x in T.subterms(small))
                hi_round = rounded(small, hi_want)
        ok = lo_ok and hi_ok
        ctx.ob(rule, f'choose_int_dtype:bounds#{k}', fi.loc(n.ast), ok,
               'a type is accepted when the minimum is not below its '
               'minimum and the maximum not above its maximum' if ok else
               f'`{unparse(n.ast.test)[:70]}` does not compare the minimum '
               'with the type\'s minimum and the maximum with the type\'s '
               'maximum: a value outside the accepted type wraps around '
               'when it is stored')
        okr = lo_round and hi_round
        ctx.ob(rule, f'choose_int_dtype:rounding#{k}', fi.loc(n.ast), okr,
               'the extremes are rounded with np.round, as the data is '
               'when it is written' if okr else
               'the extremes compared with the type\'s bounds are not '
               'np.round(x_minmax[0]) / np.round(x_minmax[1]): the data '
               'is written as np.round(chunk), so an extreme that rounds '
               'away from zero (-0.7 -> -1, 127.5 -> 128) lands outside '
               'the chosen type')
    # the writer rounds with the same function
    w = db.fn('validation.utils:round_x_to_integers')
    n_round = sum(1 for f_ in db.iter_functions()
                  if f_.module.short == 'validation.utils'
                  for c in ast.walk(f_.node)
                  if isinstance(c, ast.Call) and isinstance(
                      c.func, ast.Attribute) and c.func.attr == 'round'
                  and isinstance(c.func.value, ast.Name)
                  and c.func.value.id in ('np', 'numpy'))
    ctx.ob(rule, 'validation.utils:writer-rounds', w.loc(), n_round >= 2,
           f'the validation writers round with np.round ({n_round} sites)'
           if n_round >= 2 else
           'the validation writers no longer round with np.round: the '
           'agreement with choose_int_dtype has to be re-established')


def check_ensembl_pattern(ctx):
    """identifiers are classified as Ensembl ids by a regular expression:
    `ENS`, letters, digits and an optional version suffix `.digits`,
    matched against the *whole* identifier.  The structure is read off the
    parsed expression (re._parser): the separator of the version suffix
    is the literal dot -- an unescaped `.` matches any character, and
    names such as ENSG0001-1 are then kept verbatim instead of being
    replaced by a placeholder."""
    import re._parser as sre
    from re._constants import LITERAL, ANY, MAX_REPEAT, SUBPATTERN, IN
    db = ctx.db
    rule = 'R-IDIOM/ensembl-pattern'
    fi = db.fn('gene_id.utils:is_ensembl')
    ctx.touch(fi)
    consts = []
    for scope in (fi.node, fi.module.tree):
        for c in ast.walk(scope):
            if isinstance(c, ast.Call) and isinstance(
                    c.func, ast.Attribute) and c.func.attr == 'compile' \
                    and c.args and isinstance(c.args[0], ast.Constant) \
                    and isinstance(c.args[0].value, str) \
                    and c.args[0].value.startswith('ENS'):
                consts.append(c.args[0])
    if not consts:
        raise AnalysisError('is_ensembl: the Ensembl pattern was not found')
    for k, c in enumerate(consts[:1]):
        try:
            parsed = list(sre.parse(c.value))
        except Exception as e:       # noqa: BLE001
            ctx.fail(rule, f'is_ensembl:pattern#{k}', fi.loc(c),
                     f'the pattern does not parse: {e}')
            continue
        prefix = ''.join(chr(v) for (op, v) in parsed[:3]
                         if op is LITERAL)
        ok_prefix = prefix == 'ENS'
        opt = [x for x in parsed if x[0] is MAX_REPEAT and x[1][0] == 0
               and x[1][1] == 1]
        ok_sep = False
        sep = None
        if opt:
            inner = list(opt[-1][1][2])
            if inner and inner[0][0] is SUBPATTERN:
                inner = list(inner[0][1][3])
            if inner:
                sep = inner[0]
                ok_sep = sep[0] is LITERAL and sep[1] == ord('.')
        any_used = any(op is ANY for (op, _v) in _flat(parsed))
        ok = ok_prefix and ok_sep and not any_used
        ctx.ob(rule, f'is_ensembl:pattern#{k}', fi.loc(c), ok,
               'ENS + letters + digits + optional `.digits`, the dot '
               'literal' if ok else
               f'the pattern {c.value!r} '
               + ('uses `.` (any character) '
                  if any_used else 'does not have a literal dot ')
               + 'as the separator of the version suffix: identifiers '
               'such as ENSG0001-1 / ENSG0001_2 count as Ensembl ids and '
               'are kept instead of being given a placeholder')
    # matched against the whole identifier
    full = any(isinstance(c, ast.Call) and isinstance(
        c.func, ast.Attribute) and c.func.attr == 'fullmatch'
        for c in ast.walk(fi.node))
    ctx.ob(rule, 'is_ensembl:fullmatch', fi.loc(), full,
           'the whole identifier has to match' if full else
           'is_ensembl no longer uses fullmatch: an identifier that merely '
           'starts with (or contains) an Ensembl id is classified as one')


def _flat(parsed):
    for item in parsed:
        op, av = item
        yield item
        if isinstance(av, tuple):
            for x in av:
                if hasattr(x, '__iter__') and not isinstance(x, (str, bytes)):
                    try:
                        yield from _flat(list(x))
                    except (TypeError, ValueError):
                        pass
        elif hasattr(av, '__iter__') and not isinstance(av, (str, bytes)):
            try:
                yield from _flat(list(av))
            except (TypeError, ValueError):
                pass


def check_validation_always_runs(ctx, rule='R-MUST/validation-runs'):
    """whatever a file looks like, "no changes required" is a verdict of
    the validation itself: every normal return of the public
    `validate_h5ad` is reached through the call of `_validate_h5ad` (no
    shortcut on a marker found in the file, a name, a cache), and what is
    returned is what that call returned."""
    db = ctx.db
    fi = db.fn('validation.validate_h5ad:validate_h5ad')
    ctx.touch(fi)
    cfg = cfg_of(fi)
    rd = rd_of(fi)
    calls = set()
    for node in cfg.nodes:
        if node.id not in rd.live:
            continue
        for c in cfg.calls_in(node):
            t = resolve_callee(db, fi, c)
            if isinstance(t, FunctionInfo) and t.name == '_validate_h5ad':
                calls.add(node.id)
    if not calls:
        raise AnalysisError('validate_h5ad does not call _validate_h5ad')
    okp, wit = cfg.must_pass(cfg.entry, {cfg.exit},
                             lambda x: x.id in calls,
                             edge_ok=lambda a, b, lab: b != cfg.exc_exit)
    ctx.ob(rule, 'validate_h5ad:every-return', fi.loc(), okp,
           'every normal return of validate_h5ad follows the call of '
           '_validate_h5ad' if okp else
           'validate_h5ad can return without having run _validate_h5ad: '
           'on that path identifiers are not mapped, X is not made '
           'integer and malformed inputs are not rejected',
           witness=cfg.fmt_path(wit) if wit else None)
    ex = Expander(fi)
    n = 0
    for r in cfg.nodes:
        if r.kind != 'return' or r.id not in rd.live \
                or r.ast.value is None:
            continue
        n += 1
        t = ex.expand(r.ast.value, r.id)
        ok = any(T.call_name(x) == '_validate_h5ad'
                 for x in T.subterms(t)) and not any(
            isinstance(a, tuple) and a and a[0] == 'tuple'
            for a in term_alts(t))
        ctx.ob(rule, f'validate_h5ad:return#{n - 1}', fi.loc(r.ast), ok,
               'the verdict returned is the one _validate_h5ad gave'
               if ok else
               f'`{unparse(r.ast)[:60]}` does not return the verdict of '
               '_validate_h5ad')


def check_rounding_always_performed(ctx, rule='R-MUST/rounding-performed'):
    """`round_x_to_integers` is called when the values are known not to be
    integers and the caller has announced the rounding; whatever it
    decides about types, every way it returns normally goes through one of
    the two rounding helpers.  A return that skips them ("no benefit",
    "type too wide") leaves non-integer values in a file that validation
    reports as rounded."""
    fi = ctx.db.fn('validation.utils:round_x_to_integers')
    cfg = cfg_of(fi)
    rd = rd_of(fi)
    rounding = set()
    for node in cfg.nodes:
        if node.id not in rd.live:
            continue
        for c in cfg.calls_in(node):
            t = resolve_callee(ctx.db, fi, c)
            if isinstance(t, FunctionInfo) and 'round' in t.name \
                    and t is not fi:
                rounding.add(node.id)
    if not rounding:
        raise AnalysisError(f'{fi.qual}: no rounding helper is called')
    p = cfg.path(cfg.entry, {cfg.exit}, avoid=lambda x: x.id in rounding,
                 edge_ok=lambda a, b, lab: lab != 'exc')
    ok = p is None
    ctx.touch(fi)
    ctx.ob(rule, f'{fi.qual}:normal-return', fi.loc(fi.node), ok,
           'every normal return has rounded the values' if ok else
           'round_x_to_integers can return without calling a rounding '
           'helper: the values stay non-integer in a file reported as '
           'rounded', witness=cfg.fmt_path(p) if p else None)
    return 1
