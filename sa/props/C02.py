"""
C02 -- assignments are the plurality of bootstrapped nearest-centroid votes
(structural part).

Decided (DESIGN.md section 5, C02): necessary conditions of the vote being
computed on the right numbers -- none of them is the arithmetic:
 1. every draw of marker columns is without replacement;
 2. one subset, on the same axis, for the query and the reference block;
 3. columns are paired by name (cache index spaces; identity of the two
    gene lists asserted);
 4. only leaves under the parent compete;
 5. normalise, then down-select (typestate, shared with C07);
 6. axes: means and norms along the gene axis, the product contracts genes
    with genes, the arg-max runs over reference rows per query cell, votes
    are indexed (cell, reference row), candidates are ranked per cell.
"""
import ast

from ..core.cfg import cfg_of
from ..core.defuse import rd_of, Expander, fmt_term, term_alts
from ..core import terms as T
from ..core.loader import unparse, AnalysisError, FunctionInfo
from ..core.resolve import resolve_callee, bind_args
from ..core.slicing import backward_slice
from ..rules import axes as AX
from ..rules import roles as R
from .C07 import check_typestate, check_class_guard
from .C08 import check_identity_assert

ID = 'C02'

EXPLANATION = (
    "Static analysis. In tally_votes the definition of the column index "
    "that cuts the two blocks is shown to be a without-replacement draw "
    "(rng.choice(..., replace=False), permutation(n)[:k] or shuffle + "
    "slice), and the two blocks handed to the nearest-neighbour search are "
    "shown, on symbolic terms, to be `<query>[:, I]` and `<reference>[:, "
    "I]` with the identical index term I on the column axis. The marker "
    "cache readers index query names with query positions and reference "
    "names with reference positions (backward data slices), and "
    "assemble_query_data raises, before returning, when the two selected "
    "gene lists differ. A backward slice of the row selection applied to "
    "the leaf-mean matrix shows it derives from children(parent) / "
    "nodes_at_level(top) and as_leaves, never from all_leaves. The "
    "CellByGeneMatrix typestate (convert before down-select) is checked "
    "as in C07. An axis-role type checker interprets the numeric kernel "
    "(convert_to_cpm, _subtract_mean_and_normalize_cpu, "
    "_correlation_dot_cpu, _correlation_nearest_neighbors_cpu, "
    "tally_votes, aggregate_votes) against declared signatures: "
    "broadcasting, reductions, transposes, np.dot, arg-max and fancy "
    "indexing must fit the roles, the declared return types must come "
    "out, and in choose_node candidates are ranked along the candidate "
    "axis per cell. The size max(1, round(f n)), vote shares and "
    "correlation means are values and are not decided.")

EXPLANATION += (
    " Added after the seeded rounds: the vote counter's integer type is "
    'sized from the iteration count of the loop that increments it '
    "(R-CAP); the label list indexed by the ranking is the caller's "
    'list or the one returned with the aggregated votes.'
)

EXPLANATION += (
    " Round 3: a voted level's average correlation is replaced only "
    'under an `is None` test; zipped neighbour / correlation lists are '
    'filled in lock-step.'
)

EXPLANATION += (
    ' Round 5: settings (bootstrap_iteration, bootstrap_factor, rng, n_assignments ...) are forwarded at every call (R-FWD/parameter-forwarded); node identity rule of C10 applied to the election module.'
)

EXPLANATION += (
    ' Round 6: the centroids voted on divide by a floored cell count (R-POS/cell-count-denominator, rule of C18).'
)

EXPLANATION += (
    ' Round 7: run settings are never replaced on a condition inside the pipeline (R-FWD/setting-not-rebound).'
)

EXPLANATION += (
    ' Round 8: query columns are selected by a name-derived fancy index (R-ROLE/columns-by-name, rule of C07).'
)

EXPLANATION += (
    ' Round 9: aggregated vote totals kept in a chosen integer type are sized from a sum of the summands (R-CAP/sum-capacity).'
)

EXPLANATION += (
    ' Kernel inputs are (data - row mean) / sqrt(sum((data - row mean)^2)), compared as polynomials (R-ARITH/pearson).'
)

EXPLANATION += (
    ' Round 10: aggregate_votes reads the vote table at positions that do not derive from the correlation table (R-PROV/votes-where-cast).'
)

EXPLANATION += (
    ' Round 11: row totals are accumulated in a widened type and the CPM formula of C07 is shared; bootstrap_iteration reaches the election as configured (R-FWD/config-as-requested).'
)

EXPLANATION += (
    ' Round 14: the iteration count and the bootstrap factors are handed on as received along the election chain (R-FWD/handed-on-unchanged); a sample drawn without replacement never exceeds the population (R-CAP/sample-within-population).'
)

EXPLANATION += (
    ' Round 15: ancestor marker lists are added nearest first (R-PROV/ancestors-nearest-first, rule of C08).'
)

EXPLANATION += (
    ' Round 18: ids and rows of a chunk are cut by the same bounds (R-SAMEVAL/ids-rows, rule of C01).'
)

RULE_TEXT = (
    "one obligation per draw, per block, per indexed comprehension, per "
    "provenance relation, per kernel function x configuration (type and "
    "row independence), per ranking step")

ASSUMPTIONS = [
    "numpy semantics of the operators listed in sa/rules/axes.py",
    "axis signatures in sa/specs/axes.json (written from the docstrings)",
    "necessary conditions only",
]


def check(ctx):
    check_draw(ctx)
    check_same_subset(ctx)
    db = ctx.db
    for q in ('type_assignment.election:run_type_assignment_on_h5ad_cpu',
              'type_assignment.matching:assemble_query_data'):
        R.check_reader_roles(ctx, db.fn(q))
    check_identity_assert(ctx)
    check_leaves_under_parent(ctx)
    check_typestate(ctx)
    check_class_guard(ctx)
    check_axes(ctx)
    check_ranking(ctx)
    check_counter_capacity(ctx)
    check_correlation_backfill(ctx)
    check_zero_norm_guard(ctx)
    check_votes_counted_where_cast(ctx)
    # the profiles compared are log2(CPM + 1) as the matrix class computes
    # them (rule of C07)
    from .C07 import check_cpm_formula
    check_cpm_formula(ctx)
    # the bootstrap settings reach every election as configured: no
    # frame of the election chain replaces them (rule of C03)
    from .C03 import check_settings_forwarded_unchanged
    if check_settings_forwarded_unchanged(
            ctx, ('bootstrap_factor_lookup', 'bootstrap_iteration',
                  'bootstrap_factor')) < 4:
        raise AnalysisError('hand-overs of the bootstrap settings not found')
    check_sample_within_population(ctx)
    check_pearson_form(ctx)
    # the settings reach the stages as configured (sa/rules/forwarding.py)
    from ..rules.forwarding import check_config_settings_as_requested
    check_config_settings_as_requested(ctx, {'bootstrap_iteration'})
    # neighbours and correlations of one bootstrap iteration are paired
    # by position: the two lists are filled in lock-step
    # the leaves that compete below a parent come from as_leaves: its
    # helpers key nodes by (level, label) (shared with C10)
    from .C10 import check_node_identity
    check_node_identity(ctx, ('taxonomy.',), floor=3)
    from ..rules.nodekeys import check_zip_alignment
    for fi_ in ctx.db.iter_functions():
        if fi_.module.short == 'type_assignment.election':
            check_zip_alignment(ctx, fi_)
    # settings this property depends on are handed down every call
    # chain, never left to a callee's default (sa/rules/forwarding.py)
    # the centroids that are voted on are finite: no mean divides by a
    # cell count that may be zero (rule of C18, sa/props/C18.py)
    # query and reference columns are paired by gene name: the query
    # side is gathered by a name-derived index in the order asked for
    # (rule of C07)
    from .C07 import check_columns_by_name
    check_columns_by_name(ctx)
    from .C18 import check_count_denominators
    check_count_denominators(ctx)
    from ..rules.forwarding import check_forwarding
    check_forwarding(ctx, {'bootstrap_iteration', 'bootstrap_factor', 'bootstrap_factor_lookup', 'n_assignments'})
    # the genes voted on at a parent with too few markers of its own are
    # those of its nearest ancestors first (rule of C08)
    from .C08 import check_ancestors_nearest_first
    check_ancestors_nearest_first(ctx)
    # the votes recorded under a cell id are the votes on that cell's own
    # row: ids and rows of a chunk are cut by the same bounds (rule of C01)
    from .C01 import check_ids_and_rows
    check_ids_and_rows(ctx)


def _draw_ok(fi, expr, nid, depth=0):
    """(ok, description) -- is the value a duplicate-free draw?"""
    rd = rd_of(fi)
    if isinstance(expr, ast.Call):
        f = expr.func
        nm = f.attr if isinstance(f, ast.Attribute) else (
            f.id if isinstance(f, ast.Name) else None)
        if nm == 'choice':
            rep = None
            for kw in expr.keywords:
                if kw.arg == 'replace':
                    rep = kw.value
            if rep is None and len(expr.args) >= 3:
                rep = expr.args[2]
            if isinstance(rep, ast.Constant) and rep.value is False:
                return True, 'choice(..., replace=False)'
            return False, ('choice with replacement ' + (
                '(replace defaults to True)' if rep is None
                else f'(replace={unparse(rep)})'))
        if nm in ('sort', 'sorted', 'array', 'asarray', 'unique'):
            src = expr.args[0] if expr.args else None
            if src is not None:
                return _draw_ok(fi, src, nid, depth)
        if nm == 'permutation':
            return True, 'permutation'
        if nm in ('integers', 'randint', 'choices', 'random'):
            return False, f'{nm}(...) can repeat indices'
        if nm == 'sample':
            return True, 'sample without replacement'
    if isinstance(expr, ast.Subscript) and isinstance(expr.slice,
                                                      ast.Slice):
        return _draw_ok(fi, expr.value, nid, depth)
    if isinstance(expr, ast.Name) and depth < 5:
        res = []
        for d in rd.reaching(expr.id, nid):
            if d.kind != 'assign':
                return False, f'{expr.id} bound by {d.kind}'
            res.append(_draw_ok(fi, d.value, d.node, depth+1))
        if res and all(r[0] for r in res):
            return True, res[0][1]
        bad = [r for r in res if not r[0]]
        return False, bad[0][1] if bad else 'no definition'
    return False, f'`{unparse(expr)[:40]}` is not a recognised draw'


def check_draw(ctx):
    db = ctx.db
    fi = db.fn('type_assignment.election:tally_votes')
    ctx.touch(fi)
    cfg = cfg_of(fi)
    rd = rd_of(fi)
    rule = 'R-IDIOM/draw-without-replacement'
    n = 0
    for node in cfg.nodes:
        if node.id not in rd.live:
            continue
        for root in node.exprs:
            if root is None:
                continue
            for sub in ast.walk(root):
                if isinstance(sub, ast.Subscript) and isinstance(
                        sub.slice, ast.Tuple) and len(sub.slice.elts) == 2 \
                        and isinstance(sub.slice.elts[0], ast.Slice) \
                        and isinstance(sub.slice.elts[1], ast.Name) \
                        and isinstance(sub.value, ast.Name) \
                        and sub.value.id in fi.params:
                    n += 1
                    ok, how = _draw_ok(fi, sub.slice.elts[1], node.id)
                    ctx.ob(rule, f'tally_votes:{unparse(sub)}',
                           fi.loc(sub), ok,
                           f'columns of {sub.value.id} are selected by a '
                           f'duplicate-free draw ({how})' if ok else
                           f'the marker subset applied to {sub.value.id} '
                           f'is not duplicate-free: {how}')
    if n < 2:
        ctx.fail(rule, 'tally_votes:subset', fi.loc(),
                 'the column sub-selection of the query / reference '
                 'blocks was not found')


def check_same_subset(ctx):
    db = ctx.db
    fi = db.fn('type_assignment.election:tally_votes')
    cfg = cfg_of(fi)
    rd = rd_of(fi)
    ex = Expander(fi)
    rule = 'R-SAMEVAL/one-subset-both-sides'
    found = False
    for node in cfg.nodes:
        if node.id not in rd.live:
            continue
        for c in cfg.calls_in(node):
            t = resolve_callee(db, fi, c)
            if not (isinstance(t, FunctionInfo)
                    and t.name == 'correlation_nearest_neighbors'):
                continue
            found = True
            mapping, _ = bind_args(t, c)
            tb = ex.expand(mapping.get('baseline_array'), node.id)
            tq = ex.expand(mapping.get('query_array'), node.id)

            def cut(term, param):
                if term[0] == 'sub' and term[1] == ('param', param) \
                        and term[2][0] == 'tuple' and len(
                            term[2][1]) == 2 and term[2][1][0][0] \
                        == 'slice':
                    return term[2][1][1]
                return None
            ib = cut(tb, 'reference_gene_data')
            iq = cut(tq, 'query_gene_data')
            ok = ib is not None and iq is not None and ib == iq
            ctx.ob(rule, 'tally_votes:blocks', fi.loc(c), ok,
                   'reference and query blocks are cut with the same '
                   'column index, on the column axis' if ok else
                   'the blocks compared in one iteration are '
                   f'baseline={fmt_term(tb)[:70]} and '
                   f'query={fmt_term(tq)[:70]}: not the same marker '
                   'subset applied to the columns of both')
    if not found:
        ctx.fail(rule, 'tally_votes:blocks', fi.loc(),
                 'correlation_nearest_neighbors is not called')


def check_leaves_under_parent(ctx):
    db = ctx.db
    fi = db.fn('type_assignment.matching:assemble_query_data')
    ctx.touch(fi)
    cfg = cfg_of(fi)
    rd = rd_of(fi)
    rule = 'R-PROV/leaves-under-parent'
    found = False
    sel_names = set()
    for node in cfg.nodes:
        if node.id not in rd.live:
            continue
        for c in cfg.calls_in(node):
            if isinstance(c.func, ast.Attribute) \
                    and c.func.attr == 'downsample_cells' and isinstance(
                        c.func.value, ast.Name) \
                    and c.func.value.id == 'mean_profile_matrix':
                found = True
                a = c.args[0] if c.args else c.keywords[0].value
                sl = backward_slice(fi, a, node.id)
                sel_names |= sl.names
                bad = sl.has_attr('all_leaves') or sl.has_attr('n_leaves')
                good = (sl.has_call('children')
                        or sl.has_call('nodes_at_level')) and sl.has_attr(
                            'as_leaves') and 'parent_node' in sl.params
                ok = good and not bad
                ctx.ob(rule, 'assemble_query_data:reference-rows',
                       fi.loc(c), ok,
                       'the reference rows are the leaves below the '
                       'children of the given parent' if ok else
                       'the reference rows competing for the vote '
                       + ('include all leaves of the taxonomy' if bad
                          else 'do not derive from children(parent) and '
                          'as_leaves'))
    if not found:
        ctx.fail(rule, 'assemble_query_data:reference-rows', fi.loc(),
                 'the row selection of the leaf-mean matrix was not found')
    # each leaf votes for the child that owns it: the table the selected
    # reference rows are the keys of (any container in the selection's
    # slice) is filled as table[leaf] = child inside `for child: for leaf`
    ok = False
    for n in ast.walk(fi.node):
        if isinstance(n, ast.For) and isinstance(n.target, ast.Name):
            inner = [s for s in ast.walk(n) if isinstance(s, ast.Assign)
                     and isinstance(s.targets[0], ast.Subscript)
                     and isinstance(s.targets[0].value, ast.Name)
                     and s.targets[0].value.id in sel_names]
            for s in inner:
                outer = getattr(n, '_parent', None)
                if isinstance(s.value, ast.Name) and isinstance(
                        outer, ast.For) and isinstance(
                            outer.target, ast.Name) \
                        and s.value.id == outer.target.id:
                    ok = True
    ctx.ob(rule, 'assemble_query_data:leaf-to-child', fi.loc(), ok,
           'each leaf is labelled with the child whose leaf list it came '
           'from' if ok else
           'the leaf -> child table is not built from the child whose '
           'as_leaves list contains the leaf')


def check_axes(ctx):
    db = ctx.db
    spec = AX.load_spec()
    total = 0
    for q in spec['functions']:
        total += AX.check_function(ctx, db, q, spec)
    failed = any(o.rule.startswith('R-AXIS') and not o.ok
                 for o in ctx.obligations)
    if total < 30 and not failed:
        raise AnalysisError(f'axis typing covered only {total} array '
                            'operations')


def T_call_name(call):
    f = call.func
    if isinstance(f, ast.Name):
        return f.id
    if isinstance(f, ast.Attribute):
        return f.attr
    return None


def _labels_travel_with_votes(fi, cfg, rd):
    """find the gathers  L[i]  whose index comes from the argsort ranking
    and L is a 1-d label list; check the provenance of L"""
    labels = []
    for n in ast.walk(fi.node):
        if isinstance(n, ast.Subscript) and isinstance(
                n.value, ast.Name) and isinstance(n.ctx, ast.Load) \
                and not isinstance(n.slice, (ast.Tuple, ast.Slice)):
            ns = [x for x in cfg.node_of_expr(n) if x.id in rd.live]
            if not ns:
                continue
            sl = backward_slice(fi, n.slice, ns[0].id)
            if not sl.has_call('argsort'):
                continue
            labels.append((n, ns[0].id))
    if not labels:
        return False, 'no label lookup by ranking position found'
    for (n, nid) in labels:
        for d in rd.reaching(n.value.id, nid):
            if d.kind == 'param':
                continue
            v = getattr(d, 'value', None)
            if isinstance(v, ast.Call) and d.path and T_call_name(
                    v) == 'aggregate_votes' and d.path[0] == 2:
                # the vote table of the same call must be the one ranked
                continue
            return False, (f'`{n.value.id}` can be '
                           f'`{unparse(v)[:50] if v is not None else d.kind}`'
                           ' where it names the ranked columns')
    return True, ''


def check_ranking(ctx):
    """choose_node ranks candidates per cell: argsort along axis 1 of the
    (cell, candidate) votes, reversed, winner = column 0"""
    db = ctx.db
    fi = db.fn('type_assignment.election:choose_node')
    ctx.touch(fi)
    cfg = cfg_of(fi)
    rd = rd_of(fi)
    ex = Expander(fi)
    rule = 'R-AXIS/ranking'
    ok_axis = False
    ok_rev = False
    for n in ast.walk(fi.node):
        if isinstance(n, ast.Call) and isinstance(n.func, ast.Attribute) \
                and n.func.attr == 'argsort':
            ax = None
            for kw in n.keywords:
                if kw.arg == 'axis':
                    ax = kw.value
            if isinstance(ax, ast.Constant) and ax.value in (1, -1):
                ok_axis = True
            par = getattr(n, '_parent', None)
            if isinstance(par, ast.Subscript) and isinstance(
                    par.slice, ast.Tuple) and len(par.slice.elts) == 2:
                s1 = par.slice.elts[1]
                if isinstance(s1, ast.Slice) and s1.step is not None \
                        and unparse(s1.step) == '-1':
                    ok_rev = True
    ctx.ob(rule, 'choose_node:argsort-axis', fi.loc(), ok_axis,
           'candidates are ranked along the candidate axis, per cell'
           if ok_axis else
           'choose_node does not rank votes with argsort(axis=1): ranking '
           'along axis 0 would rank cells against each other')
    ctx.ob(rule, 'choose_node:descending', fi.loc(), ok_rev,
           'the ranking is reversed to decreasing votes' if ok_rev else
           'the vote ranking is not reversed to decreasing order')
    # winner = first column of the ranking; runners-up = columns 1..
    winner_ok = False
    for node in cfg.nodes:
        if node.kind == 'stmt' and node.id in rd.live and isinstance(
                node.ast, ast.Assign) and isinstance(
                    node.ast.value, ast.ListComp):
            lc = node.ast.value
            g = lc.generators[0]
            if isinstance(g.iter, ast.Subscript) and isinstance(
                    g.iter.slice, ast.Tuple) and len(
                        g.iter.slice.elts) == 2 and isinstance(
                            g.iter.slice.elts[1], ast.Constant) \
                    and g.iter.slice.elts[1].value == 0 and isinstance(
                        lc.elt, ast.Subscript) and unparse(
                            lc.elt.value) == 'reference_types':
                sl = backward_slice(fi, g.iter.value, node.id)
                if sl.has_call('argsort'):
                    winner_ok = True
    # the labels the ranking is translated with travel with the vote
    # table: on every path they are either the caller's list (votes as
    # tallied) or element 2 of the aggregate_votes call whose element 0 is
    # the vote table
    label_ok, label_detail = _labels_travel_with_votes(fi, cfg, rd)
    ctx.ob(rule, 'choose_node:labels', fi.loc(), label_ok,
           'winner and runner-up names are read from the label list that '
           'belongs to the ranked vote table' if label_ok else
           'the list that names the columns of the vote table is not the '
           'one that came with it: ' + label_detail)
    ctx.ob(rule, 'choose_node:winner', fi.loc(), winner_ok,
           'the winner is the type in column 0 of the per-cell ranking'
           if winner_ok else
           'the winner is not read from column 0 of the per-cell ranking')
    # votes and correlations are gathered with the same ranking
    gathers = []
    compvars = set()
    for n in ast.walk(fi.node):
        if isinstance(n, ast.comprehension):
            compvars |= {x.id for x in ast.walk(n.target)
                         if isinstance(x, ast.Name)}
    # a gather is `X[a, b]` with two plain index variables; X is a vote
    # table (element 0 of the tally / aggregation result) or a correlation
    # table (element 1) according to the tuple position it was unpacked
    # from -- not according to its name
    for n in ast.walk(fi.node):
        if isinstance(n, ast.Subscript) and isinstance(n.slice, ast.Tuple) \
                and len(n.slice.elts) == 2 and all(
                    isinstance(x, ast.Name) for x in n.slice.elts) \
                and isinstance(n.value, ast.Name) and not any(
                    x.id in compvars for x in n.slice.elts):
            ns = [x for x in cfg.node_of_expr(n) if x.id in rd.live]
            if not ns:
                continue
            kinds = set()
            for d in rd.reaching(n.value.id, ns[0].id):
                v = getattr(d, 'value', None)
                if isinstance(v, ast.Call) and d.path and T_call_name(
                        v) in ('tally_votes', 'aggregate_votes'):
                    kinds.add(d.path[0])
            if kinds and kinds <= {0, 1} and len(kinds) == 1:
                idx_defs = tuple(
                    (x.id, frozenset(d.id for d in rd.reaching(
                        x.id, ns[0].id))) for x in n.slice.elts)
                gathers.append((kinds.pop(), idx_defs))
    idx = {g[1] for g in gathers}
    ok = {g[0] for g in gathers} == {0, 1} and len(idx) == 1
    idx = {tuple(x[0] for x in g) for g in idx}
    ctx.ob(rule, 'choose_node:co-gather', fi.loc(), ok,
           'vote counts and correlation sums are reordered by the same '
           'ranking' if ok else
           f'votes and correlation sums are gathered with {sorted(idx)}: '
           'shares and correlations of different candidates are paired')


def check_counter_capacity(ctx):
    """a vote counter whose integer type is chosen by choose_int_dtype can
    hold every count it may reach: the bound handed to choose_int_dtype
    derives from the number of iterations of the loop that increments the
    counter (one vote per cell per bootstrap iteration).  A capacity taken
    from anything else wraps around for runs with more iterations than
    that, and the plurality is lost."""
    db = ctx.db
    rule = 'R-CAP/vote-counter'
    n = 0
    for q in ('type_assignment.election:tally_votes',):
        fi = db.fn(q)
        ctx.touch(fi)
        arrs = dict()
        for st in ast.walk(fi.node):
            if isinstance(st, ast.Assign) and isinstance(
                    st.targets[0], ast.Name) and isinstance(
                        st.value, ast.Call) and unparse(
                            st.value.func) in ('np.zeros', 'np.ones',
                                               'np.empty'):
                for kw in st.value.keywords:
                    if kw.arg == 'dtype':
                        arrs[st.targets[0].id] = kw.value
        for a in ast.walk(fi.node):
            if not (isinstance(a, ast.AugAssign) and isinstance(
                    a.op, ast.Add) and isinstance(a.target, ast.Subscript)
                    and isinstance(a.target.value, ast.Name)
                    and a.target.value.id in arrs):
                continue
            dt = arrs[a.target.value.id]
            sl = backward_slice(fi, dt)
            if 'choose_int_dtype' not in sl.call_names():
                # a fixed type: capacity is that of the type, not judged
                n += 1
                ctx.ok(rule, f'{fi.qual}:counter#{n - 1}', fi.loc(a),
                       f'the counter has the fixed type `{unparse(dt)}`',
                       nontrivial=False)
                continue
            # the loops around the increment
            need = set()
            rd = rd_of(fi)

            def loops_around(node):
                p = getattr(node, '_parent', None)
                while p is not None and not isinstance(p, ast.FunctionDef):
                    if isinstance(p, ast.For):
                        yield p
                    p = getattr(p, '_parent', None)
            todo = list(loops_around(a))
            seen_loops = set()
            while todo:
                lp = todo.pop()
                if id(lp) in seen_loops:
                    continue
                seen_loops.add(id(lp))
                it = lp.iter
                if isinstance(it, ast.Call) and isinstance(
                        it.func, ast.Name) and it.func.id == 'range':
                    for arg in it.args:
                        need |= backward_slice(fi, arg).params
                    continue
                # a loop over lists filled elsewhere: as many iterations
                # as the loop(s) that appended to them
                for x in ast.walk(it):
                    if isinstance(x, ast.Name):
                        for (mn, astn, how) in rd.mutations(x.id):
                            if how == 'append':
                                todo += list(loops_around(astn))
            n += 1
            ok = bool(need) and need <= sl.params
            ctx.ob(rule, f'{fi.qual}:counter#{n - 1}', fi.loc(a), ok,
                   'the counter type is sized from the iteration count '
                   f'({sorted(need)})' if ok else
                   f'`{unparse(a)[:50]}` is incremented once per iteration '
                   f'of a loop bounded by {sorted(need)}, but its integer '
                   f'type is sized from {sorted(sl.params)}: with more '
                   'iterations than that capacity the count wraps around')
    if n == 0:
        raise AnalysisError('no vote counter with a chosen integer type '
                            'found in tally_votes')
    # the per-type totals of aggregate_votes are sums of those counters
    from ..rules.capacity import check_sum_capacity
    fi = db.fn('type_assignment.election:aggregate_votes')
    ctx.touch(fi)
    if check_sum_capacity(ctx, fi) == 0:
        ctx.ok('R-CAP/sum-capacity', f'{fi.qual}:fixed', fi.loc(),
               'the aggregated vote totals are held in a fixed wide type',
               nontrivial=False)


def check_correlation_backfill(ctx):
    """levels at which no vote was held inherit the average correlation of
    a neighbouring level; a level that *was* voted on keeps the value that
    was computed for it, whatever that value is.  The inheritance is
    therefore conditioned on `is None`, never on truthiness: 0.0 is a
    legitimate mean correlation."""
    db = ctx.db
    fi = db.fn('type_assignment.election:run_type_assignment')
    ctx.touch(fi)
    cfg = cfg_of(fi)
    rd = rd_of(fi)
    rule = 'R-GUARD/correlation-backfill'
    n = 0
    for node in cfg.nodes:
        if node.kind != 'stmt' or node.id not in rd.live or not isinstance(
                node.ast, ast.Assign):
            continue
        tg = node.ast.targets[0]
        if not (isinstance(tg, ast.Subscript) and isinstance(
                tg.slice, ast.Constant)
                and tg.slice.value == 'avg_correlation'):
            continue
        # only the inheritance stores: the value read is the same field of
        # another record
        reads = [x for x in ast.walk(node.ast.value)
                 if isinstance(x, ast.Subscript) and isinstance(
                     x.slice, ast.Constant)
                 and x.slice.value == 'avg_correlation']
        if not reads:
            continue
        n += 1
        truthy = any(isinstance(x, (ast.BoolOp, ast.IfExp))
                     for x in ast.walk(node.ast.value))
        from ..core.guards import none_facts
        is_none, _not_none = none_facts(cfg, rd, node.id)
        guarded = any('avg_correlation' in unparse(e) for e in is_none)
        ok = guarded and not truthy
        ctx.ob(rule, f'{fi.qual}:inherit#{n - 1}', fi.loc(node.ast), ok,
               'inherited only where the value is None' if ok else
               f'`{unparse(node.ast)[:70]}` replaces the average '
               'correlation of a level on a truthiness test (or without '
               'an `is None` test): a computed mean of exactly 0.0 is '
               'overwritten by the neighbouring level\'s value')
    if n == 0:
        raise AnalysisError('run_type_assignment: the inheritance of '
                            'avg_correlation was not found')


def check_zero_norm_guard(ctx):
    """a cell (or reference profile) that is constant over the drawn genes
    has norm 0 after centring; its correlation is defined as 0 by setting
    that norm to 1 before dividing.  The rows to treat that way are those
    whose *norm* is zero: the mask of the replacement is computed from the
    norm itself.  A mask computed from the data before centring (all-zero
    rows) misses constant non-zero rows, and the division yields NaN."""
    db = ctx.db
    fi = db.fn('utils.distance_utils:_subtract_mean_and_normalize_cpu')
    ctx.touch(fi)
    cfg = cfg_of(fi)
    rd = rd_of(fi)
    rule = 'R-GUARD/zero-norm'
    n = 0
    for node in cfg.nodes:
        if node.kind != 'stmt' or node.id not in rd.live:
            continue
        divs = [e for root in node.exprs if root is not None
                for e in ast.walk(root)
                if isinstance(e, ast.BinOp) and isinstance(e.op, ast.Div)
                and isinstance(e.right, ast.Name)]
        if isinstance(node.ast, ast.AugAssign) and isinstance(
                node.ast.op, ast.Div) and isinstance(
                    node.ast.value, ast.Name):
            divs.append(ast.BinOp(left=node.ast.target, op=ast.Div(),
                                  right=node.ast.value))
        for e in divs:
            den = e.right.id
            sl = backward_slice(fi, e.right, node.id)
            if not (sl.has_call('sqrt') or sl.has_call('norm')):
                continue
            n += 1
            # replacement stores  den[mask] = c  that dominate the division
            ok = False
            detail = 'no replacement of zero norms before the division'
            for g in cfg.nodes:
                if g.kind != 'stmt' or g.id not in rd.live or not isinstance(
                        g.ast, ast.Assign):
                    continue
                tg = g.ast.targets[0]
                if isinstance(tg, ast.Subscript) and isinstance(
                        tg.value, ast.Name) and tg.value.id == den \
                        and cfg.dominates(g.id, node.id):
                    msl = backward_slice(fi, tg.slice, g.id)
                    if den in msl.names:
                        ok = True
                    else:
                        detail = (f'the rows whose norm is replaced '
                                  f'(`{unparse(tg.slice)[:40]}`) are not '
                                  'chosen by a test of the norm')
                # norm = np.where(norm == 0, 1, norm)
                if isinstance(tg, ast.Name) and tg.id == den and isinstance(
                        g.ast.value, ast.Call) and cfg.dominates(
                            g.id, node.id):
                    nm = getattr(g.ast.value.func, 'attr', getattr(
                        g.ast.value.func, 'id', ''))
                    if nm == 'where' and den in {
                            x.id for x in ast.walk(g.ast.value)
                            if isinstance(x, ast.Name)}:
                        ok = True
            ctx.ob(rule, f'{fi.qual}:div#{n - 1}', fi.loc(node.ast), ok,
                   'zero norms are replaced, selected by a test of the '
                   'norm, before the division' if ok else
                   f'`{unparse(node.ast)[:50]}`: {detail}; a profile that '
                   'is constant but not zero over the drawn genes divides '
                   'by zero and yields NaN correlations')
    if n == 0:
        raise AnalysisError('_subtract_mean_and_normalize_cpu: no division '
                            'by the norm found')


def check_pearson_form(ctx, rule='R-ARITH/pearson'):
    """what the kernel multiplies are rows centred on their own mean and
    divided by the root of the sum of squares of the *centred* values:
    every return of _subtract_mean_and_normalize_cpu is, transpositions
    and the zero-norm replacement looked through,
    (data - mean) / sqrt(sum((data - mean)^2)); the product of two such
    matrices is then the Pearson correlation.  Compared as polynomials, so
    any equivalent spelling passes."""
    from ..core import poly as P
    db = ctx.db
    fi = db.fn('utils.distance_utils:_subtract_mean_and_normalize_cpu')
    ctx.touch(fi)
    cfg = cfg_of(fi)
    rd = rd_of(fi)
    ex = Expander(fi)
    DATA = P.atom(('param', 'data'))
    MU = P.atom(('ROWMEAN',))

    def strip_t(t):
        while isinstance(t, tuple) and t and t[0] == 'call' \
                and T.call_name(t) in ('transpose', 't'):
            rc = T.call_receiver(t)
            if rc is None or (isinstance(rc, tuple) and rc
                              and rc[0] == 'name'):
                t = t[2][0]
            else:
                t = rc
        return t

    def atoms(t):
        if isinstance(t, tuple) and t and t[0] == 'call':
            nm = T.call_name(t)
            if nm in ('transpose', 't'):
                try:
                    return P.poly(strip_t(t), atoms)
                except P.NotPolynomial:
                    return None
            if nm == 'mean' and t[2] and t[2][0] == ('param', 'data'):
                return MU
            if nm == 'mean' and T.call_receiver(t) == ('param', 'data'):
                return MU
        return None
    centred = P._add(DATA, MU, -1)
    n = 0
    for r in cfg.nodes:
        if r.kind != 'return' or r.id not in rd.live \
                or r.ast.value is None:
            continue
        n += 1
        t = strip_t(ex.expand(r.ast.value, r.id))
        ok_num = ok_den = False
        if t[0] == 'binop' and t[1] == 'Div':
            try:
                ok_num = P.poly(t[2], atoms) == centred
            except P.NotPolynomial:
                ok_num = False
            d = P.strip_guard(strip_t(t[3]))
            inner = None
            if isinstance(d, tuple) and d[0] == 'call' and T.call_name(
                    d) == 'sqrt' and d[2]:
                s = d[2][0]
                if s[0] == 'call' and T.call_name(s) == 'sum' and s[2]:
                    inner = s[2][0]
            elif isinstance(d, tuple) and d[0] == 'call' and T.call_name(
                    d) == 'norm' and d[2]:
                # np.linalg.norm(x, axis=..) = sqrt(sum(x^2))
                inner = ('binop', 'Pow', d[2][0], ('const', '2'))
            if inner is not None:
                try:
                    ok_den = P.poly(inner, atoms) == P._mul(centred,
                                                            centred)
                except P.NotPolynomial:
                    ok_den = False
        ctx.ob(rule, f'{fi.qual}:return#{n - 1}:centred', fi.loc(r.ast),
               ok_num, 'rows are centred on their own mean' if ok_num else
               f'the kernel input {fmt_term(t)[:90]} is not '
               '(data - row mean) / norm')
        ctx.ob(rule, f'{fi.qual}:return#{n - 1}:norm', fi.loc(r.ast),
               ok_den, 'rows are divided by the root of the sum of their '
               'squared centred values' if ok_den else
               f'the kernel input {fmt_term(t)[:90]} is not divided by '
               'sqrt(sum((data - row mean)^2)): the product of two such '
               'rows is not the correlation coefficient')
    if n < 2:
        raise AnalysisError('_subtract_mean_and_normalize_cpu: returns '
                            'not found')
    # the product: np.dot of the two prepared matrices
    f2 = db.fn('utils.distance_utils:_correlation_dot_cpu')
    ctx.touch(f2)
    c2 = cfg_of(f2)
    r2 = rd_of(f2)
    e2 = Expander(f2)
    for r in c2.nodes:
        if r.kind != 'return' or r.id not in r2.live:
            continue
        t = e2.expand(r.ast.value, r.id)
        ok = False
        if t[0] == 'call' and T.call_name(t) in ('dot', 'matmul') \
                and len(t[2]) == 2:
            a, b = t[2]
            ok = all(T.call_name(x) == '_subtract_mean_and_normalize_cpu'
                     for x in (a, b)) and T.params_in(a) == {'arr0'} \
                and T.params_in(b) == {'arr1'}
        elif t[0] == 'binop' and t[1] == 'MatMult':
            a, b = t[2], t[3]
            ok = all(T.call_name(x) == '_subtract_mean_and_normalize_cpu'
                     for x in (a, b)) and T.params_in(a) == {'arr0'} \
                and T.params_in(b) == {'arr1'}
        ctx.ob(rule, f'{f2.qual}:product', f2.loc(r.ast), ok,
               'the correlation matrix is the product of the two prepared '
               'matrices' if ok else
               f'_correlation_dot_cpu returns {fmt_term(t)[:90]}, not the '
               'product of the prepared arr0 and the prepared arr1')


def check_votes_counted_where_cast(ctx, rule='R-PROV/votes-where-cast'):
    """the per-type totals add up every vote of every leaf of the type.
    Which entries of the vote table are read is therefore decided by the
    type of the column alone: no index with which `vote_array` is read in
    aggregate_votes derives from the correlation table (a vote cast with
    correlation exactly 0.0 is a vote)."""
    db = ctx.db
    fi = db.fn('type_assignment.election:aggregate_votes')
    ctx.touch(fi)
    cfg = cfg_of(fi)
    rd = rd_of(fi)
    n = 0
    for node in cfg.nodes:
        if node.id not in rd.live or node.ast is None or node.kind not in (
                'stmt', 'return'):
            continue
        for s in ast.walk(node.ast):
            if not (isinstance(s, ast.Subscript) and isinstance(
                    s.ctx, ast.Load) and isinstance(s.value, ast.Name)
                    and s.value.id == 'vote_array'):
                continue
            n += 1
            sl = backward_slice(fi, s.slice, node.id)
            ok = 'correlation_array' not in sl.params
            ctx.ob(rule, f'{fi.qual}:read#{n - 1}', fi.loc(s), ok,
                   'the votes read are chosen by the column\'s type'
                   if ok else
                   f'`{unparse(s)[:60]}` reads the vote table at positions '
                   'that derive from the correlation table: votes cast '
                   'with a correlation of exactly 0.0 are not counted, '
                   'and the shares no longer add up')
    if n == 0:
        raise AnalysisError('aggregate_votes: no read of vote_array found')


def check_sample_within_population(ctx,
                                   rule='R-CAP/sample-within-population'):
    """a draw without replacement of K out of N needs K <= N.  The size of
    the bootstrap sample is round(factor * N) (factor in (0, 1]) raised to
    a constant floor c by `max(., c)`; the floor is admissible only where
    the tests that dominate it guarantee N >= c (`if n_markers > 0:` for
    c = 1).  A floor of 2 "because one gene has no correlation" makes the
    election of a parent with a single usable marker raise instead of
    map."""
    from ..core.guards import facts_at
    db = ctx.db
    fi = db.fn('type_assignment.election:tally_votes')
    ctx.touch(fi)
    cfg = cfg_of(fi)
    rd = rd_of(fi)
    n = 0
    # the size argument of rng.choice(pop, size, replace=False)
    sizes = set()
    for c in ast.walk(fi.node):
        if isinstance(c, ast.Call) and isinstance(
                c.func, ast.Attribute) and c.func.attr == 'choice' \
                and len(c.args) >= 2 and isinstance(c.args[1], ast.Name) \
                and any(k.arg == 'replace' and isinstance(
                    k.value, ast.Constant) and k.value.value is False
                    for k in c.keywords):
            sizes.add(c.args[1].id)
    if not sizes:
        # the draw itself is judged by R-RNG (with / without replacement,
        # kind of draw); with no `choice(..., n, replace=False)` left
        # there is no sample size to bound here
        ctx.ok(rule, 'tally_votes:draw', 'package',
               'no draw without replacement with a named sample size: '
               'nothing to bound', nontrivial=False)
        return 0
    for node in cfg.nodes:
        if node.kind != 'stmt' or node.id not in rd.live or not isinstance(
                node.ast, ast.Assign):
            continue
        tg = node.ast.targets[0]
        if not (isinstance(tg, ast.Name) and tg.id in sizes):
            continue
        v = node.ast.value
        if not (isinstance(v, ast.Call) and getattr(v.func, 'id', getattr(
                v.func, 'attr', None)) in ('max', 'maximum')):
            continue
        floors = [a.value for a in v.args if isinstance(a, ast.Constant)
                  and isinstance(a.value, (int, float))]
        if not floors:
            continue
        n += 1
        floor = max(floors)
        # what the dominating tests guarantee about the population size
        guaranteed = 0
        for (_g, test, truth) in facts_at(cfg, rd, node.id):
            if not (truth and isinstance(test, ast.Compare)
                    and len(test.ops) == 1 and isinstance(
                        test.comparators[0], ast.Constant)
                    and isinstance(test.comparators[0].value, int)):
                continue
            k = test.comparators[0].value
            if isinstance(test.ops[0], ast.Gt):
                guaranteed = max(guaranteed, k + 1)
            elif isinstance(test.ops[0], ast.GtE):
                guaranteed = max(guaranteed, k)
        ok = floor <= guaranteed
        ctx.ob(rule, f'tally_votes:{tg.id}#{n - 1}', fi.loc(node.ast), ok,
               f'the floor {floor} of the sample size is within the '
               f'population the guards guarantee (>= {guaranteed})' if ok
               else f'`{unparse(node.ast)[:50]}` raises the sample size to '
               f'{floor} where only a population of {guaranteed} is '
               'guaranteed: for a parent with fewer usable markers the '
               'draw without replacement raises and the run fails instead '
               'of mapping')
    if n == 0:
        raise AnalysisError('tally_votes: the floor of the bootstrap '
                            'sample size was not found')
