"""
C08 -- marker genes are reconciled with the query by name, with ancestor
fallback.

Decided (DESIGN.md section 5, C08):
 1. the genes reported are the genes used: the cache the election reads is
    the cache the marker report is read from, and both are the file the
    cache builder wrote; all three see one tree version (with C01 / C17).
 2. by-name pairing: cache writer and every reader agree on index spaces;
    the two index arrays of a group are permuted together; the identity of
    the two selected gene-name lists is asserted before a node's data is
    returned.
 3. error discipline: a root without usable markers, a marker unknown to
    the reference and a query sharing no marker end in a raise, with or
    without a log.
 4. single-child parents are exempt in all four consumers: their
    child-count predicates, folded at n = 1 and n = 2, say "exempt" at 1
    and "needs markers" at 2.
 5. the fallback adds ancestor lists restricted to genes present in the
    query.
"""
import ast

from ..core.cfg import cfg_of
from ..core.constprop import eval_expr, UNKNOWN
from ..core.defuse import rd_of, Expander, fmt_term, term_alts
from ..core import terms as T
from ..core.loader import unparse, AnalysisError, FunctionInfo
from ..core.resolve import resolve_callee, bind_args
from ..core.slicing import backward_slice
from ..rules import arms as A
from ..rules import roles as R

ID = 'C08'

EXPLANATION = (
    "Static analysis. Symbolic expansion in _run_mapping shows that "
    "create_marker_cache_from_specified_markers(output_cache_path=X), the "
    "election (marker_gene_cache_path=X) and serialize_markers("
    "marker_cache_path=X) receive one and the same scratch file X. A "
    "light role typing of the marker cache (gene-name datasets vs. "
    "position datasets, query vs. reference) is checked on every "
    "`NAMES[i] for i in IDX` comprehension of the readers "
    "(run_type_assignment_on_h5ad_cpu, assemble_query_data, "
    "serialize_markers) through backward data slices, and on the writer "
    "(each dataset derives from its own name list; the two position "
    "arrays of a group are permuted by one permutation). In "
    "assemble_query_data the inequality test of the two gene-identifier "
    "lists raises and dominates the return. Every log/no-log conditional "
    "of validate_marker_lookup and "
    "create_marker_cache_from_specified_markers agrees on raising, and the "
    "three error conditions are shown to end in a raise. The child-count "
    "predicates of the four consumers are constant-folded at n=1 and n=2. "
    "The ancestor patch intersects with the query genes before it is "
    "stored. Which ancestor is consulted first and when augmentation "
    "stops are runtime-set algorithms and are not decided.")

EXPLANATION += (
    ' Added after the seeded rounds: the in-place patching loop visits '
    'parents deepest first; the unknown-to-reference test uses the '
    'unfiltered marker table.'
)

EXPLANATION += (
    ' Round 5: gene positions stored with an explicitly chosen integer type are sized from the list they index (R-CAP/index-dtype); settings are forwarded (R-FWD).'
)

EXPLANATION += (
    ' Round 6: a rejection for an empty marker list of the cache also looks at the number of children (R-GUARD/empty-list-rejection).'
)

EXPLANATION += (
    ' Round 7: marker columns are selected from the query by a name-derived fancy index, not a range (R-ROLE/columns-by-name, rule of C07).'
)

EXPLANATION += (
    ' Round 8: all_parents lists the levels in hierarchy order and is not re-ordered (producer side of R-PROV/deepest-first).'
)

EXPLANATION += (
    ' Round 9: the cache group read for a parent has one key expression on every path, derived from parent_node (R-PROV/group-of-parent).'
)

EXPLANATION += (
    ' Round 11: without a mapping the query gene names are the var index as read (R-PROV/query-names-as-in-file); min_markers reaches the cache builder as configured.'
)

EXPLANATION += (
    ' Round 12: ancestor lists are added nearest first (R-PROV/ancestors-nearest-first).'
)

EXPLANATION += (
    ' Round 13: positions-as-stored (with C01); the child-to-parent table is keyed per level (node identity, rule of C10).'
)

EXPLANATION += (
    ' Round 14: the bootstrap sample size is not floored above the population (R-CAP/sample-within-population, rule of C02).'
)

RULE_TEXT = (
    "one obligation per cache-path argument, per indexed comprehension, "
    "per cache dataset, per log conditional, per error condition, per "
    "(consumer, n) predicate evaluation")

ASSUMPTIONS = [
    "the marker cache is addressed by the constant dataset names the "
    "writer uses",
    "necessary conditions only",
]

READERS = ['type_assignment.election:run_type_assignment_on_h5ad_cpu',
           'type_assignment.matching:assemble_query_data',
           'type_assignment.marker_cache_v2:serialize_markers']
WRITER = 'type_assignment.marker_cache_v2:write_query_markers_to_h5'


def check(ctx):
    check_same_cache(ctx)
    check_roles(ctx)
    check_identity_assert(ctx)
    check_group_of_parent(ctx)
    # ... and a parent left with one usable marker is mapped with it
    # (rule of C02)
    from .C02 import check_sample_within_population
    check_sample_within_population(ctx)
    check_query_names_as_in_file(ctx)
    # the settings reach the stages as configured (sa/rules/forwarding.py)
    from ..rules.forwarding import check_config_settings_as_requested
    check_config_settings_as_requested(ctx, {'min_markers'})
    check_errors(ctx)
    check_single_child(ctx)
    check_empty_list_rejections(ctx)
    # marker columns are taken from the query by name, in the order asked
    # for (rule of C07)
    from .C07 import check_columns_by_name
    check_columns_by_name(ctx)
    check_patch_restricted(ctx)
    check_deepest_first(ctx)
    check_ancestors_nearest_first(ctx)
    # the ancestors consulted are found through the tree's child -> parent
    # table: it is keyed per level, never by label alone (rule of C10)
    from .C10 import check_node_identity
    check_node_identity(ctx, ('taxonomy.',), floor=3)
    check_lists_consulted_follow_tree(ctx)
    # under flatten the genes used (and reported) are the union of every
    # parent's list (shared with C17)
    from .C17 import check_flatten_union_complete
    check_flatten_union_complete(ctx)
    # settings this property depends on are handed down every call
    # chain, never left to a callee's default (sa/rules/forwarding.py)
    from ..rules.capacity import check_index_dtype
    n_cap = 0
    for fi_ in ctx.db.iter_functions():
        if fi_.module.short in ('type_assignment.marker_cache_v2',
                                'type_assignment.matching'):
            n_cap += check_index_dtype(ctx, fi_)
    ctx.ok('R-CAP/index-dtype', 'marker cache writers', 'package',
           f'{n_cap} explicitly typed store(s) of gene positions judged; '
           'stores without an explicit type take the default wide integer',
           nontrivial=False)
    from ..rules.forwarding import check_forwarding
    check_forwarding(ctx, {'min_markers', 'query_gene_names', 'reference_gene_names', 'log'})


def check_same_cache(ctx):
    db = ctx.db
    fi = db.fn('cli.from_specified_markers:_run_mapping')
    ctx.touch(fi)
    cfg = cfg_of(fi)
    rd = rd_of(fi)
    ex = Expander(fi)
    rule = 'R-SAMEVAL/marker-cache'
    want = {
        'type_assignment.marker_cache_v2:'
        'create_marker_cache_from_specified_markers': 'output_cache_path',
        'type_assignment.election_runner:run_type_assignment_on_h5ad':
        'marker_gene_cache_path',
        'type_assignment.marker_cache_v2:serialize_markers':
        'marker_cache_path'}
    got = dict()
    for node in cfg.nodes:
        if node.id not in rd.live:
            continue
        for c in cfg.calls_in(node):
            t = resolve_callee(db, fi, c)
            if isinstance(t, FunctionInfo) and t.qual in want:
                mapping, _ = bind_args(t, c)
                a = mapping.get(want[t.qual])
                got[t.qual] = (c, ex.expand(a, node.id)
                               if a is not None else None)
    ref = None
    for q in want:
        if q not in got:
            ctx.fail(rule, f'_run_mapping:{q.split(":")[1]}', fi.loc(),
                     f'{q.split(":")[1]} is not called')
            continue
        c, t = got[q]
        if ref is None:
            ref = t
        ok = t is not None and t == ref and T.has_call(t, 'mkstemp_clean')
        ctx.ob(rule, f'_run_mapping:{q.split(":")[1]}', fi.loc(c), ok,
               'uses the per-run marker cache file' if ok else
               f'{q.split(":")[1]} is given '
               f'{fmt_term(t)[:80] if t else None}, not the cache file '
               'the builder wrote: the markers reported are not the '
               'markers used')
    # the marker table embedded in the output is what serialize_markers
    # returned
    for node in cfg.nodes:
        if node.kind == 'stmt' and node.id in rd.live and isinstance(
                node.ast, ast.Assign):
            for tg in node.ast.targets:
                if isinstance(tg, ast.Subscript) and isinstance(
                        tg.slice, ast.Constant) \
                        and tg.slice.value == 'marker_genes':
                    t = ex.expand(node.ast.value, node.id)
                    ok = T.call_name(t) == 'serialize_markers'
                    ctx.ob(rule, "_run_mapping:output['marker_genes']",
                           fi.loc(node.ast), ok,
                           'the embedded marker table is read back from '
                           'the cache' if ok else
                           "output['marker_genes'] is "
                           f'{fmt_term(t)[:80]}, not the table read back '
                           'from the cache that was used')


def check_roles(ctx):
    db = ctx.db
    n = 0
    for q in READERS:
        n += R.check_reader_roles(ctx, db.fn(q))
        n += R.check_positions_not_fancy_indexed_raw(ctx, db.fn(q))
    if n < 4:
        raise AnalysisError(f'only {n} indexed name comprehensions found '
                            'in the cache readers')
    w = db.fn(WRITER)
    if R.check_writer_roles(ctx, w) < 6:
        raise AnalysisError('cache writer datasets not recognised')
    R.check_cosort(ctx, w)


def check_identity_assert(ctx):
    db = ctx.db
    fi = db.fn('type_assignment.matching:assemble_query_data')
    ctx.touch(fi)
    cfg = cfg_of(fi)
    rd = rd_of(fi)
    rule = 'R-MUST/same-genes-asserted'
    guards = []
    for n in cfg.nodes:
        if n.kind == 'if' and n.id in rd.live:
            t = n.ast.test
            if isinstance(t, ast.Compare) and len(t.ops) == 1 and \
                    isinstance(t.ops[0], ast.NotEq) and all(
                        isinstance(x, ast.Attribute)
                        and x.attr == 'gene_identifiers'
                        for x in (t.left, t.comparators[0])):
                raises = any(lab == 'true' and cfg.nodes[tt].kind
                             == 'raise' for (tt, lab) in cfg.succ[n.id])
                guards.append((n, raises))
    rets = [n for n in cfg.nodes if n.kind == 'return' and n.id in rd.live]
    ok = bool(guards) and all(g[1] for g in guards) and all(
        any(cfg.dominates(g[0].id, r.id) for g in guards) for r in rets)
    # and the two compared objects are the ones returned
    ctx.ob(rule, 'assemble_query_data:gene_identifiers', fi.loc(), ok,
           'the query and reference gene lists of a node are required to '
           'be identical before the data is returned' if ok else
           'assemble_query_data no longer raises when the selected query '
           'and reference gene lists differ (columns would be compared '
           'across different genes)')


def check_errors(ctx):
    db = ctx.db
    A.check_error_raises(ctx)
    n = 0
    for q in ('type_assignment.marker_cache_v2:validate_marker_lookup',
              'type_assignment.marker_cache_v2:'
              'create_marker_cache_from_specified_markers'):
        n += A.check_arms(ctx, db.fn(q))
    if n < 5:
        raise AnalysisError(f'only {n} log conditionals found in the '
                            'marker reconciliation functions')
    rule = 'R-MUST/marker-error-raises'
    # (a) marker not in the reference
    fi = db.fn('type_assignment.marker_cache_v2:'
               'create_marker_cache_from_specified_markers')
    _require_raise_under(ctx, fi, rule, 'marker-unknown-to-reference',
                         lambda sl: 'reference_gene_names' in sl.params
                         and not sl.has_call('intersection'),
                         'a marker that is not a reference gene (judged on '
                         'the whole marker table, before it is restricted '
                         'to the query)')
    # (b) no overlap with the query
    _require_raise_under(ctx, fi, rule, 'no-overlap-with-query',
                         lambda sl: 'query_gene_names' in sl.params
                         and sl.has_call('intersection'),
                         'a non-empty marker list sharing no gene with '
                         'the query')
    # (c) root without usable markers: validate_marker_lookup
    vf = db.fn('type_assignment.marker_cache_v2:validate_marker_lookup')
    cfg = cfg_of(vf)
    rd = rd_of(vf)
    # for the root, a lack of usable markers is never a mere warning:
    # under the assumption "this parent is the root" no warning call is
    # feasible inside the loop over parents.  The loop variable and the
    # string key of the parent are found by role: the target of the loop
    # over all_parents, and any variable one of whose definitions is the
    # constant 'None'
    from ..core.constprop import feasible
    parent_vars = set()
    for n_ in ast.walk(vf.node):
        if isinstance(n_, ast.For) and isinstance(n_.target, ast.Name):
            sl_ = backward_slice(vf, n_.iter)
            if sl_.has_attr('all_parents'):
                parent_vars.add(n_.target.id)
    if not parent_vars:
        raise AnalysisError('validate_marker_lookup: the loop over '
                            'all_parents was not found')
    key_vars = {d.name for d in rd.defs
                if isinstance(getattr(d, 'value', None), ast.Constant)
                and d.value.value == 'None'}

    def assume(e, env):
        if isinstance(e, ast.Compare) and len(e.ops) == 1 and isinstance(
                e.left, ast.Name) and e.left.id in key_vars \
                and isinstance(e.comparators[0], ast.Constant) \
                and e.comparators[0].value == 'None':
            if isinstance(e.ops[0], ast.Eq):
                return True
            if isinstance(e.ops[0], ast.NotEq):
                return False
        if isinstance(e, ast.Compare) and len(e.ops) == 1 and isinstance(
                e.left, ast.Name) and e.left.id in parent_vars \
                and isinstance(e.comparators[0], ast.Constant) \
                and e.comparators[0].value is None:
            if isinstance(e.ops[0], ast.Is):
                return True
            if isinstance(e.ops[0], ast.IsNot):
                return False
        return UNKNOWN
    feas = feasible(vf, assume, follow_exc=False)
    warn_nodes = []
    for nid in feas.nodes:
        node = cfg.nodes[nid]
        for c in cfg.calls_in(node):
            f = c.func
            if isinstance(f, ast.Attribute) and f.attr == 'warn':
                warn_nodes.append(node)
    root_feeds = not warn_nodes
    # what the root branch accumulates (`msg += ...`) must make a later
    # test raise
    accum = set()
    for nid in feas.nodes:
        st = cfg.nodes[nid].ast
        if cfg.nodes[nid].kind == 'stmt' and isinstance(
                st, ast.AugAssign) and isinstance(st.target, ast.Name):
            accum.add(st.target.id)
    ok = False
    for n_ in cfg.nodes:
        if n_.kind == 'if' and n_.id in rd.live:
            t = n_.ast.test
            names = {x.id for x in ast.walk(t) if isinstance(x, ast.Name)}
            if names & accum:
                for (tt, lab) in cfg.succ[n_.id]:
                    if lab == 'true':
                        okp, _p = cfg.must_pass(
                            tt, {cfg.exit},
                            lambda x: x.kind == 'raise' or any(
                                isinstance(c.func, ast.Attribute)
                                and c.func.attr == 'error'
                                for c in cfg.calls_in(x)),
                            edge_ok=lambda a, b, lab2: lab2 != 'exc')
                        if okp or cfg.nodes[tt].kind == 'raise':
                            ok = True
    ctx.ob(rule, 'validate_marker_lookup:root-without-markers', vf.loc(),
           ok and root_feeds,
           'a root without usable markers accumulates an error message '
           'that raises; no warning-only outcome is feasible for the root'
           if ok and root_feeds else
           'a root ("None") without usable markers can end in a warning '
           + (f'(`{warn_nodes[0].text()[:50]}` at L{warn_nodes[0].lineno})'
              if warn_nodes else '') + ' instead of an error')


def _require_raise_under(ctx, fi, rule, name, pred, what):
    """there is an `if` whose test's data slice satisfies pred and whose
    true branch raises on every path (raise or log.error)"""
    ctx.touch(fi)
    cfg = cfg_of(fi)
    rd = rd_of(fi)
    found = None
    for n in cfg.nodes:
        if n.kind != 'if' or n.id not in rd.live:
            continue
        sl = backward_slice(fi, n.ast.test, n.id)
        if not pred(sl):
            continue
        for (tt, lab) in cfg.succ[n.id]:
            if lab != 'true':
                continue
            okp, _p = cfg.must_pass(
                tt, {cfg.exit} | {x.id for x in cfg.nodes
                                  if x.kind in ('for', 'while')
                                  and _contains(x.ast, n.ast)},
                lambda x: x.kind == 'raise' or any(
                    isinstance(c.func, ast.Attribute)
                    and c.func.attr == 'error' for c in cfg.calls_in(x)),
                edge_ok=lambda a, b, lab2: lab2 != 'exc')
            if okp:
                found = n
    ctx.ob(rule, f'{fi.name}:{name}', fi.loc(found.ast) if found
           else fi.loc(), found is not None,
           f'{what} ends in a raise' if found is not None else
           f'{fi.name}: {what} no longer ends the run with an error')


def _contains(outer, inner):
    for sub in ast.walk(outer):
        if sub is inner and sub is not outer:
            return True
    return False


# ----------------------------------------------------------------------

# (function, how the single-child case is recognised)
CONSUMERS = [
    'type_assignment.marker_cache_v2:validate_marker_lookup',
    'type_assignment.utils:reconcile_taxonomy_and_markers',
    'type_assignment.marker_cache_v2:serialize_markers',
    'type_assignment.election:run_type_assignment',
]


def check_single_child(ctx):
    """fold the child-count predicates of each consumer at n=1 and n=2 by
    constant propagation: the statements that consult markers / vote are
    infeasible for a parent with one child and feasible for one with two
    """
    from ..core.constprop import feasible
    db = ctx.db
    rule = 'R-FOLD/single-child-exempt'
    for q in CONSUMERS:
        fi = db.fn(q)
        ctx.touch(fi)
        cfg = cfg_of(fi)
        rd = rd_of(fi)
        lencalls = []
        tests = []
        for n in cfg.nodes:
            if n.kind != 'if' or n.id not in rd.live:
                continue
            for x in ast.walk(n.ast.test):
                if isinstance(x, ast.Call) and isinstance(
                        x.func, ast.Name) and x.func.id == 'len' \
                        and x.args:
                    sl = backward_slice(fi, x.args[0], n.id)
                    if sl.has_call('children'):
                        lencalls.append(x)
                        tests.append(n)
        if not tests:
            ctx.fail(rule, f'{fi.qual}', fi.loc(),
                     f'{fi.name} has no test of the number of children of '
                     'a parent: single-child parents are not exempt from '
                     'needing markers')
            continue
        loop = _innermost_loop(tests[0].ast)
        loopvars = set()
        if isinstance(loop, ast.For):
            loopvars = {x.id for x in ast.walk(loop.target)
                        if isinstance(x, ast.Name)}
        regions = dict()
        for k in (1, 2):
            def assume(e, env, _ls=lencalls, _k=k, _lv=loopvars):
                if any(e is x for x in _ls):
                    return _k
                # the exemption concerns proper parents, not the root
                if isinstance(e, ast.Compare) and len(e.ops) == 1 \
                        and isinstance(e.left, ast.Name) \
                        and e.left.id in _lv and isinstance(
                            e.comparators[0], ast.Constant) \
                        and e.comparators[0].value is None:
                    if isinstance(e.ops[0], ast.Is):
                        return False
                    if isinstance(e.ops[0], ast.IsNot):
                        return True
                return UNKNOWN
            regions[k] = feasible(fi, assume, follow_exc=False).nodes

        def in_loop(node):
            return loop is None or (node.ast is not None and _contains(
                loop, node.ast))

        # variables that hold marker data: the marker parameters of the
        # function, handles opened on them, and what is computed from
        # those by builtins / methods (not the results of other pipeline
        # functions: the election's output is not marker data)
        marker_vars = {a for a in fi.params if 'marker' in a}
        changed = True
        while changed:
            changed = False
            for d in rd.defs:
                v = getattr(d, 'value', None)
                if v is None or d.name in marker_vars:
                    continue
                if isinstance(v, ast.Call) and isinstance(
                        resolve_callee(db, fi, v), FunctionInfo):
                    continue
                if any(isinstance(x, ast.Name) and x.id in marker_vars
                       for x in ast.walk(v)):
                    marker_vars.add(d.name)
                    changed = True

        def works(nid):
            """the statement consults the markers or runs the election"""
            node = cfg.nodes[nid]
            if node.kind in ('join', 'try', 'dispatch', 'with_exit',
                             'continue', 'break', 'entry'):
                return False
            for root in node.exprs:
                if root is None:
                    continue
                for x in ast.walk(root):
                    if isinstance(x, ast.Name) and isinstance(
                            x.ctx, ast.Load) and x.id in marker_vars:
                        return True
                    if isinstance(x, ast.Call):
                        t = resolve_callee(db, fi, x)
                        if isinstance(t, FunctionInfo) and (
                                t.name.startswith('_run_type_assignment')):
                            return True
            return False
        only2 = {i for i in regions[2] - regions[1]
                 if in_loop(cfg.nodes[i])}
        only1 = {i for i in regions[1] - regions[2]
                 if in_loop(cfg.nodes[i])}
        work2 = [i for i in only2 if works(i)]
        work1 = [i for i in only1 if works(i) and cfg.nodes[i].kind
                 != 'raise']
        ok = bool(work2) and not work1
        key = f'{fi.qual}:{tests[0].text()[:40]}'
        if ok:
            ctx.ok(rule, key, fi.loc(tests[0].ast),
                   'with one child the marker / election statements are '
                   f'unreachable ({len(work2)} such statements are reached '
                   'only with two or more children)')
        else:
            if not work2:
                why = ('no marker / election statement is specific to '
                       'parents with two or more children: the '
                       'child-count test does not separate 1 from 2')
            else:
                n1 = cfg.nodes[work1[0]]
                why = (f'`{n1.text()[:50]}` (L{n1.lineno}) is reached for '
                       'a parent with a single child')
            ctx.fail(rule, key, fi.loc(tests[0].ast),
                     f'{fi.name}: single-child parents are not exempt: '
                     + why)


def _innermost_loop(astn):
    p = getattr(astn, '_parent', None)
    while p is not None and not isinstance(p, (ast.FunctionDef,
                                               ast.AsyncFunctionDef)):
        if isinstance(p, (ast.For, ast.While)):
            return p
        p = getattr(p, '_parent', None)
    return None


def check_patch_restricted(ctx):
    db = ctx.db
    fi = db.fn('type_assignment.marker_cache_v2:validate_marker_lookup')
    cfg = cfg_of(fi)
    rd = rd_of(fi)
    rule = 'R-PROV/patch-restricted-to-query'
    n = 0
    for node in cfg.nodes:
        if node.kind == 'stmt' and node.id in rd.live and isinstance(
                node.ast, ast.Assign):
            for tg in node.ast.targets:
                if isinstance(tg, ast.Subscript) and isinstance(
                        tg.value, ast.Name) \
                        and tg.value.id == 'marker_lookup' \
                        and not isinstance(node.ast.value, ast.List):
                    n += 1
                    sl = backward_slice(fi, node.ast.value, node.id)
                    ok = sl.has_call('intersection') and \
                        'query_gene_names' in sl.params
                    ctx.ob(rule, f'validate_marker_lookup:{unparse(tg)}',
                           fi.loc(node.ast), ok,
                           'the augmented list is intersected with the '
                           'query genes' if ok else
                           'the augmented marker list is stored without '
                           'being restricted to genes present in the '
                           'query')
    if n == 0:
        ctx.fail(rule, 'validate_marker_lookup', fi.loc(),
                 'the ancestor fallback never stores an augmented list')


def check_deepest_first(ctx):
    """validate_marker_lookup patches the lookup in place (it stores the
    augmented list under the parent) and reads the lists of a parent's
    ancestors while patching.  For a descendant to see its ancestors'
    *original* lists -- "ancestors' lists, nearest first, until the minimum
    is reached" -- descendants have to be processed before their
    ancestors: the loop walks TaxonomyTree.all_parents (built root first,
    level by level) in reverse."""
    db = ctx.db
    rule = 'R-PROV/deepest-first'
    # producer side: all_parents lists the root, then the levels in
    # hierarchy order, and nothing re-orders the list afterwards
    ap = db.fn('taxonomy.taxonomy_tree:TaxonomyTree.all_parents')
    ctx.touch(ap)
    acfg = cfg_of(ap)
    ard = rd_of(ap)
    aex = Expander(ap)
    okp = False
    why = 'the loop over the hierarchy was not found'
    for n_ in acfg.nodes:
        if n_.kind == 'for' and n_.id in ard.live:
            t_ = aex.expand(n_.ast.iter, n_.id)
            if any(x == ('const', "'hierarchy'") for x in T.subterms(t_)) \
                    and not any(x[0] == 'call' for x in T.subterms(t_)):
                okp = True
    reorder = sorted({
        (c.func.attr if isinstance(c.func, ast.Attribute) else c.func.id)
        for c in ast.walk(ap.node) if isinstance(c, ast.Call)
        and isinstance(c.func, (ast.Attribute, ast.Name))
        and (c.func.attr if isinstance(c.func, ast.Attribute)
             else c.func.id) in ('sort', 'sorted', 'reverse', 'reversed',
                                 'set', 'shuffle')})
    if reorder:
        okp = False
        why = f'the list is re-ordered ({", ".join(reorder)})'
    ctx.ob(rule, 'TaxonomyTree.all_parents:order', ap.loc(), okp,
           'parents are listed root first, then level by level in '
           'hierarchy order' if okp else
           f'all_parents: {why}; validate_marker_lookup walks the list in '
           'reverse to treat descendants before their ancestors, which '
           'only works for a list in hierarchy order')
    fi = db.fn('type_assignment.marker_cache_v2:validate_marker_lookup')
    cfg = cfg_of(fi)
    rd = rd_of(fi)
    loops = []
    for n_ in cfg.nodes:
        if n_.kind == 'for' and n_.id in rd.live:
            sl = backward_slice(fi, n_.ast.iter, n_.id)
            if sl.has_attr('all_parents'):
                loops.append(n_)
    if not loops:
        raise AnalysisError('validate_marker_lookup: the loop over '
                            'all_parents was not found')
    lp = loops[0]
    body = lp.ast
    stores = [s for s in ast.walk(body) if isinstance(s, ast.Assign)
              and isinstance(s.targets[0], ast.Subscript)
              and isinstance(s.targets[0].value, ast.Name)
              and s.targets[0].value.id == 'marker_lookup'
              and not isinstance(s.value, ast.List)]
    reads_other = False
    keyvars = {x.id for s in stores for x in ast.walk(s.targets[0].slice)
               if isinstance(x, ast.Name)}
    for e in ast.walk(body):
        if isinstance(e, ast.Subscript) and isinstance(
                e.ctx, ast.Load) and isinstance(e.value, ast.Name) \
                and e.value.id == 'marker_lookup':
            names = {x.id for x in ast.walk(e.slice)
                     if isinstance(x, ast.Name)}
            if names and not (names & keyvars):
                reads_other = True
    if not (stores and reads_other):
        ctx.ok(rule, 'validate_marker_lookup:order', fi.loc(lp.ast),
               'the patching does not read lists it may have patched '
               'earlier: the order of the parents does not matter',
               nontrivial=False)
        return
    it = lp.ast.iter
    ok = False
    how = ''
    if isinstance(it, ast.Call) and isinstance(it.func, ast.Name) \
            and it.func.id == 'reversed':
        ok, how = True, 'reversed(...)'
    elif isinstance(it, ast.Subscript) and isinstance(
            it.slice, ast.Slice) and it.slice.step is not None \
            and unparse(it.slice.step) == '-1':
        ok, how = True, '[::-1]'
    elif isinstance(it, ast.Name):
        rev_nodes = {mn for (mn, astn, h) in rd.mutations(it.id)
                     if h == 'reverse'}
        defs = rd.reaching(it.id, lp.id)

        def _reversed_value(v):
            """the definition itself is a reversed copy"""
            while isinstance(v, ast.Call) and isinstance(
                    v.func, ast.Name) and v.func.id in ('list', 'tuple') \
                    and v.args:
                v = v.args[0]
            if isinstance(v, ast.Call) and isinstance(
                    v.func, ast.Name) and v.func.id == 'reversed':
                return True
            return isinstance(v, ast.Subscript) and isinstance(
                v.slice, ast.Slice) and v.slice.step is not None \
                and unparse(v.slice.step) == '-1' \
                and v.slice.lower is None and v.slice.upper is None
        ok = bool(defs)
        n_rev = 0
        for d in defs:
            by_def = _reversed_value(getattr(d, 'value', None))
            okp, _p = cfg.must_pass(
                d.node, {lp.id}, lambda x: x.id in rev_nodes,
                edge_ok=lambda a, b, lab: lab != 'exc')
            by_mut = bool(rev_nodes) and okp
            # exactly one reversal on the way (two cancel)
            if by_def == by_mut or (by_mut and len(rev_nodes) != 1):
                ok = False
            n_rev += 1
        how = 'a reversed copy / .reverse() before the loop'
    ctx.ob(rule, 'validate_marker_lookup:order', fi.loc(lp.ast), ok,
           f'parents are visited deepest first ({how})' if ok else
           'the loop stores augmented lists into marker_lookup and reads '
           "ancestors' lists from it, but visits all_parents root first: "
           'a descendant is patched with lists that already contain '
           "higher levels' markers, not with its ancestors' own lists")


def check_lists_consulted_follow_tree(ctx):
    """while reconciling the markers of a parent, validate_marker_lookup
    consults only lists that the (possibly reduced) taxonomy gives it a
    right to: the parent's own list, the lists of its ancestors, and the
    root's.  The key of every read of the table therefore derives from the
    tree (all_parents / parents) or is the constant 'None'; a read whose
    key comes from iterating the table itself pulls in the groups of nodes
    the tree no longer has (a dropped level), or of unrelated branches."""
    db = ctx.db
    fi = db.fn('type_assignment.marker_cache_v2:validate_marker_lookup')
    ctx.touch(fi)
    cfg = cfg_of(fi)
    rd = rd_of(fi)
    ex = Expander(fi)
    rule = 'R-PROV/lists-consulted-follow-tree'
    n = 0
    for node in cfg.nodes:
        if node.id not in rd.live:
            continue
        for root in node.exprs:
            if root is None:
                continue
            for e in ast.walk(root):
                if not (isinstance(e, ast.Subscript) and isinstance(
                        e.ctx, ast.Load) and isinstance(e.value, ast.Name)
                        and e.value.id == 'marker_lookup'):
                    continue
                n += 1
                t = ex.expand(e.slice, node.id)
                txt = fmt_term(t)
                from_tree = T.has_call(t, 'parents') or any(
                    isinstance(st, tuple) and st and st[0] == 'attr'
                    and st[-1] == 'all_parents' for st in T.subterms(t))
                const_root = t == ('const', "'None'")
                from_table = False
                for st in T.subterms(t):
                    if isinstance(st, tuple) and st and st[0] == 'iterelem':
                        it = st[1]
                        if it == ('param', 'marker_lookup') or (
                                isinstance(it, tuple) and T.contains(
                                    it, ('param', 'marker_lookup'))
                                and not T.contains(it, ('param',
                                                        'taxonomy_tree'))):
                            from_table = True
                ok = (from_tree or const_root) and not from_table
                ctx.ob(rule, f'validate_marker_lookup:read#{n - 1}',
                       fi.loc(e), ok,
                       'the list consulted belongs to the parent, one of '
                       'its ancestors or the root' if ok else
                       f'`{unparse(e)[:50]}` consults a list whose key '
                       f'({txt[:60]}) does not come from the taxonomy: '
                       'groups of nodes outside the parent\'s lineage '
                       '(e.g. of a dropped level) enter its markers')
    if n < 3:
        raise AnalysisError('validate_marker_lookup: only {n} reads of the '
                            'marker table found')


def check_empty_list_rejections(ctx):
    """a parent with a single child needs no markers, so its list may be
    empty (the documentation says so for the root, too).  Wherever the
    mapping path rejects a run because a marker list read from the cache
    is empty, the number of children has to be part of the decision: a
    rejection on emptiness alone refuses taxonomies the property says are
    mapped."""
    db = ctx.db
    rule = 'R-GUARD/empty-list-rejection'
    roots = ['type_assignment.election_runner:run_type_assignment_on_h5ad',
             'cli.from_specified_markers:_run_mapping']
    closure = ctx.cg.reachable([r for r in roots if r in db.functions])
    n_fn = n_rej = 0
    for q in sorted(closure):
        fi = db.functions.get(q)
        if fi is None or fi.module.short.startswith(('gpu_utils',)):
            continue
        n_fn += 1
        cfg = None
        for node in ast.walk(fi.node):
            if not isinstance(node, ast.Raise):
                continue
            # the tests this raise sits under
            tests = []
            p_ = getattr(node, '_parent', None)
            while p_ is not None and p_ is not fi.node:
                if isinstance(p_, ast.If):
                    tests.append(p_)
                p_ = getattr(p_, '_parent', None)
            if not tests:
                continue
            if cfg is None:
                cfg = cfg_of(fi)
                rd = rd_of(fi)
            empties = []
            children_seen = False
            for iff in tests:
                ns = [x for x in cfg.nodes_of(iff) if x.kind == 'if'
                      and x.id in rd.live]
                if not ns:
                    continue
                sl = backward_slice(fi, iff.test, ns[0].id)
                if sl.has_call('children') or sl.has_call(
                        'children_as_leaves'):
                    children_seen = True
                if _is_emptiness_of_cache_list(fi, iff.test, sl):
                    empties.append(iff)
            if not empties:
                continue
            n_rej += 1
            ctx.touch(fi)
            ctx.ob(rule, f'{fi.qual}:raise#{n_rej - 1}', fi.loc(node),
                   children_seen,
                   'the rejection also looks at the number of children'
                   if children_seen else
                   f'`{unparse(empties[0].test)[:60]}` rejects the run '
                   'because a marker list of the cache is empty, without '
                   'looking at the number of children of that parent: a '
                   'parent (or root) with a single child may have no '
                   'markers')
    ctx.ok(rule + '/scan', 'mapping path', 'package',
           f'{n_fn} functions reachable from the mapping entry points '
           f'scanned, {n_rej} rejection(s) on an empty marker list',
           nontrivial=False)


def _is_emptiness_of_cache_list(fi, test, sl):
    """`len(x) == 0`, `x.shape[0] == 0`, `x.size == 0`, `not x` where x
    is read from an HDF5 file opened on a marker-cache path"""
    ok_shape = False
    for c in ast.walk(test):
        if isinstance(c, ast.Compare) and len(c.ops) == 1 and isinstance(
                c.ops[0], (ast.Eq, ast.Lt, ast.LtE)) and isinstance(
                    c.comparators[0], ast.Constant) \
                and c.comparators[0].value in (0, 1):
            if isinstance(c.ops[0], ast.Lt) and c.comparators[0].value != 1:
                continue
            if isinstance(c.ops[0], ast.LtE) and c.comparators[0].value != 0:
                continue
            if isinstance(c.ops[0], ast.Eq) and c.comparators[0].value != 0:
                continue
            ok_shape = True
        if isinstance(c, ast.UnaryOp) and isinstance(c.op, ast.Not) \
                and isinstance(c.operand, (ast.Name, ast.Subscript,
                                            ast.Attribute)):
            ok_shape = True
    if not ok_shape:
        return False
    # derives from an h5py.File(...) on a parameter that names a marker
    # cache
    for c in sl.calls:
        f = c.func
        nm = f.attr if isinstance(f, ast.Attribute) else (
            f.id if isinstance(f, ast.Name) else None)
        if nm == 'File' and c.args:
            for x in ast.walk(c.args[0]):
                if isinstance(x, ast.Name) and 'marker' in x.id:
                    return True
    return False


def check_group_of_parent(ctx, rule='R-PROV/group-of-parent'):
    """the marker positions used for a parent are read from the cache
    group named after that parent: the group object whose 'reference' /
    'query' datasets are read has, on every path, one and the same key
    expression, and that expression derives from `parent_node` alone.  A
    second key (another parameter, a constant) on some path maps the
    parent's cells with another node's genes while the output still
    reports the parent's own list."""
    db = ctx.db
    fi = db.fn('type_assignment.matching:assemble_query_data')
    ctx.touch(fi)
    cfg = cfg_of(fi)
    rd = rd_of(fi)
    ex = Expander(fi)
    n = 0
    for node in cfg.nodes:
        if node.id not in rd.live or node.ast is None:
            continue
        for sub in (node.ast,):
            for s in ast.walk(sub):
                if not (isinstance(s, ast.Subscript) and isinstance(
                        s.ctx, ast.Load) and isinstance(
                            s.slice, ast.Constant) and s.slice.value in (
                                'reference', 'query')
                        and isinstance(s.value, ast.Name)):
                    continue
                if node.kind not in ('stmt', 'return'):
                    continue
                t = ex.expand(s.value, node.id)
                keys = set()
                shape_ok = True
                for alt in term_alts(t):
                    if isinstance(alt, tuple) and alt and alt[0] == 'sub':
                        keys.add(alt[2])
                    else:
                        shape_ok = False
                params = set()
                for k in keys:
                    params |= set(T.params_in(k))
                n += 1
                ok = shape_ok and len(keys) == 1 and params == {
                    'parent_node'}
                ctx.ob(rule, f'{fi.qual}:{s.slice.value}#{n - 1}',
                       fi.loc(s), ok,
                       f"'{s.slice.value}' positions are read from the "
                       'group keyed by parent_node' if ok else
                       f"`{unparse(s)}` reads the '{s.slice.value}' "
                       'positions from a group addressed by '
                       + ' or '.join(sorted(fmt_term(k)[:50]
                                            for k in keys) or ['?'])
                       + f' (parameters {sorted(params)}): on some path '
                       'the genes used for this parent are those of '
                       'another group, not the ones reported for it')
    if n < 2:
        raise AnalysisError('assemble_query_data: the reads of the '
                            "'reference' and 'query' positions of the "
                            'parent group were not found')


def check_query_names_as_in_file(ctx, rule='R-PROV/query-names-as-in-file'):
    """genes are reconciled *by name*: marker table, reference and query
    are compared by the identifiers as they stand.  When no mapping to
    Ensembl was asked for (map_to_ensembl false), the list of query gene
    names handed to the reconciliation is the var index of the query file
    as read: under that assumption every definition of the returned list
    that can reach the return of _get_query_gene_names is the plain read
    (`list(var.index.values)`), with no per-name rewriting (comprehension,
    split / replace / strip / upper ...) in between."""
    from ..core.constprop import feasible
    db = ctx.db
    fi = db.fn('utils.cli_utils:_get_query_gene_names')
    ctx.touch(fi)
    cfg = cfg_of(fi)
    rd = rd_of(fi)

    def assume(e, env):
        if isinstance(e, ast.Name) and e.id == 'map_to_ensembl':
            return False
        return UNKNOWN
    feas = feasible(fi, assume, follow_exc=False)
    n = 0
    for r in cfg.nodes:
        if r.kind != 'return' or r.id not in feas.nodes \
                or r.ast.value is None:
            continue
        v = r.ast.value
        first = v.elts[0] if isinstance(v, ast.Tuple) and v.elts else v
        exprs = []
        if isinstance(first, ast.Name):
            for d in rd.reaching(first.id, r.id):
                if d.node in feas.nodes and getattr(
                        d, 'value', None) is not None:
                    exprs.append(d.value)
        else:
            exprs.append(first)
        for e in exprs:
            n += 1
            bad = None
            for x in ast.walk(e):
                if isinstance(x, (ast.ListComp, ast.GeneratorExp,
                                  ast.DictComp, ast.SetComp, ast.Lambda)):
                    bad = x
                elif isinstance(x, ast.Call):
                    f = x.func
                    nm = f.attr if isinstance(f, ast.Attribute) else \
                        getattr(f, 'id', None)
                    if nm not in ('list', 'array', 'asarray', 'tolist',
                                  'to_numpy', 'read_df_from_h5ad'):
                        bad = x
            ctx.ob(rule, f'{fi.qual}:names#{n - 1}', fi.loc(e), bad is None,
                   'without a mapping the query gene names are the var '
                   'index as read' if bad is None else
                   f'with map_to_ensembl false the query gene names are '
                   f'`{unparse(e)[:70]}`: the names are rewritten before '
                   'they are compared with the marker table, so a marker '
                   'present in the query under its own name is not found')
    if n == 0:
        raise AnalysisError('_get_query_gene_names: no feasible return '
                            'under map_to_ensembl=False')


def check_ancestors_nearest_first(ctx, rule='R-PROV/ancestors-nearest-first'):
    """a parent short of markers is completed from the lists of its
    ancestors, *nearest first*, stopping when the minimum is reached.  The
    patching loop of validate_marker_lookup therefore walks the ancestor
    levels from the deepest upwards: its iterable is the reversed
    hierarchy (a reversed copy, `[::-1]`, `reversed(..)`), or -- when it
    walks the table `taxonomy_tree.parents(..)` returns -- that table is
    handed out as it was filled, by a loop that climbs from the node
    (descending level index), with no re-keying in hierarchy order."""
    db = ctx.db
    fi = db.fn('type_assignment.marker_cache_v2:validate_marker_lookup')
    ctx.touch(fi)
    cfg = cfg_of(fi)
    rd = rd_of(fi)
    ex = Expander(fi)
    loops = []
    for lp in ast.walk(fi.node):
        if isinstance(lp, ast.For) and any(
                isinstance(c, ast.Call) and getattr(
                    c.func, 'attr', None) == 'union' and any(
                        isinstance(x, ast.Subscript) and isinstance(
                            x.value, ast.Name)
                        and x.value.id == 'marker_lookup'
                        for x in ast.walk(c))
                for c in ast.walk(lp)) and any(
                    isinstance(b, ast.Break) for b in ast.walk(lp)):
            # innermost such loop
            if not any(isinstance(x, ast.For) and x is not lp and any(
                    isinstance(b, ast.Break) for b in ast.walk(x))
                    for x in ast.walk(lp)):
                loops.append(lp)
    if not loops:
        raise AnalysisError('validate_marker_lookup: the loop that adds '
                            'ancestor lists was not found')
    for k, lp in enumerate(loops):
        ns = [x for x in cfg.nodes_of(lp) if x.kind == 'for'
              and x.id in rd.live]
        if not ns:
            continue
        t = ex.expand(lp.iter, ns[0].id)
        is_rev = False
        # reversed copy of the hierarchy: name mutated by .reverse(), a
        # [::-1] slice or reversed()
        if isinstance(lp.iter, ast.Name):
            for (mn, astn, how) in rd.mutations(lp.iter.id):
                if how == 'reverse' or (isinstance(astn, ast.Call)
                                        and getattr(astn.func, 'attr',
                                                    None) == 'reverse'):
                    is_rev = True
        for x in T.subterms(t):
            if isinstance(x, tuple) and x and x[0] == 'call' \
                    and T.call_name(x) == 'reversed':
                is_rev = True
            if isinstance(x, tuple) and x and x[0] == 'slice' and x[3] in (
                    ('unop', 'USub', ('const', '1')), ('const', '-1')):
                is_rev = True
        from_hier = any(x == ('const', "'hierarchy'") or (
            isinstance(x, tuple) and x and x[0] == 'attr'
            and x[2] == 'hierarchy') for x in T.subterms(t))
        from_parents = any(isinstance(x, tuple) and x and x[0] == 'call'
                           and T.call_name(x) == 'parents'
                           for x in T.subterms(t))
        ok = False
        why = f'it walks {fmt_term(t)[:60]}'
        if from_hier and is_rev and not from_parents:
            ok = True
        elif from_parents:
            # the table as parents() fills it
            pf = db.fn('taxonomy.taxonomy_tree:TaxonomyTree.parents')
            ctx.touch(pf)
            pcfg = cfg_of(pf)
            prd = rd_of(pf)
            rets = [r for r in pcfg.nodes if r.kind == 'return'
                    and r.id in prd.live]
            as_filled = all(isinstance(r.ast.value, ast.Name)
                            for r in rets)
            climbing = False
            for l2 in ast.walk(pf.node):
                if isinstance(l2, ast.For) and isinstance(
                        l2.iter, ast.Call) and getattr(
                            l2.iter.func, 'id', None) == 'range' \
                        and len(l2.iter.args) == 3:
                    st = l2.iter.args[2]
                    neg = isinstance(st, ast.UnaryOp) and isinstance(
                        st.op, ast.USub)
                    fills = any(isinstance(a, ast.Assign) and isinstance(
                        a.targets[0], ast.Subscript) and rets
                        and isinstance(rets[0].ast.value, ast.Name)
                        and isinstance(a.targets[0].value, ast.Name)
                        and a.targets[0].value.id == rets[0].ast.value.id
                        for a in ast.walk(l2))
                    if neg and fills:
                        climbing = True
            ok = as_filled and climbing
            why = ('it walks the table of taxonomy_tree.parents(), which '
                   + ('is handed out as filled while climbing from the '
                      'node' if ok else
                      'is not handed out in the order it was filled while '
                      'climbing from the node (re-keyed, or filled top '
                      'down)'))
        ctx.ob(rule, f'validate_marker_lookup:loop#{k}', fi.loc(lp), ok,
               'ancestor lists are added nearest first' if ok else
               f'the loop that adds ancestor lists does not go nearest '
               f'first: {why}; a parent short of markers is completed '
               'from a far ancestor while a nearer one would have '
               'sufficed')
