"""
C12 -- the selected query markers cover every cluster pair as far as
possible.

The coverage guarantee is the terminal state of a greedy loop over runtime
arrays; whether a given marker table ends up covered is a fact about
values and is not decided here.  What is decided is the part of each
clause that is visible in the shape of the selection code -- each item a
necessary condition of a clause of the statement:

 1. the greedy loop stops only when no gene has utility left or every
    (pair, direction) slot is filled, both tested on freshly updated
    state; every other turn of the loop selects a gene
 2. a slot counts as filled only when it holds the target (and both
    directions of the pair could), when it holds every marker the pair
    has in that direction, or when the pair holds twice the target --
    the three conditions under which stopping keeps
    min(2 * target, available) markers per pair
 3. "could" means both directions have at least the target in the census
 4. a gene is selected at most once: its utility is struck out, its index
    recorded, a second selection raises; the name recorded is the name of
    that index
 5. pairs with at most the target number of markers have all of them
    taken up front
 6. selection works on the reference table thinned to the query genes
 7. the pairs are those the taxonomy says the parent must discriminate,
    and the utility is counted over exactly those
 8. counts: an up-regulated marker is counted in column 1, a
    down-regulated one in column 0, both in the aggregate, and the
    filled-slot bookkeeping reads the columns the same way
 9. a parent with nothing to discriminate gets the empty list
10. per-parent overrides of the target reach the worker of that parent
"""
import ast

from ..core.cfg import cfg_of
from ..core.defuse import rd_of, Expander, fmt_term, term_alts
from ..core import terms as T
from ..core import poly as P
from ..core.loader import unparse, AnalysisError, FunctionInfo
from ..core.resolve import resolve_callee, bind_args
from ..core.slicing import backward_slice

ID = 'C12'

EXPLANATION = (
    "Static analysis of the query-marker selection (marker_selection/"
    "selection.py, utils.py, selection_pipeline.py): CFG must-pass "
    "checks show that the greedy loop leaves only when no gene has "
    "utility left or every (pair, direction) slot is filled, that both "
    "tests follow the state update of the same turn and that every other "
    "turn selects a gene; symbolic terms show that a slot is declared "
    "filled only under the three conditions that keep min(2 x target, "
    "available) markers per pair (target reached where both directions "
    "could reach it, every marker of the slot taken, twice the target for "
    "the pair), that 'could' is a census of at least the target in both "
    "directions, that a selected gene is struck from the utility, "
    "recorded and never selected again, that pairs with at most the "
    "target number of markers are exhausted up front, that selection runs "
    "on the table thinned to the query genes and on exactly the pairs "
    "leaves_to_compare lists for the parent, that up / down markers are "
    "counted in the columns the filled-slot bookkeeping reads, that a "
    "parent without pairs gets the empty list, and that per-parent "
    "overrides of the target reach that parent's worker. Whether a given "
    "table ends up covered is a fact about values and is not decided; "
    "independence of worker count is decided under C04.")

EXPLANATION += (
    " Round 6: the markers of a desperate pair are read at the pair's table index (R-COVER/desperate-pairs/pair-index)."
)

EXPLANATION += (
    " Round 8: filled slots are reported to the utility update by the pair's table index."
)

EXPLANATION += (
    ' Round 11: index arrays of the re-shaped marker table are not forced into the type of an input array (R-CAP/index-cast-to-input-type).'
)

EXPLANATION += (
    ' Round 13: the selection functions compute every output from the selection on every return (R-AGREE/returns-depend-alike).'
)

EXPLANATION += (
    ' Round 16: whole-array casts to a chosen integer type are sized from a bound of the kind of what the array holds (R-CAP/bound-kind).'
)

RULE_TEXT = (
    "one obligation per loop exit, per filled-slot condition, per "
    "bookkeeping store and per provenance relation")

ASSUMPTIONS = [
    "MarkerGeneArray masks (marker_mask_from_pair_idx, up_mask_...) "
    "return what their names say; their implementation is covered by the "
    "index-space and cursor rules of C13",
    "necessary conditions only: the terminal state of the loop for a "
    "given table is not computed",
]

SEL = 'marker_selection.selection:'


def check(ctx):
    check_greedy_exits(ctx)
    check_filled_conditions(ctx)
    check_selected_once(ctx)
    check_desperate(ctx)
    check_query_genes(ctx)
    check_pairs_of_parent(ctx)
    check_count_columns(ctx)
    check_nothing_to_discriminate(ctx)
    check_override(ctx)
    # the marker table the selection works on is the one in the reference
    # marker file, thinned to the query genes by re-shaping its sparse
    # arrays: the index arrays keep an integer type that holds their
    # values through that re-shaping (sa/rules/capacity.py)
    from ..rules.idioms import check_returns_depend_alike
    from ..rules.capacity import (check_index_cast_to_input_dtype,
                                  check_index_arithmetic_widened,
                                  check_borrowed_dtype)
    n_fn = 0
    for fi_ in ctx.db.iter_functions():
        if fi_.module.short in ('utils.csc_to_csr',
                                'utils.csc_to_csr_parallel',
                                'utils.sparse_utils',
                                'marker_selection.marker_array',
                                'diff_exp.sparse_markers'):
            n_fn += 1
            check_index_cast_to_input_dtype(ctx, fi_)
            check_index_arithmetic_widened(ctx, fi_)
            check_borrowed_dtype(ctx, fi_)
            check_returns_depend_alike(ctx, fi_)
    ctx.ok('R-CAP/index-cast-to-input-type', 're-shaping of the marker '
           'table', 'package', f'{n_fn} functions of the transposition '
           'and marker-array modules: no index array is forced into the '
           'type of an input array or multiplied by a size unwidened',
           nontrivial=True)
    from ..rules.forwarding import check_forwarding
    check_forwarding(ctx, {
        'n_per_utility', 'genes_at_a_time', 'query_gene_names',
        'n_per_utility_override', 'behemoth_cutoff', 'parent_node',
        'marker_census', 'are_possible'})


def _fn(ctx, q):
    fi = ctx.db.fn(q)
    ctx.touch(fi)
    return fi, cfg_of(fi), rd_of(fi), Expander(fi)


def _has(t, pred):
    """some sub-term satisfies pred"""
    return any(pred(x) for x in T.subterms(t))


def _cname(t):
    return T.call_name(t) if isinstance(t, tuple) and t and t[0] == 'call' \
        else None


def _calls_to(ctx, fi, cfg, rd, target):
    out = []
    for n in cfg.nodes:
        if n.id not in rd.live:
            continue
        for c in cfg.calls_in(n):
            if resolve_callee(ctx.db, fi, c) is target:
                out.append((n, c))
    return out


# ----------------------------------------------------------------------
# 1. exits of the greedy loop
# ----------------------------------------------------------------------

def check_greedy_exits(ctx):
    rule = 'R-MUST/greedy-exits'
    fi, cfg, rd, ex = _fn(ctx, SEL + '_run_selection')
    upd = ctx.db.fn(SEL + '_update_been_filled')
    choose = ctx.db.fn(SEL + '_choose_gene')
    loops = [w for w in ast.walk(fi.node) if isinstance(w, ast.While)
             and any(resolve_callee(ctx.db, fi, c) is choose
                     for c in ast.walk(w) if isinstance(c, ast.Call))]
    if len(loops) != 1:
        raise AnalysisError('_run_selection: the greedy loop (a while loop '
                            'that calls _choose_gene) was not found')
    loop = loops[0]
    inside = {n.id for st in loop.body for sub in ast.walk(st)
              if isinstance(sub, ast.stmt) for n in cfg.nodes_of(sub)}
    upd_nodes = {n.id for (n, c) in _calls_to(ctx, fi, cfg, rd, upd)
                 if n.id in inside}
    choose_nodes = {n.id for (n, c) in _calls_to(ctx, fi, cfg, rd, choose)
                    if n.id in inside}
    hdr = [n for n in cfg.nodes_of(loop) if n.kind == 'while']
    if not hdr or not upd_nodes:
        raise AnalysisError('_run_selection: loop header / state update '
                            'not found')
    hdr = hdr[0]
    # the loop condition itself
    cond = ex.expand(loop.test, hdr.id)
    always = cond == ('const', 'True')
    exits = []
    if not always:
        exits.append((hdr, cond, 'loop-condition', True))
    for n in cfg.nodes:
        if n.kind == 'break' and n.id in inside and n.id in rd.live:
            # innermost loop must be this one
            p_ = getattr(n.ast, '_parent', None)
            while p_ is not None and not isinstance(
                    p_, (ast.While, ast.For)):
                p_ = getattr(p_, '_parent', None)
            if p_ is not loop:
                continue
            g = getattr(n.ast, '_parent', None)
            if not isinstance(g, ast.If):
                exits.append((n, None, 'break', False))
                continue
            gn = [x for x in cfg.nodes_of(g) if x.kind == 'if'][0]
            t = ex.expand(g.test, gn.id)
            in_body = n.ast in g.body
            exits.append((gn, t, 'break', in_body))
    if not exits:
        ctx.fail(rule, '_run_selection:exits', fi.loc(loop),
                 'the greedy loop has no exit')
        return

    def kind_of(t, polarity):
        """'no-utility' / 'all-filled' / None for the condition under
        which the loop is left"""
        if t is None:
            return None
        lf = T.lt_form(t)
        while t[0] == 'unop' and t[1] == 'Not':
            # (lt_form has looked through the negations already)
            polarity = not polarity
            t = t[2]
            lf = T.lt_form(t)
        if not polarity and lf is not None:
            lf = ('LtE' if lf[0] == 'Lt' else 'Lt', lf[2], lf[1])
        if lf is not None:
            small, big = lf[1], lf[2]
            # utility.max() <= 0   /  utility.max() < 1
            if _cname(small) == 'max' and _has(
                    small, lambda x: _cname(x) == '_update_been_filled'):
                if (lf[0] == 'LtE' and big == ('const', '0')) or (
                        lf[0] == 'Lt' and big == ('const', '1')):
                    return 'no-utility'
            # size <= filled.sum()
            if _cname(big) == 'sum' and lf[0] == 'LtE':
                return 'all-filled' if _is_size_of_filled(small, big) \
                    else None
        if t[0] == 'cmp' and t[1] == ('Eq',) and polarity:
            a, b = t[2], t[3][0]
            for x, y in ((a, b), (b, a)):
                if _cname(x) == 'sum' and _is_size_of_filled(y, x):
                    return 'all-filled'
        if t[0] == 'cmp' and t[1] == ('NotEq',) and not polarity:
            a, b = t[2], t[3][0]
            for x, y in ((a, b), (b, a)):
                if _cname(x) == 'sum' and _is_size_of_filled(y, x):
                    return 'all-filled'
        return None

    kinds = set()
    for k, (gn, t, what, pol) in enumerate(exits):
        kd = kind_of(t, pol if what == 'break' else False)
        ok = kd is not None
        if ok:
            kinds.add(kd)
        ctx.ob(rule, f'_run_selection:exit#{k}', fi.loc(gn.ast), ok,
               f'the loop is left when {kd.replace("-", " ")}' if ok else
               'the greedy loop can be left on '
               f'`{unparse(gn.ast.test)[:60] if hasattr(gn.ast, "test") else "an unconditional break"}`'
               ': neither "no gene has utility left" nor "every slot is '
               'filled" -- pairs that could still gain markers are '
               'abandoned')
        if ok:
            # tested on the state of this turn: the update precedes it
            p = cfg.path(hdr.id, {gn.id},
                         avoid=lambda x: x.id in upd_nodes,
                         edge_ok=lambda a, b, lab: lab != 'exc')
            fresh = p is None or gn.id == hdr.id
            if gn.id == hdr.id:
                # a loop condition is evaluated before the body: the
                # update must close the previous turn
                fresh = all(cfg.path(c_, {hdr.id}, avoid=lambda x: x.id
                                     in upd_nodes, edge_ok=lambda a, b,
                                     lab: lab != 'exc') is None
                            for c_ in choose_nodes)
            ctx.ob(rule, f'_run_selection:exit#{k}:fresh', fi.loc(gn.ast),
                   fresh,
                   'the test follows the state update of the same turn'
                   if fresh else
                   'the exit test can be reached without '
                   '_update_been_filled having run since the last '
                   'selection: it looks at stale flags / utilities')
    ok = 'no-utility' in kinds
    ctx.ob(rule, '_run_selection:terminates-without-utility', fi.loc(loop),
           ok,
           'the loop ends when no gene is useful any more' if ok else
           'no exit on "no gene has utility left": the selection pops '
           'genes of zero utility')
    # every turn that does not leave selects a gene
    p = None
    for s in cfg.succ[hdr.id]:
        pass
    starts = [t for (t, lab) in cfg.succ[hdr.id] if lab != 'exc'
              and t in inside]
    wit = None
    for s in starts:
        wit = wit or cfg.path(
            s, {hdr.id}, avoid=lambda x: x.id in choose_nodes,
            edge_ok=lambda a, b, lab: lab != 'exc') \
            if s not in choose_nodes else wit
    ctx.ob(rule, '_run_selection:progress', fi.loc(loop), wit is None,
           'every turn that does not leave the loop selects a gene'
           if wit is None else
           'a turn of the greedy loop can come round without selecting a '
           'gene', witness=cfg.fmt_path(wit) if wit else None)


def _is_size_of_filled(size_t, sum_t):
    """sum_t = X.sum(); size_t = X.size (same X, possibly earlier state)"""
    if not (sum_t[0] == 'call' and sum_t[1][0] == 'attr'):
        return False
    x = sum_t[1][1]
    if size_t[0] == 'attr' and size_t[2] == 'size':
        return _same_array(size_t[1], x)
    return False


def _same_array(a, b):
    """the filled-flag array before / after its in-place updates: the
    first element of an _update_been_filled(...) result is the array that
    was handed in as been_filled"""
    def unwind(t, depth=0):
        out = set()
        for alt in term_alts(t):
            if depth < 6 and alt[0] == 'sub' and alt[2] == ('const', '0') \
                    and _cname(alt[1]) == '_update_been_filled':
                arg = T.call_arg(alt[1], kw='been_filled')
                if arg is None:
                    arg = T.call_arg(alt[1], pos=1)
                if arg is not None:
                    out |= unwind(arg, depth + 1)
                    continue
            if alt[0] == 'rec':
                continue        # loop-carried reference to itself
            out.add(alt)
        return out
    ua, ub = unwind(a), unwind(b)
    return bool(ua) and ua == ub


# ----------------------------------------------------------------------
# 2./3. when a slot counts as filled
# ----------------------------------------------------------------------

def check_filled_conditions(ctx):
    rule = 'R-ARITH/slot-filled'
    counts = ('sub', ('param', 'marker_counts'), ('const', "'marker_counts'"))
    agg = ('sub', ('param', 'marker_counts'), ('const', "'aggregate'"))
    n_per = ('param', 'n_per_utility')

    # target reached AND both directions possible
    fi, cfg, rd, ex = _fn(ctx, SEL + '_get_newly_full_mask')
    cols = {}
    for n in cfg.nodes:
        st = n.ast
        if n.id in rd.live and isinstance(st, ast.Assign) and isinstance(
                st.targets[0], ast.Subscript):
            it = ex.expand(st.targets[0].slice, n.id)
            vt = ex.expand(st.value, n.id)
            col = it[1][-1] if it[0] == 'tuple' else None
            cols[col] = (st, vt)
    rets = [n for n in cfg.nodes if n.kind == 'return' and n.id in rd.live]
    base = ex.expand(rets[0].ast.value, rets[0].id) if rets else None
    raw_ok = False
    if base is not None:
        for x in T.subterms(base):
            lf = T.lt_form(x) if x[0] == 'cmp' else None
            if lf and lf[0] == 'LtE' and lf[1] == n_per and lf[2] == counts:
                raw_ok = True
    ctx.ob(rule, '_get_newly_full_mask:target', fi.loc(), raw_ok,
           'a slot reaches the target when its count is at least '
           'n_per_utility' if raw_ok else
           'the target test is not `marker_counts >= n_per_utility`')
    okc = True
    for col in (('const', '0'), ('const', '1')):
        if col not in cols:
            okc = False
            continue
        st, vt = cols[col]
        ops = list(vt[2]) if _cname(vt) == 'logical_and' else (
            [vt[2], vt[3]] if vt[0] == 'binop' and vt[1] == 'BitAnd'
            else [])
        if ('param', 'are_possible') not in ops:
            okc = False
    ctx.ob(rule, '_get_newly_full_mask:possible', fi.loc(), okc,
           'reaching the target fills a slot only where both directions '
           'of the pair could reach it' if okc else
           'a slot is declared full on reaching the target without '
           '`are_possible` (both columns): a pair whose other direction '
           'cannot reach the target stops collecting although it holds '
           'fewer than min(2 x target, available) markers')

    fi, cfg, rd, ex = _fn(ctx, SEL + '_get_are_possible')
    rets = [n for n in cfg.nodes if n.kind == 'return' and n.id in rd.live]
    t = ex.expand(rets[0].ast.value, rets[0].id)
    ok = False
    if t[0] == 'cmp' and t[1] == ('Eq',) and t[3] == (('const', '2'),) \
            and _cname(t[2]) == 'sum':
        inner = t[2][1][1]
        lf = T.lt_form(inner)
        ok = lf is not None and lf[0] == 'LtE' and lf[1] == n_per \
            and lf[2] == ('param', 'marker_census') and (
                'axis', ('const', '1')) in t[2][3]
    ctx.ob(rule, '_get_are_possible', fi.loc(rets[0].ast), ok,
           '"possible" = the census reaches the target in both '
           'directions' if ok else
           f'"possible" is {fmt_term(t)[:90]}: not (census >= '
           'n_per_utility) in both directions')

    fi, cfg, rd, ex = _fn(ctx, SEL + '_get_maxed_out')
    cols = {}
    for n in cfg.nodes:
        st = n.ast
        if n.id in rd.live and isinstance(st, ast.Assign) and isinstance(
                st.targets[0], ast.Subscript):
            it = ex.expand(st.targets[0].slice, n.id)
            vt = ex.expand(st.value, n.id)
            col = it[1][-1] if it[0] == 'tuple' else None
            cols[col] = (st, vt)
    ok_all = ok_twice = True
    for col in (('const', '0'), ('const', '1')):
        if col not in cols:
            ok_all = ok_twice = False
            continue
        st, vt = cols[col]
        ops = list(vt[2]) if _cname(vt) == 'logical_or' else (
            [vt[2], vt[3]] if vt[0] == 'binop' and vt[1] == 'BitOr'
            else [])
        a = any(_has(o, lambda x: x[0] == 'cmp' and x[1] == (
            'Eq',) and {x[2], x[3][0]} == {counts, (
                'param', 'marker_census')}) for o in ops)
        b = False
        for o in ops:
            lf = T.lt_form(o)
            if lf and lf[0] == 'LtE' and lf[2] == agg:
                try:
                    b = P.poly(lf[1]) == P._mul(P.const(2), P.atom(n_per))
                except P.NotPolynomial:
                    b = False
        ok_all = ok_all and a
        ok_twice = ok_twice and b
    ctx.ob(rule, '_get_maxed_out:exhausted', fi.loc(), ok_all,
           'a slot is full when it holds every marker of its census'
           if ok_all else
           'the exhausted test is not `marker_counts == marker_census` '
           'for both columns')
    ctx.ob(rule, '_get_maxed_out:twice-the-target', fi.loc(), ok_twice,
           'a pair is full when it holds twice the target' if ok_twice
           else 'the pair-level bound is not `aggregate >= '
           '2 * n_per_utility`: pairs stop collecting below '
           'min(2 x target, available)')

    # the update combines them: (target OR maxed) AND NOT already filled
    fi, cfg, rd, ex = _fn(ctx, SEL + '_update_been_filled')
    ok = False
    for n in cfg.nodes:
        st = n.ast
        if n.id in rd.live and isinstance(st, ast.Assign) and isinstance(
                st.targets[0], ast.Subscript) and isinstance(
                    st.value, ast.Constant) and st.value.value is True:
            it = ex.expand(st.targets[0].slice, n.id)
            ws = [x for x in T.subterms(it) if _cname(x) == 'where']
            for w in ws:
                m = w[2][0] if w[2] else None
                if m is not None and _cname(m) == 'logical_and':
                    has_new = any(
                        _has(o, lambda x: _cname(x)
                                      == '_get_newly_full_mask')
                        and _has(o, lambda x: _cname(x)
                                          == '_get_maxed_out')
                        for o in m[2])
                    has_not = any(_cname(o) == 'logical_not'
                                  and o[2][0] == ('param', 'been_filled')
                                  for o in m[2])
                    ok = ok or (has_new and has_not)
    ctx.ob(rule, '_update_been_filled:flags', fi.loc(), ok,
           'flags are raised exactly for slots that are newly full by one '
           'of the three conditions' if ok else
           'been_filled is not set at where((target OR maxed-out) AND NOT '
           'been_filled)')


# ----------------------------------------------------------------------
# 4. a gene is selected once
# ----------------------------------------------------------------------

def check_selected_once(ctx):
    rule = 'R-SAMEVAL/selected-once'
    fi, cfg, rd, ex = _fn(ctx, SEL + '_choose_one_gene')
    struck = recorded = named = guarded = None
    for n in cfg.nodes:
        st = n.ast
        if n.id not in rd.live:
            continue
        if isinstance(st, ast.Assign) and isinstance(
                st.targets[0], ast.Subscript) and isinstance(
                    st.targets[0].value, ast.Name):
            base = ex.expand(st.targets[0].value, n.id)
            if base == ('param', 'utility_array'):
                v = st.value
                neg = (isinstance(v, ast.UnaryOp) and isinstance(
                    v.op, ast.USub)) or (isinstance(v, ast.Constant)
                                         and isinstance(v.value, (int, float))
                                         and v.value <= 0)
                if neg:
                    struck = (n, ex.expand(st.targets[0].slice, n.id))
        for c in cfg.calls_in(n):
            f = c.func
            if isinstance(f, ast.Attribute) and f.attr == 'add' \
                    and ex.expand(f.value, n.id) == (
                        'param', 'marker_gene_idx_set') and c.args:
                recorded = (n, ex.expand(c.args[0], n.id))
            if isinstance(f, ast.Attribute) and f.attr == 'append' \
                    and ex.expand(f.value, n.id) == (
                        'param', 'marker_gene_name_list') and c.args:
                named = (n, ex.expand(c.args[0], n.id))
        if n.kind == 'if':
            t = ex.expand(st.test, n.id)
            if t[0] == 'cmp' and t[1] == ('In',) and t[3] == ((
                    'param', 'marker_gene_idx_set'),):
                from ..rules.tempdirs import definite_raiser
                if any(isinstance(x, ast.Raise) for x in st.body):
                    guarded = (n, t[2])
    ok = struck is not None and recorded is not None \
        and struck[1] == recorded[1]
    ctx.ob(rule, '_choose_one_gene:struck-and-recorded', fi.loc(), ok,
           'the selected index is struck from the utility and recorded'
           if ok else
           'the selected gene is not both given a non-positive utility '
           'and added to the set of selected indices (same index): it can '
           'be popped again')
    ok = named is not None and recorded is not None and named[1][0] == 'sub' \
        and named[1][2] == recorded[1] and _has(
            named[1][1], lambda x: x[0] == 'attr' and x[2] == 'gene_names')
    ctx.ob(rule, '_choose_one_gene:name-of-index', fi.loc(), ok,
           'the name recorded is gene_names[selected index]' if ok else
           'the name appended to the result is not gene_names[...] of the '
           'index that was recorded as selected')
    ok = guarded is not None and recorded is not None \
        and guarded[1] == recorded[1] and cfg.path(
            cfg.entry, {recorded[0].id},
            avoid=lambda x: x.id == guarded[0].id,
            edge_ok=lambda a, b, lab: lab != 'exc') is None
    ctx.ob(rule, '_choose_one_gene:second-selection-raises', fi.loc(), ok,
           'selecting an index that is already in the set raises' if ok
           else 'no test `index in selected set -> raise` in front of the '
           'recording: duplicates in the result go unnoticed')


# ----------------------------------------------------------------------
# 5. desperate pairs
# ----------------------------------------------------------------------

def check_desperate(ctx):
    rule = 'R-COVER/desperate-pairs'
    fi, cfg, rd, ex = _fn(ctx, SEL + '_choose_desperate_markers')
    choose = ctx.db.fn(SEL + '_choose_gene')
    # which pairs
    ok = False
    for n in cfg.nodes:
        if n.kind == 'for' and n.id in rd.live:
            t = ex.expand(n.ast.iter, n.id)
            ws = [x for x in T.subterms(t) if _cname(x) == 'where']
            for w in ws:
                m = w[2][0] if w[2] else None
                if m is None or _cname(m) != 'logical_and':
                    continue
                le = gt = False
                for o in m[2]:
                    lf = T.lt_form(o)
                    if lf is None:
                        continue
                    tot = lf[1] if lf[2] in (('param', 'n_desperate'),
                                             ('param', 'n_per_utility')) \
                        else lf[2]
                    if not (_cname(tot) == 'sum' and T.contains(
                            tot, ('param', 'marker_census'))):
                        continue
                    if lf[0] == 'LtE' and lf[1] == tot:
                        le = True
                    if lf[0] == 'Lt' and lf[1] == ('const', '0') \
                            and lf[2] == tot:
                        gt = True
                ok = ok or (le and gt)
    ctx.ob(rule, '_choose_desperate_markers:pairs', fi.loc(), ok,
           'pairs with between one and the threshold number of markers '
           'are treated up front' if ok else
           'the pairs treated up front are not those with 0 < total '
           'census <= threshold')
    # the caller hands the target as the threshold
    rs, rcfg, rrd, rex = _fn(ctx, SEL + '_run_selection')
    okt = False
    for (n, c) in _calls_to(ctx, rs, rcfg, rrd, fi):
        mapping, _ = bind_args(fi, c)
        a = mapping.get('n_desperate')
        okt = a is not None and rex.expand(a, n.id) == (
            'param', 'n_per_utility')
    ctx.ob(rule, '_run_selection:threshold', rs.loc(), okt,
           'the threshold is the per-direction target' if okt else
           'the up-front threshold handed to _choose_desperate_markers '
           'is not n_per_utility: pairs with at most the target number '
           'of markers are left to the greedy loop, which may stop '
           'before taking all of them')
    # every marker of such a pair is taken unless it already is
    calls = _calls_to(ctx, fi, cfg, rd, choose)
    okg = False
    for (n, c) in calls:
        mapping, _ = bind_args(choose, c)
        a = mapping.get('chosen_idx')
        if a is None:
            continue
        t = ex.expand(a, n.id)
        if t[0] != 'iterelem':
            continue
        # the markers of a desperate pair are looked up in the table by
        # the pair's index in the *table* (taxonomy_idx_array[local]), not
        # by its row number among the parent's pairs
        by_global = _has(t, lambda x: x[0] == 'sub' and x[1] == (
            'param', 'taxonomy_idx_array'))
        from_table = _has(t, lambda x: x == ('param', 'marker_gene_array'))
        ctx.ob(rule, '_choose_desperate_markers:pair-index', fi.loc(c),
               by_global and from_table,
               'the markers of a desperate pair are read from the table at '
               'taxonomy_idx_array[row]' if by_global and from_table else
               'the genes taken for a desperate pair are '
               f'{fmt_term(t)[:90]}: not looked up in the marker table at '
               'the pair\'s table index (taxonomy_idx_array[row]); on a '
               'table that holds more than the parent\'s pairs the markers '
               'of an unrelated pair are taken')
        if True:
            # loop over where(marker_mask)[0]; the only bypass is the
            # already-selected test
            loop = getattr(c, '_parent', None)
            while loop is not None and not isinstance(loop, ast.For):
                loop = getattr(loop, '_parent', None)
            from ..rules import coverage as CV

            def act(node, _n=n):
                return node.id == _n.id
            okg = True
            sel_arg = mapping.get('marker_gene_idx_set')
            recv = unparse(sel_arg) if sel_arg is not None else ''

            def allow(test, edge, _loop=loop, _recv=recv):
                # `if gene in selected: continue` -- selecting is
                # idempotent on the set the action itself fills
                return CV.membership_skip_ok(test, edge, _loop, _recv)
            CV.check_cover(
                ctx, fi, rule, '_choose_desperate_markers:every-marker',
                loop, act, allow=allow, what='marker of a desperate pair',
                consequence='it is not selected although the pair has no '
                'markers to spare')
    if not okg:
        ctx.fail(rule, '_choose_desperate_markers:every-marker', fi.loc(),
                 'the loop that takes every marker of a desperate pair '
                 '(elements of where(marker_mask_from_pair_idx(...))) was '
                 'not found')


# ----------------------------------------------------------------------
# 6. thinned to the query genes
# ----------------------------------------------------------------------

def check_query_genes(ctx):
    rule = 'R-PROV/query-genes'
    fi, cfg, rd, ex = _fn(ctx, SEL + 'select_marker_genes_v2')
    consumers = ('_get_taxonomy_idx', 'create_utility_array',
                 '_run_selection')
    n_seen = 0
    for n in cfg.nodes:
        if n.id not in rd.live:
            continue
        for c in cfg.calls_in(n):
            t = resolve_callee(ctx.db, fi, c)
            if not isinstance(t, FunctionInfo) or t.name not in consumers:
                continue
            mapping, _ = bind_args(t, c)
            a = mapping.get('marker_gene_array')
            if a is None:
                continue
            n_seen += 1
            term = ex.expand(a, n.id)
            ok = all(_cname(alt) == 'thin_marker_gene_array_by_gene'
                     and T.call_arg(alt, kw='query_gene_names') == (
                         'param', 'query_gene_names')
                     for alt in term_alts(term))
            ctx.ob(rule, f'select_marker_genes_v2:{t.name}', fi.loc(c), ok,
                   'works on the reference table thinned to the query '
                   'genes' if ok else
                   f'{t.name} is handed {fmt_term(term)[:70]}: not the '
                   'table thinned to the query genes, so genes the query '
                   'does not have can be selected (or counted as '
                   'available)')
    if n_seen < 3:
        raise AnalysisError('select_marker_genes_v2: consumers of the '
                            f'marker table not recognised ({n_seen})')
    # the list returned is the list the selection steps fill
    rs, rcfg, rrd, rex = _fn(ctx, SEL + '_run_selection')
    rets = [n for n in rcfg.nodes if n.kind == 'return' and n.id in rrd.live]
    names = set()
    for r in rets:
        v = r.ast.value
        first = v.elts[0] if isinstance(v, ast.Tuple) else v
        if isinstance(first, ast.Name):
            names.add(first.id)
    fed = set()
    for step in ('_choose_gene', '_choose_desperate_markers'):
        t_ = ctx.db.fn(SEL + step)
        for (n, c) in _calls_to(ctx, rs, rcfg, rrd, t_):
            mapping, _ = bind_args(t_, c)
            a = mapping.get('marker_gene_name_list')
            if isinstance(a, ast.Name) and a.id in names:
                fed.add(step)
    ok = len(names) == 1 and fed == {'_choose_gene',
                                     '_choose_desperate_markers'}
    ctx.ob(rule, '_run_selection:result', rs.loc(), ok,
           'the list returned is the one the selection steps append to'
           if ok else
           'the list returned by _run_selection is not the list handed to '
           'both the desperate and the greedy selection step')


# ----------------------------------------------------------------------
# 7. the pairs of the parent
# ----------------------------------------------------------------------

def check_pairs_of_parent(ctx):
    rule = 'R-PROV/pairs-of-parent'
    fi, cfg, rd, ex = _fn(ctx, SEL + '_get_taxonomy_idx')
    rets = [n for n in cfg.nodes if n.kind == 'return' and n.id in rd.live]
    t = ex.expand(rets[0].ast.value, rets[0].id)
    ltc = [x for x in T.subterms(t) if _cname(x) == 'leaves_to_compare']
    ok = bool(ltc) and all(
        T.call_arg(x, pos=0, kw='parent_node') == ('param', 'parent_node')
        or T.call_arg(x, kw='parent_node') == ('param', 'parent_node')
        for x in ltc) and all(
            T.call_receiver(x) == ('param', 'taxonomy_tree') for x in ltc)
    ctx.ob(rule, '_get_taxonomy_idx:pairs', fi.loc(rets[0].ast), ok,
           'the pairs are leaves_to_compare(parent_node) of the given '
           'tree' if ok else
           f'the pair indices are {fmt_term(t)[:90]}: not derived from '
           'taxonomy_tree.leaves_to_compare(parent_node)')
    # idx_of_pair(level, node1, node2) with the three elements in order
    ok2 = False
    for x in T.subterms(t):
        if _cname(x) == 'idx_of_pair' and len(x[2]) == 3:
            idx = [a[2] for a in x[2] if a[0] == 'sub']
            ok2 = idx == [('const', '0'), ('const', '1'), ('const', '2')]
    ctx.ob(rule, '_get_taxonomy_idx:lookup', fi.loc(rets[0].ast), ok2,
           'each pair is looked up as (level, node1, node2)' if ok2 else
           'idx_of_pair is not called with elements 0, 1, 2 of the leaf '
           'pair in that order')
    # the utility and the selection both use that array
    fi, cfg, rd, ex = _fn(ctx, SEL + 'select_marker_genes_v2')
    for name, kw in (('create_utility_array', 'taxonomy_mask'),
                     ('_run_selection', 'taxonomy_idx_array')):
        ok = False
        for n in cfg.nodes:
            if n.id not in rd.live:
                continue
            for c in cfg.calls_in(n):
                t_ = resolve_callee(ctx.db, fi, c)
                if isinstance(t_, FunctionInfo) and t_.name == name:
                    mapping, _ = bind_args(t_, c)
                    a = mapping.get(kw)
                    if a is not None:
                        term = ex.expand(a, n.id)
                        ok = _cname(term) == '_get_taxonomy_idx' \
                            and T.call_arg(term, kw='parent_node') == (
                                'param', 'parent_node')
        ctx.ob(rule, f'select_marker_genes_v2:{name}', fi.loc(), ok,
               f'{name} is restricted to the parent\'s pairs' if ok else
               f'{name} does not receive the index array of the '
               'parent\'s pairs: utility / coverage is counted over other '
               'pairs')


# ----------------------------------------------------------------------
# 8. count columns
# ----------------------------------------------------------------------

def check_count_columns(ctx):
    rule = 'R-SAMEVAL/count-columns'
    fi, cfg, rd, ex = _fn(ctx, SEL + '_update_marker_counts')
    incs = []
    for n in cfg.nodes:
        st = n.ast
        if n.id in rd.live and isinstance(st, ast.AugAssign) \
                and isinstance(st.op, ast.Add) and isinstance(
                    st.target, ast.Subscript):
            base = ex.expand(st.target.value, n.id)
            idx = ex.expand(st.target.slice, n.id)
            incs.append((st, base, idx))
    up_col = down_col = None
    agg_masks = []
    for (st, base, idx) in incs:
        key = base[2] if base[0] == 'sub' else None
        if key == ('const', "'marker_counts'") and idx[0] == 'tuple':
            mask, col = idx[1][0], idx[1][1]
            neg = _has(mask, lambda x: _cname(x) == 'logical_not'
                                or (x[0] == 'unop' and x[1] == 'Invert'))
            if neg:
                down_col = col
            else:
                up_col = col
        elif key == ('const', "'aggregate'"):
            agg_masks.append(idx)
    ok = up_col == ('const', '1') and down_col == ('const', '0')
    ctx.ob(rule, '_update_marker_counts:columns', fi.loc(), ok,
           'up-regulated markers are counted in column 1, down-regulated '
           'in column 0' if ok else
           f'up / down markers are counted in columns {up_col} / '
           f'{down_col}: the census (column 0 = down, 1 = up) and the '
           'counts disagree, so slots are declared full by the wrong '
           'direction')
    ok = len(agg_masks) == 2 and len(set(agg_masks)) == 2
    ctx.ob(rule, '_update_marker_counts:aggregate', fi.loc(), ok,
           'both directions are added to the pair\'s aggregate' if ok else
           'the aggregate is not incremented once for the up mask and '
           'once for the down mask')
    # masks are restricted to the parent's pairs
    okr = all(_has(idx, lambda x: x[0] == 'sub' and x[2] == (
        'param', 'taxonomy_idx_array')) for (_s, _b, idx) in incs) \
        and bool(incs)
    ctx.ob(rule, '_update_marker_counts:restricted', fi.loc(), okr,
           'counts are kept for the parent\'s pairs only' if okr else
           'a count is incremented with a mask that is not gathered by '
           'taxonomy_idx_array')
    # census columns in create_utility_array: 0 <- down, 1 <- up
    fi, cfg, rd, ex = _fn(ctx, 'marker_selection.utils:create_utility_array')
    cols = {}
    for n in cfg.nodes:
        st = n.ast
        if n.id in rd.live and isinstance(st, ast.AugAssign) \
                and isinstance(st.target, ast.Subscript):
            idx = ex.expand(st.target.slice, n.id)
            val = ex.expand(st.value, n.id)
            if idx[0] == 'tuple' and idx[1][-1][0] == 'const':
                which = 'up' if _has(
                    val, lambda x: x[0] == 'attr' and x[2] == 'up_by_pair') \
                    else ('down' if _has(
                        val, lambda x: x[0] == 'attr'
                        and x[2] == 'down_by_pair') else None)
                cols[idx[1][-1][1]] = which
    ok = cols.get('0') == 'down' and cols.get('1') == 'up'
    ctx.ob(rule, 'create_utility_array:census-columns', fi.loc(), ok,
           'the census counts down-regulated markers in column 0 and '
           'up-regulated in column 1' if ok else
           f'census columns are {cols}: not 0 = down, 1 = up')
    # the sign handed on for a filled column: column 1 -> +1 -> up masks
    fi, cfg, rd, ex = _fn(ctx, SEL + '_update_been_filled')
    ok = False
    for d in ast.walk(fi.node):
        if isinstance(d, ast.Dict) and len(d.keys) == 2 and all(
                isinstance(k, ast.Constant) for k in d.keys):
            m = {}
            for k, v in zip(d.keys, d.values):
                if isinstance(v, ast.UnaryOp) and isinstance(
                        v.op, ast.USub) and isinstance(
                            v.operand, ast.Constant):
                    m[k.value] = -v.operand.value
                elif isinstance(v, ast.Constant):
                    m[k.value] = v.value
            ok = ok or (m.get(1, 0) > 0 and m.get(0, 0) < 0)
    # the same table written arithmetically: sign = 2 * column - 1
    recalc = ctx.db.fn(SEL + 'recalculate_utility_array_batch')
    for (n, c) in _calls_to(ctx, fi, cfg, rd, recalc):
        mapping, _ = bind_args(recalc, c)
        a = mapping.get('sign_batch')
        if a is not None and not ok:
            t = ex.expand(a, n.id)
            cols = [x for x in T.subterms(t) if x[0] == 'sub'
                    and x[2] == ('const', '1')
                    and _cname(x[1]) == 'where']
            if cols:
                col = cols[0]
                try:
                    pt = P.poly(t, lambda x: P.atom('COL')
                                if x == col else None)
                    ok = pt == P._add(P._mul(P.const(2), P.atom('COL')),
                                      P.const(1), -1)
                except P.NotPolynomial:
                    pass
        # the pairs whose utility is withdrawn are named by their index in
        # the table, taxonomy_idx_array[row], not by the row number
        b = mapping.get('pair_batch')
        if b is not None:
            tb = ex.expand(b, n.id)
            okp = _has(tb, lambda x: x[0] == 'sub' and x[1] == (
                'param', 'taxonomy_idx_array'))
            ctx.ob(rule, '_update_been_filled:pair-index', fi.loc(c), okp,
                   'filled slots are reported by the pair\'s index in the '
                   'marker table' if okp else
                   f'the pairs handed to recalculate_utility_array_batch '
                   f'are {fmt_term(tb)[:70]}: row numbers among the '
                   'parent\'s pairs, not indices of the marker table; on '
                   'a table that holds more than the parent\'s pairs the '
                   'utility of the wrong pairs\' markers is withdrawn')
    ctx.ob(rule, '_update_been_filled:sign-of-column', fi.loc(), ok,
           'column 1 is handed on as +1 (up), column 0 as -1 (down)'
           if ok else
           'the column -> sign table is not {0: -1, 1: +1}: when a slot '
           'fills, the utility of the genes of the other direction is '
           'reduced')
    fi, cfg, rd, ex = _fn(ctx, SEL + 'recalculate_utility_array_batch')
    pos = neg = None
    for n in cfg.nodes:
        st = n.ast
        if n.id in rd.live and isinstance(st, ast.AugAssign) \
                and isinstance(st.op, ast.Sub):
            val = ex.expand(st.value, n.id)
            nm = _cname(val) or ''
            for x in T.subterms(val):
                lf = T.lt_form(x) if x[0] == 'cmp' else None
                if lf is None:
                    continue
                if lf[1] == ('const', '0'):
                    pos = nm      # 0 < sign
                elif lf[2] == ('const', '0'):
                    neg = nm      # sign < 0
    ok = pos is not None and neg is not None and pos.startswith('up_') \
        and neg.startswith('down_')
    ctx.ob(rule, 'recalculate_utility_array_batch:signs', fi.loc(), ok,
           'a positive sign removes the up-markers of the pair from the '
           'utility, a negative one the down-markers' if ok else
           f'positive / negative signs subtract {pos} / {neg}')


# ----------------------------------------------------------------------
# 9. nothing to discriminate
# ----------------------------------------------------------------------

def check_nothing_to_discriminate(ctx):
    rule = 'R-GUARD/no-pairs-no-markers'
    for q, dict_name in (
            ('marker_selection.selection_pipeline:_marker_selection_worker',
             'output_dict'),
            ('marker_selection.selection_pipeline:select_all_markers',
             None)):
        fi, cfg, rd, ex = _fn(ctx, q)
        sel = ctx.db.fn(SEL + 'select_marker_genes_v2')
        found = False
        for n in cfg.nodes:
            if n.kind != 'if' or n.id not in rd.live:
                continue
            t = ex.expand(n.ast.test, n.id)
            neg = False
            while t[0] == 'unop' and t[1] == 'Not':
                neg = not neg
                t = t[2]
            if not (t[0] == 'cmp' and t[1] in (('Eq',), ('NotEq',))
                    and t[3] == (('const', '0'),)
                    and _cname(t[2]) == 'len'):
                continue
            if t[1] == ('NotEq',):
                neg = not neg
            if 'leaves_to_compare' not in backward_slice(
                    fi, n.ast.test, n.id).call_names():
                continue
            # the arm taken when there is no pair stores [] for the parent
            arm = n.ast.orelse if neg else n.ast.body
            for st in arm:
                for sub in ast.walk(st):
                    if isinstance(sub, ast.Assign) and isinstance(
                            sub.targets[0], ast.Subscript) and isinstance(
                                sub.value, ast.List) and not sub.value.elts:
                        found = True
        ctx.ob(rule, f'{fi.name}:empty', fi.loc(), found,
               'a parent with no pair to discriminate gets the empty '
               'list' if found else
               f'{fi.name} does not store [] for a parent whose '
               'leaves_to_compare is empty')


# ----------------------------------------------------------------------
# 10. overrides
# ----------------------------------------------------------------------

def check_override(ctx):
    rule = 'R-PROV/target-override'
    from ..rules import workers as W
    db = ctx.db
    fi, cfg, rd, ex = _fn(
        ctx, 'marker_selection.selection_pipeline:select_all_markers')
    worker = db.fn('marker_selection.selection_pipeline:'
                   '_marker_selection_worker')
    sites = [s for s in W.find_spawn_sites(db, lambda m: m is fi.module)
             if s.fi is fi and s.target is worker]
    if len(sites) != 1 or sites[0].kwargs is None:
        raise AnalysisError('select_all_markers: dispatch of the selection '
                            'worker with literal kwargs not found')
    s = sites[0]
    at = [n for n in cfg.node_of_expr(s.call) if n.id in rd.live][0].id
    kw = s.kwargs
    tp = ex.expand(kw['parent_node'], at) if 'parent_node' in kw else None
    tn = ex.expand(kw['n_per_utility'], at) if 'n_per_utility' in kw \
        else None
    ok = tn is not None and tp is not None
    if ok:
        alts = list(term_alts(tn))
        plain = [a for a in alts if a == ('param', 'n_per_utility')]
        over = [a for a in alts if a[0] == 'sub' and a[1] == (
            'param', 'n_per_utility_override')]
        ok = len(plain) == 1 and len(over) >= 1 and len(plain) + len(
            over) == len(alts) and all(
                any(o[2] == p for p in term_alts(tp)) or o[2] == tp
                for o in over)
    ctx.ob(rule, 'select_all_markers:n_per_utility', fi.loc(s.call), ok,
           'the worker of a parent gets the override of that parent, or '
           'the general target' if ok else
           f'the target handed to the worker is {fmt_term(tn)[:80] if tn else "missing"}'
           ' for parent '
           f'{fmt_term(tp)[:40] if tp else "?"}: not n_per_utility or '
           'n_per_utility_override[that parent]')
    for k in ('query_gene_names', 'genes_at_a_time', 'taxonomy_tree'):
        t = ex.expand(kw[k], at) if k in kw else None
        okk = t == ('param', k)
        ctx.ob(rule, f'select_all_markers:{k}', fi.loc(s.call), okk,
               f'{k} is handed to the worker as given' if okk else
               f'the worker\'s {k} is {fmt_term(t)[:60] if t else "missing"}')
