"""
C18 -- the stages compose (schema part).

Decided (DESIGN.md section 5, C18): R-SCHEMA across the stage boundaries --
for each file kind that crosses a stage boundary the datasets a reader
requires are written by the previous stage's writers -- and identification
by name: gene names in the marker file are the statistics file's column
names; cluster rows are reached through the cluster_to_row table; the
constant keys a marker-lookup writer adds are the ones the mapper strips.
The centroid self-mapping statement is numeric and is not decided.
"""
import ast

from ..core.cfg import cfg_of
from ..core.defuse import rd_of, Expander, fmt_term
from ..core import terms as T
from ..core.loader import unparse, AnalysisError, FunctionInfo
from ..core.resolve import resolve_callee, bind_args
from ..rules.effects import PathAnalysis
from ..rules.schema import H5Schema

ID = 'C18'

EXPLANATION = (
    "Static analysis: the HDF5 schema extractor computes, per (function, "
    "path or handle parameter) and through callees and worker targets, the "
    "datasets created (constant names; loops over constant tuples, zips "
    "and f-strings over them are unrolled; group prefixes followed) and "
    "the datasets read, each read marked required unless dominated by a "
    "membership test of the same key. For the statistics file, the "
    "reference-marker file, the p-value mask, and the per-run marker "
    "cache, every required read of every consuming stage must be in the "
    "written set of the producing stage. Provenance rules on symbolic "
    "terms show that the gene names stored in the marker file and the "
    "p-value mask derive from the statistics file's col_names, that the "
    "statistics readers index numeric arrays with rows taken from "
    "cluster_to_row, and that every constant top-level key added to a "
    "marker lookup by its writers is removed by the mapper before use.")

EXPLANATION += (
    ' Added after the seeded rounds: divisions by a cell count are '
    'positive under the sign analysis; the merge rules of C09 are '
    'evaluated here as well.'
)

EXPLANATION += (
    ' Round 3: per-file state of the statistics worker (shared with '
    'C09).'
)

EXPLANATION += (
    ' Round 5: settings are forwarded at every call (R-FWD/parameter-forwarded); np.maximum floors are recognised by the sign analysis.'
)

EXPLANATION += (
    ' Round 6: the gene list handed to the reference-marker stage becomes positions of the reference gene table (R-PROV/gene-list, rule of C11).'
)

EXPLANATION += (
    ' Round 8: the tree used to infer the levels not voted on is the tree as stored (R-PROV/tree-version, rule of C01).'
)

EXPLANATION += (
    ' Round 9: node identity of the tree code (R-KEY/node-identity, rule of C10) is shared.'
)

EXPLANATION += (
    ' The mean profile of a node is S / N of the summed statistics (R-ARITH/moments, rule of C11).'
)

EXPLANATION += (
    ' Round 10: the sentinel / row-position rules of C09 are shared.'
)

EXPLANATION += (
    ' Round 11: the axis typing of the election (leaf axis vs type axis) is shared.'
)

EXPLANATION += (
    ' Round 13: the index-space typing of the on-disk transposition (rule of C13) is shared.'
)

EXPLANATION += (
    ' Round 14: node pairs emitted from itertools.combinations come from a plainly sorted list (R-ORDER/pairs-plainly-oriented).'
)

EXPLANATION += (
    ' Round 16: a merge over several files stores entries only for the keys of the current file (R-COVER/merge-keeps-earlier).'
)

EXPLANATION += (
    ' Round 17: the reconciliation tests the presence of marker groups only (R-AGREE/reconcile-by-presence).'
)

RULE_TEXT = (
    "one obligation per (file kind, reader, required dataset), per "
    "provenance relation; non-trivial when the reader requires at least "
    "one dataset")

ASSUMPTIONS = [
    "datasets are addressed by constant names or names unrollable from "
    "constant tuples; dynamically named groups are matched by wildcard",
    "necessary conditions only; the centroid self-mapping statement is "
    "not decided",
]

# file kind -> writers [(function, file)], readers [...]; the file is a
# parameter name, or a local described by its role (never by its name):
# '@returned' = the variable the function returns, '@local-from:a,b,c' =
# the local whose definition, expanded through the reaching definitions,
# mentions all of a, b, c
BOUNDARIES = [
    ('precomputed_stats',
     [('diff_exp.precompute_from_anndata:'
       'precompute_summary_stats_from_h5ad_and_tree', 'output_path'),
      ('diff_exp.precompute_from_anndata:'
       'precompute_summary_stats_from_h5ad_list_and_tree', 'output_path')],
     [('taxonomy.taxonomy_tree:TaxonomyTree.from_precomputed_stats',
       'stats_path'),
      ('diff_exp.score_utils:read_raw_precomputed_stats',
       'precomputed_stats_path'),
      ('type_assignment.matching:get_leaf_means', 'precompute_path'),
      ('diff_exp.markers:find_markers_for_all_taxonomy_pairs',
       'precomputed_stats_path'),
      ('diff_exp.p_value_mask:_create_p_value_mask_file',
       'precomputed_stats_path'),
      ('cli.from_specified_markers:_run_mapping',
       '@local-from:precomputed_stats,path,real_location'),
      ('diff_exp.truncate_precompute:truncate_precomputed_stats_file',
       'input_path')]),
    ('reference_markers',
     [('diff_exp.markers:create_sparse_by_pair_marker_file', '@returned'),
      ('diff_exp.markers:add_sparse_by_gene_markers_to_file', 'h5_path')],
     [('marker_selection.marker_array:MarkerGeneArray.from_cache_path',
       'cache_path')]),
    ('p_value_mask',
     [('diff_exp.p_value_mask:_create_p_value_mask_file', 'dst_path')],
     [('diff_exp.p_value_markers:'
       'create_sparse_by_pair_marker_file_from_p_mask',
       'p_value_mask_path')]),
    ('marker_cache',
     [('type_assignment.marker_cache_v2:'
       'create_marker_cache_from_specified_markers', 'output_cache_path')],
     [('type_assignment.election:run_type_assignment_on_h5ad_cpu',
       'marker_gene_cache_path'),
      ('type_assignment.marker_cache_v2:serialize_markers',
       'marker_cache_path'),
      ('type_assignment.utils:reconcile_taxonomy_and_markers',
       'marker_cache_path')]),
]


# constant names a reader may use for a group whose name the writer
# computes (the root parent of the marker cache is the group 'None')
DYNAMIC_GROUP_CONSTANTS = {'None'}


def _matches(key, written):
    if key in written:
        return True
    kp = key.split('/')
    for w in written:
        wp = w.split('/')
        if len(wp) != len(kp):
            continue
        if all(a == b or (b == '*' and (a == '*'
                                        or a in DYNAMIC_GROUP_CONSTANTS))
               or (a == '*' and b != '*')
               for a, b in zip(kp, wp)):
            return True
    return False


def _file_var(fi, spec):
    if not spec.startswith('@'):
        return spec
    rd = rd_of(fi)
    if spec == '@returned':
        for n in ast.walk(fi.node):
            if isinstance(n, ast.Return) and isinstance(n.value, ast.Name):
                return n.value.id
    if spec.startswith('@local-from:'):
        want = spec.split(':', 1)[1].split(',')
        ex = Expander(fi)
        for d in rd.defs:
            v = getattr(d, 'value', None)
            if v is not None and d.kind == 'assign' and not d.path:
                t = fmt_term(ex.expand(v, d.node))
                if all(w in t for w in want):
                    return d.name
    raise AnalysisError(f'{fi.qual}: no variable with role {spec}')


def check(ctx):
    db = ctx.db
    pa = PathAnalysis(db, ctx.cg)
    sc = H5Schema(db, ctx.cg, pa)
    rule = 'R-SCHEMA/stage-boundary'
    ctx.floor(rule, 25)
    for kind, writers, readers in BOUNDARIES:
        written = dict()
        for (q, p) in writers:
            fi = db.fn(q)
            ctx.touch(fi)
            for k, acc in sc.written(fi, _file_var(fi, p)).items():
                written.setdefault(k, acc)
        if not written:
            raise AnalysisError(f'{kind}: no dataset written by '
                                f'{[w[0] for w in writers]} recognised')
        ctx.note(f'{kind}: written = {sorted(written)}')
        for (q, p) in readers:
            fi = db.fn(q)
            ctx.touch(fi)
            req = sc.required_reads(fi, _file_var(fi, p))
            n = 0
            for k, acc in sorted(req.items()):
                if k.replace('*', '').replace('/', '') == '':
                    continue          # pure wildcards: iteration
                n += 1
                ok = _matches(k, written)
                ctx.ob(rule, f'{kind}:{fi.qual}:{k}', acc.where(), ok,
                       f"'{k}' is written by the {kind} stage" if ok else
                       f"{acc.fi.qual} requires dataset '{k}' of the "
                       f'{kind} file, which the producing stage '
                       f'({", ".join(w[0].split(":")[1] for w in writers)})'
                       ' never writes; the stages do not compose',
                       witness=[f'{v[0].qual} L{v[1].lineno}'
                                for v in acc.via])
            if n == 0:
                ctx.ok(rule + '/reader', f'{kind}:{fi.qual}', fi.loc(),
                       'reader has only optional / iterated reads',
                       nontrivial=False)
    check_names(ctx)
    check_lookup_keys(ctx)
    # clusters keep their identity between the stages only if the tree
    # code never files a node under its label alone (rule of C10)
    from .C10 import check_node_identity
    check_node_identity(ctx, ('taxonomy.',), floor=3)
    # ... and the election keeps the column of a candidate and its name
    # together: axis typing of the vote tables (sa/rules/axes.py; the
    # per-leaf axis L and the per-type axis T are different roles)
    # a query stored as CSC reaches the election through the on-disk
    # transposition: positions are used in the index space they were
    # computed in (rule of C13)
    from .C13 import check_index_spaces
    check_index_spaces(ctx)
    from ..rules import axes as AX
    spec_ax = AX.load_spec()
    n_ax = 0
    for q_ in spec_ax['functions']:
        if q_.startswith('type_assignment.election:'):
            n_ax += AX.check_function(ctx, db, q_, spec_ax)
    if n_ax < 5:
        raise AnalysisError(f'axis typing of the election covered only '
                            f'{n_ax} array operations')
    check_count_denominators(ctx)
    # what is summed over the leaves becomes a mean and a variance by the
    # textbook formulas (rule of C11)
    from .C11 import check_moments
    check_moments(ctx)
    # the centroid statement presupposes that the statistics file holds
    # the true cluster sums: the merge of the worker buffers adds each
    # piece exactly once (shared with C09)
    from .C09 import (check_merge_loops, check_per_file_state,
                      check_sentinel)
    check_merge_loops(ctx)
    check_per_file_state(ctx)
    # ... and a cell the taxonomy does not name stays in its row of the
    # chunk under the sentinel, so that the rows selected for a cluster
    # are rows of the chunk (shared with C09)
    check_sentinel(ctx)
    # a centroid collects a vote in every iteration: the counter must be
    # able to hold the iteration count (shared with C02)
    from .C02 import check_counter_capacity
    check_counter_capacity(ctx)
    # settings this property depends on are handed down every call
    # chain, never left to a callee's default (sa/rules/forwarding.py)
    # the gene list a later stage hands to the reference-marker stage is
    # turned into positions of the *reference* gene table (rule of C11)
    # a centroid is assigned to its leaf *and its ancestors*: the levels
    # not voted on are inferred from the tree as stored in the reference
    # file (rule of C01)
    from .C01 import check_tree_versions
    check_tree_versions(ctx)
    from .C11 import check_gene_list
    check_gene_list(ctx)
    from ..rules.forwarding import check_forwarding
    check_forwarding(ctx, {'taxonomy_tree', 'precomputed_stats_path', 'normalization'})
    check_reconciliation_by_presence_only(ctx)


# ----------------------------------------------------------------------

def check_names(ctx):
    db = ctx.db
    rule = 'R-PROV/identified-by-name'
    # gene names stored in the marker file / p-value mask come from the
    # statistics file
    for q in ('diff_exp.markers:create_sparse_by_pair_marker_file',
              'diff_exp.p_value_mask:_create_p_value_mask_file'):
        fi = db.fn(q)
        ctx.touch(fi)
        cfg = cfg_of(fi)
        rd = rd_of(fi)
        ex = Expander(fi)
        prep = db.fn('diff_exp.markers:_prep_output_file')
        found = False
        for node in cfg.nodes:
            if node.id not in rd.live:
                continue
            for c in cfg.calls_in(node):
                if resolve_callee(db, fi, c) is not prep:
                    continue
                found = True
                mapping, _ = bind_args(prep, c)
                t = ex.expand(mapping.get('gene_names'), node.id)
                core = T.strip_wrappers(t, names=('list', 'tuple',
                                                  'deepcopy', 'copy'))
                ok = (core[0] == 'sub'
                      and core[2] == ('const', "'gene_names'")
                      and T.call_name(core[1]) == 'read_precomputed_stats'
                      and T.contains(core[1],
                                     ('param', 'precomputed_stats_path')))
                ctx.ob(rule, f'{fi.qual}:gene_names', fi.loc(c), ok,
                       'the gene names written to the file are those of '
                       'the statistics file it was built from' if ok else
                       'the gene names stored in the marker file do not '
                       "derive from the statistics file's gene names: "
                       + fmt_term(t)[:120])
        if not found:
            ctx.fail(rule, f'{fi.qual}:gene_names', fi.loc(),
                     '_prep_output_file is not called')
    # read_raw_precomputed_stats: gene names from col_names, rows from
    # cluster_to_row
    fi = db.fn('diff_exp.score_utils:read_raw_precomputed_stats')
    ctx.touch(fi)
    cfg = cfg_of(fi)
    rd = rd_of(fi)
    ex = Expander(fi)
    n_idx = 0
    for node in cfg.nodes:
        if node.kind != 'stmt' or node.id not in rd.live:
            continue
        s = node.ast
        if not isinstance(s, ast.Assign):
            continue
        for tg in s.targets:
            if isinstance(tg, ast.Subscript) and isinstance(
                    tg.value, ast.Name) and isinstance(
                        s.value, ast.Subscript):
                # this[k] = raw_data[k][idx, ...]
                v = s.value
                if isinstance(v.slice, ast.Tuple) and not v.slice.elts:
                    continue      # x[()] reads the whole dataset
                if isinstance(v.value, ast.Subscript):
                    first = v.slice.elts[0] if isinstance(
                        v.slice, ast.Tuple) and v.slice.elts else v.slice
                    t = ex.expand(first, node.id)
                    from ..core.defuse import term_alts as _alts
                    looked_up = all(
                        a[0] == 'sub' and a[1][0] != 'iterelem'
                        and any(x == ('const', "'cluster_to_row'")
                                for x in T.subterms(a[1]))
                        for a in _alts(t))
                    if looked_up:
                        n_idx += 1
                        ctx.ok(rule, f'{fi.qual}:{unparse(s)[:50]}',
                               fi.loc(s), 'row taken from the '
                               "file's cluster_to_row table")
                    else:
                        n_idx += 1
                        ctx.fail(rule, f'{fi.qual}:{unparse(s)[:50]}',
                                 fi.loc(s),
                                 'a numeric array of the statistics file '
                                 f'is indexed by {fmt_term(t)[:80]}, not '
                                 'by a row looked up in cluster_to_row: '
                                 'clusters are identified by position')
    if n_idx == 0:
        ctx.fail(rule, f'{fi.qual}:rows', fi.loc(),
                 'no indexed read of the numeric arrays recognised')
    # gene names from col_names
    for node in cfg.nodes:
        if node.kind == 'stmt' and node.id in rd.live and isinstance(
                node.ast, ast.Assign):
            for tg in node.ast.targets:
                if isinstance(tg, ast.Subscript) and isinstance(
                        tg.slice, ast.Constant) \
                        and tg.slice.value == 'gene_names':
                    t = ex.expand(node.ast.value, node.id)
                    ok = any(x == ('const', "'col_names'")
                             for x in T.subterms(t))
                    ctx.ob(rule, f'{fi.qual}:gene_names', fi.loc(node.ast),
                           ok, "gene names are the file's col_names"
                           if ok else
                           'gene names of the statistics are read from '
                           + fmt_term(t)[:80])
    # get_leaf_means orders rows by the (sorted) leaf names, reading
    # through read_precomputed_stats
    glm = db.fn('type_assignment.matching:get_leaf_means')
    ctx.touch(glm)
    ex2 = Expander(glm)
    cfg2 = cfg_of(glm)
    rd2 = rd_of(glm)
    uses = False
    for node in cfg2.nodes:
        if node.id not in rd2.live:
            continue
        for c in cfg2.calls_in(node):
            t = resolve_callee(db, glm, c)
            if isinstance(t, FunctionInfo) and t.name in (
                    'read_precomputed_stats',):
                mapping, _ = bind_args(t, c)
                tt = ex2.expand(mapping.get('taxonomy_tree'), node.id)
                tp = ex2.expand(mapping.get('precomputed_stats_path'),
                                node.id)
                uses = (tt == ('param', 'taxonomy_tree')
                        and tp == ('param', 'precompute_path'))
    ctx.ob(rule, f'{glm.qual}:through-tree', glm.loc(), uses,
           'leaf means are read by cluster name through the taxonomy '
           'given' if uses else
           'get_leaf_means does not read the statistics through '
           'read_precomputed_stats(path, tree)')


def check_lookup_keys(ctx):
    """constant top-level keys that writers add to a marker lookup are
    stripped by the mapper before the lookup is used"""
    db = ctx.db
    rule = 'R-SCHEMA/marker-lookup-extra-keys'
    writers = ['cli.query_markers:QueryMarkerRunner.run',
               'cli.query_markers_from_p_value_mask:'
               'QueryMarkersFromPValueMaskRunner.run',
               'type_assignment.marker_cache_v2:'
               'create_marker_gene_lookup_from_ref_list',
               'type_assignment.marker_cache_v2:'
               'create_raw_marker_gene_lookup',
               'cli.marker_cache_from_csv_dir:MarkerCacheRunner.run']
    added = dict()
    for q in writers:
        fi = db.functions.get(q)
        if fi is None:
            continue
        ctx.touch(fi)
        # the lookup is the dict the function returns or serialises
        outs = set()
        for n in ast.walk(fi.node):
            if isinstance(n, ast.Return) and isinstance(n.value, ast.Name):
                outs.add(n.value.id)
            if isinstance(n, ast.Call) and isinstance(
                    n.func, ast.Attribute) and n.func.attr in (
                        'dump', 'dumps') and n.args and isinstance(
                            n.args[0], ast.Name):
                outs.add(n.args[0].id)
        for n in ast.walk(fi.node):
            if isinstance(n, ast.Assign):
                for tg in n.targets:
                    if isinstance(tg, ast.Subscript) and isinstance(
                            tg.slice, ast.Constant) and isinstance(
                                tg.slice.value, str) and isinstance(
                                    tg.value, ast.Name) \
                            and tg.value.id in outs:
                        if '/' not in tg.slice.value and \
                                tg.slice.value != 'None':
                            added.setdefault(tg.slice.value, (fi, n))
    rm = db.fn('cli.from_specified_markers:_run_mapping')
    popped = set()
    for n in ast.walk(rm.node):
        if isinstance(n, ast.Call) and isinstance(n.func, ast.Attribute) \
                and n.func.attr == 'pop' and n.args and isinstance(
                    n.args[0], ast.Constant) and isinstance(
                        n.func.value, ast.Name):
            from ..core.slicing import backward_slice
            sl = backward_slice(rm, n.func.value)
            if sl.call_names() & {'load', 'loads'}:
                popped.add(n.args[0].value)
    if not added:
        raise AnalysisError('marker lookup writers add no constant key')
    for k, (fi, site) in sorted(added.items()):
        ok = k in popped
        ctx.ob(rule, f'{k}', fi.loc(site), ok,
               f"'{k}' added by {fi.qual} is removed by _run_mapping "
               'before the lookup is interpreted' if ok else
               f"{fi.qual} adds the top-level key '{k}' to the marker "
               'lookup, which _run_mapping does not remove: it would be '
               'interpreted as a parent node')


def check_count_denominators(ctx):
    """a taxonomy may name clusters that have no cell in the reference
    (the reference statistics stage writes zero rows for them): every
    division by a cell count downstream must be protected, or the
    cluster's mean becomes NaN and wins every arg-max of the mapping
    stage.  Denominators are recognised by what they derive from (the
    'n_cells' datum), and judged by the sign analysis of sa/rules/sign.py
    (max(1, n) is positive)."""
    from ..rules.sign import SignEval, POS
    from ..core.slicing import backward_slice
    db = ctx.db
    rule = 'R-POS/cell-count-denominator'
    n = 0
    for fi in db.iter_functions():
        if fi.module.short.startswith(('gpu_utils', 'corr.')):
            continue
        se = None
        k = 0
        for e in ast.walk(fi.node):
            if not (isinstance(e, ast.BinOp) and isinstance(
                    e.op, (ast.Div, ast.FloorDiv, ast.Mod))):
                continue
            sl = backward_slice(fi, e.right)
            if 'n_cells' not in sl.consts \
                    and 'n_cells' not in sl.attr_names():
                continue
            cfg = cfg_of(fi)
            rd = rd_of(fi)
            ns = [x for x in cfg.node_of_expr(e) if x.id in rd.live]
            if not ns:
                continue
            if se is None:
                se = SignEval(db, fi)
            cls = se.eval(e.right, ns[0].id)
            n += 1
            ctx.touch(fi)
            ok = cls == POS
            ctx.ob(rule, f'{fi.qual}:div#{k}', fi.loc(e), ok,
                   f'`{unparse(e.right)[:40]}` cannot be zero' if ok else
                   f'`{unparse(e)[:70]}` divides by a cell count that is '
                   'zero for a cluster without reference cells: the '
                   'statistic becomes NaN and propagates into marker '
                   'selection and mapping')
            k += 1
    if n < 3:
        raise AnalysisError(f'only {n} divisions by a cell count found')


def check_reconciliation_by_presence_only(
        ctx, rule='R-AGREE/reconcile-by-presence'):
    """the query-marker stage writes a group for every parent of the tree;
    for a parent with a single child (the root of a tree with one top node
    included) that group is *empty*, because no choice is made there.  The
    pre-flight reconciliation of the mapping stage therefore decides by the
    presence of a group alone: it never opens one (`markers[grp]`) to
    judge its content.  A test of the content rejects the cache the
    previous stage has just written."""
    fi = ctx.db.fn('type_assignment.utils:reconcile_taxonomy_and_markers')
    handles = set()
    for w in ast.walk(fi.node):
        if isinstance(w, ast.With):
            for it in w.items:
                if isinstance(it.optional_vars, ast.Name) and isinstance(
                        it.context_expr, ast.Call) and getattr(
                            it.context_expr.func, 'attr', None) == 'File':
                    handles.add(it.optional_vars.id)
    if not handles:
        raise AnalysisError(f'{fi.qual}: the marker cache is not opened')
    opened = [x for x in ast.walk(fi.node)
              if isinstance(x, ast.Subscript) and isinstance(
                  x.value, ast.Name) and x.value.id in handles
              and isinstance(x.ctx, ast.Load)]
    tests = [x for x in ast.walk(fi.node)
             if isinstance(x, ast.Compare) and len(x.ops) == 1
             and isinstance(x.ops[0], (ast.In, ast.NotIn))
             and isinstance(x.comparators[0], ast.Name)
             and x.comparators[0].id in handles]
    ctx.touch(fi)
    ok = not opened and bool(tests)
    ctx.ob(rule, f'{fi.qual}:groups', fi.loc(opened[0] if opened
                                              else fi.node), ok,
           f'{len(tests)} presence test(s), no group is opened' if ok else (
               f'`{unparse(opened[0])[:40]}` opens a group of the marker '
               'cache in the reconciliation: its content is judged, and an '
               'empty group -- what the writer stores for a parent with a '
               'single child, the root included -- counts as missing'
               if opened else 'no presence test of a group was found'))
    return 1
