"""
C03 -- confidence fields obey the documented arithmetic contract.

The property is about numbers (shares are whole votes over the iteration
count, runner-up lists are ordered and bounded, the aggregate probability
is a running product, ...).  None of those numbers is computed here.  What
is decided is the part of each clause that is visible in the shape of the
code that produces the fields -- every item below is a necessary condition
of a clause of the statement, and the statement can fail with all of them
in place (a wrong vote count gives a wrong share however it is divided).

 1. vote share = gathered votes / the iteration count that bounded the
    vote loop (one parameter, handed unchanged to tally_votes)
 2. mean correlation = gathered correlation sum / where(votes > 0, votes, 1)
 3. the ranking is per cell, descending, truncated to
    min(requested, number of candidates); runner-up columns start at 1
 4. candidates are distinct: leaf votes are aggregated whenever two
    columns name the same child
 5. runner-up tuples carry (name, votes > 0, mean correlation, share) of
    that same column, and the record keeps exactly the tuples with votes
 6. a parent with one child yields probability 1.0, no runners-up, and a
    correlation that is inherited only where it is None
 7. the aggregate probability is the running product over the hierarchy
    from the top
 8. inferred levels repeat the descendant's record without runner-up
    fields and are flagged (shared with C01)
"""
import ast

from ..core.cfg import cfg_of
from ..core.defuse import rd_of, Expander, fmt_term, term_alts
from ..core import terms as T
from ..core.loader import unparse, AnalysisError, FunctionInfo
from ..core.resolve import resolve_callee, bind_args
from ..core.slicing import backward_slice

ID = 'C03'

EXPLANATION = (
    "Static analysis of the code that produces the confidence fields "
    "(choose_node, run_type_assignment, TaxonomyTree.backfill_assignments): "
    "symbolic terms over reaching definitions and backward data slices "
    "show that the vote share divides the votes gathered by the ranking by "
    "the very parameter that bounds the vote loop in tally_votes; that the "
    "mean correlation divides the gathered correlation sums by "
    "where(votes > 0, votes, 1); that candidates are ranked per cell in "
    "decreasing votes, truncated to min(requested, candidates), winner in "
    "column 0 and runners-up from column 1; that duplicate candidate names "
    "are aggregated before ranking; that each runner-up tuple is (name, "
    "votes > 0, mean correlation, share) of one column and the record "
    "keeps the tuples with votes through one common filter; that a "
    "single-child parent gets the constants 1.0 / None / None and that "
    "correlations are inherited only under an `is None` test; that the "
    "aggregate probability is initialised to 1.0 per cell, multiplied and "
    "stored level by level in hierarchy order; and that inferred levels "
    "are flagged copies without runner-up fields. The numbers themselves "
    "(vote counts, ranges of the correlations, sums of shares) are not "
    "decided.")

EXPLANATION += (
    ' Round 5: settings are forwarded at every call (R-FWD/parameter-forwarded).'
)

EXPLANATION += (
    " Round 7: the vote counter's capacity derives from the iteration count (R-CAP/vote-counter, rule of C02)."
)

EXPLANATION += (
    ' Round 9: aggregated vote totals kept in a chosen integer type are sized from a sum of the summands (R-CAP/sum-capacity, rule of C02).'
)

EXPLANATION += (
    ' Round 11: the election is asked for exactly n_runners_up + 1 candidates (R-PROV/runners-up-as-requested); no numeric setting is defaulted with `or <number>` (R-IDIOM/falsy-numeric-default).'
)

EXPLANATION += (
    ' Round 12: the downward correlation inheritance runs before the upward one (R-ORDER/correlation-inheritance).'
)

EXPLANATION += (
    ' Round 13: n_assignments is handed on unchanged along the election call chain; only choose_node clamps it, by the number of vote columns (R-FWD/candidates-unchanged).'
)

EXPLANATION += (
    ' Round 14: the HDF5 writer stores each confidence field as the record holds it (codec rule of C15).'
)

EXPLANATION += (
    ' Round 15: the CPM conversion divides by the row total with zero totals replaced (R-ARITH/cpm, rule of C07).'
)

EXPLANATION += (
    ' Round 16: element i of what _run_type_assignment returns is element i of the choose_node call (R-SAMEVAL/results-as-chosen).'
)

RULE_TEXT = (
    "one obligation per arithmetic relation (quotient, divisor, slice "
    "bound, constant, loop shape); non-trivial when the construct exists")

ASSUMPTIONS = [
    "numpy semantics of argsort / where / slicing as modelled",
    "necessary conditions only: a wrong vote count or correlation sum "
    "yields wrong fields with every relation below intact",
    "CPU configuration",
]

ELECTION = 'type_assignment.election:'


def check(ctx):
    check_shares_and_correlations(ctx)
    check_truncation(ctx)
    check_distinct_candidates(ctx)
    check_runner_up_tuples(ctx)
    check_single_child(ctx)
    check_aggregate_probability(ctx)
    # shared necessary conditions
    from .C02 import check_ranking, check_correlation_backfill
    check_ranking(ctx)
    check_correlation_backfill(ctx)
    from .C15 import check_runner_up_filter
    check_runner_up_filter(ctx)
    from .C01 import check_backfill
    check_backfill(ctx)
    # settings this property depends on are handed down every call
    # chain, never left to a callee's default (sa/rules/forwarding.py)
    # the vote counter holds as many votes as there are iterations (rule
    # of C02): a wrapped count gives shares that no longer add up
    from .C02 import check_counter_capacity
    check_counter_capacity(ctx)
    from ..rules.forwarding import check_forwarding
    check_forwarding(ctx, {'bootstrap_iteration', 'n_assignments'})
    check_runners_up_as_requested(ctx)
    check_correlation_inheritance_order(ctx)
    check_candidates_forwarded_unchanged(ctx)
    check_election_results_as_chosen(ctx)
    # the confidence fields reach the HDF5 output as computed: the writer
    # stores each record key as it finds it (codec rule of C15)
    from .C15 import check_record_keys, check_hdf5_codec
    check_hdf5_codec(ctx, check_record_keys(ctx))
    from ..rules.idioms import check_falsy_numeric_default
    for fi_ in ctx.db.iter_functions():
        if fi_.module.short in ('cli.from_specified_markers',
                                'type_assignment.election',
                                'type_assignment.election_runner'):
            check_falsy_numeric_default(ctx, fi_)
    # a correlation is a number in [-1, 1] only for finite profiles: the
    # CPM divisor replaces zero totals (rule of C07)
    from .C07 import check_cpm_formula
    check_cpm_formula(ctx)


def _choose_node(ctx):
    fi = ctx.db.fn(ELECTION + 'choose_node')
    ctx.touch(fi)
    return fi, cfg_of(fi), rd_of(fi), Expander(fi)


# ----------------------------------------------------------------------

def check_shares_and_correlations(ctx):
    db = ctx.db
    fi, cfg, rd, ex = _choose_node(ctx)
    rule = 'R-ARITH/quotients'
    tally = db.fn(ELECTION + 'tally_votes')
    # the iteration count handed to tally_votes
    iter_arg = None
    for node in cfg.nodes:
        if node.id not in rd.live:
            continue
        for c in cfg.calls_in(node):
            if resolve_callee(db, fi, c) is tally:
                mapping, _ = bind_args(tally, c)
                a = mapping.get('bootstrap_iteration')
                if a is not None:
                    iter_arg = ex.expand(a, node.id)
    ok = iter_arg is not None and iter_arg[0] == 'param'
    ctx.ob(rule, 'choose_node:iteration-count', fi.loc(), ok,
           'tally_votes runs for the iteration count choose_node was given'
           if ok else
           'tally_votes is not run for the caller\'s iteration count '
           f'({fmt_term(iter_arg)[:60] if iter_arg else "no argument"})')
    # in tally_votes that parameter bounds the vote loop
    tcfg = cfg_of(tally)
    trd = rd_of(tally)
    tex = Expander(tally)
    bound_ok = False
    for n in tcfg.nodes:
        if n.kind == 'for' and n.id in trd.live:
            t = tex.expand(n.ast.iter, n.id)
            if T.call_name(t) == 'range' and T.contains(
                    t, ('param', 'bootstrap_iteration')):
                bound_ok = True
    ctx.ob(rule, 'tally_votes:loop-bound', tally.loc(), bound_ok,
           'one bootstrap draw per counted iteration' if bound_ok else
           'no loop of tally_votes runs range(bootstrap_iteration) times')
    # quotients of choose_node
    shares = []
    corrs = []
    for node in cfg.nodes:
        if node.kind != 'stmt' or node.id not in rd.live or not isinstance(
                node.ast, ast.Assign):
            continue
        v = node.ast.value
        if isinstance(v, ast.BinOp) and isinstance(v.op, ast.Div):
            num = backward_slice(fi, v.left, node.id)
            if not (num.has_call('tally_votes')
                    or num.has_call('aggregate_votes')):
                continue
            den = ex.expand(v.right, node.id)
            kind = _table_kind(fi, rd, cfg, v.left, node.id)
            if kind == 0:
                shares.append((node, den))
            elif kind == 1:
                corrs.append((node, den, v.right))
    if not shares:
        ctx.fail(rule, 'choose_node:vote-share', fi.loc(),
                 'no quotient votes / iterations found')
    for (node, den) in shares:
        ok = den == iter_arg and iter_arg is not None
        ctx.ob(rule, 'choose_node:vote-share', fi.loc(node.ast), ok,
               'share = gathered votes / the iteration count' if ok else
               f'votes are divided by {fmt_term(den)[:60]}, not by the '
               'iteration count of the vote loop: shares are no longer '
               'whole votes out of the iterations')
    if not corrs:
        ctx.fail(rule, 'choose_node:mean-correlation', fi.loc(),
                 'no quotient correlation sum / votes found')
    for (node, den, den_expr) in corrs:
        sl = backward_slice(fi, den_expr, node.id)
        t = den
        ok = T.call_name(t) == 'where' and (
            sl.has_call('tally_votes') or sl.has_call('aggregate_votes'))
        # where(votes > 0, votes, 1)
        if ok:
            args = t[2] if len(t) > 2 else ()
            ok = len(args) == 3 and args[2] == ('const', '1') \
                and args[0][0] == 'cmp' and args[0][1] == ('Gt',)
        ctx.ob(rule, 'choose_node:mean-correlation', fi.loc(node.ast), ok,
               'mean correlation = gathered sum / where(votes > 0, votes, '
               '1)' if ok else
               f'the correlation sum is divided by {fmt_term(t)[:70]}: not '
               'the number of votes of that candidate (guarded for zero)')


def _table_kind(fi, rd, cfg, expr, nid):
    """0 = votes, 1 = correlation sums (tuple position of the tally /
    aggregation result the base variable was unpacked from), else None"""
    b = expr
    while isinstance(b, ast.Subscript):
        b = b.value
    if not isinstance(b, ast.Name):
        return None
    kinds = set()
    seen = set()
    work = [(b.id, nid)]
    while work:
        name, at = work.pop()
        for d in rd.reaching(name, at):
            if d.id in seen:
                continue
            seen.add(d.id)
            v = getattr(d, 'value', None)
            if isinstance(v, ast.Call) and d.path:
                f = v.func
                nm = f.id if isinstance(f, ast.Name) else getattr(
                    f, 'attr', '')
                if nm in ('tally_votes', 'aggregate_votes'):
                    kinds.add(d.path[0])
                    continue
            if isinstance(v, ast.Subscript):
                bb = v
                while isinstance(bb, ast.Subscript):
                    bb = bb.value
                if isinstance(bb, ast.Name):
                    work.append((bb.id, d.node))
    return kinds.pop() if len(kinds) == 1 else None


# ----------------------------------------------------------------------

def check_truncation(ctx):
    fi, cfg, rd, ex = _choose_node(ctx)
    rule = 'R-ARITH/truncation'
    # n = min(n_assignments, <number of candidates>)
    ok_min = False
    for d in rd.defs:
        v = getattr(d, 'value', None)
        if d.kind == 'assign' and isinstance(v, ast.Call) and isinstance(
                v.func, ast.Name) and v.func.id == 'min':
            t = ex.expand(v, d.node)
            args = t[2] if len(t) > 2 else ()
            if any(a == ('param', 'n_assignments') for a in args) and any(
                    a[0] == 'sub' and a[1][0] == 'attr'
                    and a[1][-1] == 'shape' and a[2] == ('const', '1')
                    for a in args):
                ok_min = True
    ctx.ob(rule, 'choose_node:requested-number', fi.loc(), ok_min,
           'at most min(requested, candidates) assignments are kept'
           if ok_min else
           'the number of kept assignments is not min(n_assignments, '
           'number of candidate columns)')
    # the ranking is cut to that many columns
    ok_cut = False
    for d in rd.defs:
        v = getattr(d, 'value', None)
        if d.kind == 'assign' and isinstance(v, ast.Subscript) \
                and isinstance(v.slice, ast.Tuple) and len(
                    v.slice.elts) == 2 and isinstance(
                        v.slice.elts[1], ast.Slice):
            s1 = v.slice.elts[1]
            if s1.lower is None and s1.upper is not None \
                    and s1.step is None:
                sl = backward_slice(fi, v.value, d.node)
                up = backward_slice(fi, s1.upper, d.node)
                if sl.has_call('argsort') and 'n_assignments' in up.params:
                    ok_cut = True
    ctx.ob(rule, 'choose_node:ranking-cut', fi.loc(), ok_cut,
           'the ranking keeps the first n columns' if ok_cut else
           'the ranking is not cut to the first n_assignments columns')
    # runner-up columns: range(1, n)
    ok_from1 = False
    for n in ast.walk(fi.node):
        if isinstance(n, ast.ListComp) and isinstance(n.elt, ast.ListComp):
            g = n.elt.generators[0]
            it = g.iter
            if isinstance(it, ast.Call) and isinstance(
                    it.func, ast.Name) and it.func.id == 'range' \
                    and len(it.args) >= 2 and isinstance(
                        it.args[0], ast.Constant) \
                    and it.args[0].value == 1:
                up = backward_slice(fi, it.args[1])
                if 'n_assignments' in up.params:
                    ok_from1 = True
    ctx.ob(rule, 'choose_node:runner-up-columns', fi.loc(), ok_from1,
           'runners-up are columns 1 .. n-1 of the ranking (the winner, '
           'column 0, is not repeated)' if ok_from1 else
           'the runner-up columns are not range(1, n): the winner is '
           'repeated or a candidate is skipped')


def check_distinct_candidates(ctx):
    db = ctx.db
    fi, cfg, rd, ex = _choose_node(ctx)
    rule = 'R-ARITH/distinct-candidates'
    agg = db.fn(ELECTION + 'aggregate_votes')
    ok = False
    for n in cfg.nodes:
        if n.kind != 'if' or n.id not in rd.live:
            continue
        t = n.ast.test
        # len(set(types)) < len(types)   (either orientation)
        if not (isinstance(t, ast.Compare) and len(t.ops) == 1):
            continue
        sides = [t.left, t.comparators[0]]
        texts = [unparse(s_) for s_ in sides]
        has_set = [('set(' in x or 'unique(' in x) for x in texts]
        if not any(has_set) or all(has_set):
            continue
        strict = isinstance(t.ops[0], (ast.Lt, ast.Gt, ast.NotEq))
        if not strict:
            continue
        # the other side is len(<the same list>)
        plain = sides[1] if has_set[0] else sides[0]
        if not (isinstance(plain, ast.Call) and isinstance(
                plain.func, ast.Name) and plain.func.id == 'len'
                and plain.args and unparse(plain.args[0]) in (
                    texts[0] if has_set[0] else texts[1])):
            continue
        for (tt, lab) in cfg.succ[n.id]:
            if lab == 'true':
                for m in cfg.nodes:
                    if m.id in rd.live and (m.id == tt or cfg.dominates(
                            tt, m.id)):
                        for c in cfg.calls_in(m):
                            if resolve_callee(db, fi, c) is agg:
                                ok = True
    ctx.ob(rule, 'choose_node:aggregate-duplicates', fi.loc(), ok,
           'columns naming the same child are merged before ranking, so '
           'winner and runners-up are distinct siblings' if ok else
           'votes of leaves that belong to the same child are not merged '
           'before ranking: a child can be its own runner-up')


def check_runner_up_tuples(ctx):
    fi, cfg, rd, ex = _choose_node(ctx)
    rule = 'R-ARITH/runner-up-tuple'
    found = False
    for n in ast.walk(fi.node):
        if isinstance(n, ast.ListComp) and isinstance(n.elt, ast.ListComp) \
                and isinstance(n.elt.elt, ast.Tuple):
            found = True
            tup = n.elt.elt
            row = n.generators[0].target
            col = n.elt.generators[0].target
            ok = len(tup.elts) == 4
            detail = ''
            if ok:
                e_name, e_flag, e_corr, e_share = tup.elts
                # flag: votes[row, col] > 0
                okf = isinstance(e_flag, ast.Compare) and isinstance(
                    e_flag.ops[0], ast.Gt) and isinstance(
                        e_flag.comparators[0], ast.Constant) \
                    and e_flag.comparators[0].value == 0 \
                    and _table_kind(fi, rd, cfg, e_flag.left, None) is None
                # the flag's table is the gathered votes: check by slice
                nid = None
                ns = [x for x in cfg.node_of_expr(n) if x.id in rd.live]
                if ns:
                    nid = ns[0].id
                kf = _table_kind(fi, rd, cfg, e_flag.left, nid) if isinstance(
                    e_flag, ast.Compare) else None
                okf = isinstance(e_flag, ast.Compare) and isinstance(
                    e_flag.ops[0], ast.Gt) and kf == 0
                # share and correlation derive from the quotients
                s_share = backward_slice(fi, e_share, nid)
                s_corr = backward_slice(fi, e_corr, nid)
                oks = 'bootstrap_iteration' in s_share.params
                okc = s_corr.has_call('where')
                # all four read [row, col]
                idx_ok = True
                for e in (e_flag.left if isinstance(e_flag, ast.Compare)
                          else e_flag, e_corr, e_share):
                    if not (isinstance(e, ast.Subscript) and isinstance(
                            e.slice, ast.Tuple) and [
                                unparse(x) for x in e.slice.elts] == [
                                    unparse(row), unparse(col)]):
                        idx_ok = False
                ok = okf and oks and okc and idx_ok
                detail = (f'flag from votes: {okf}, share from the vote '
                          f'quotient: {oks}, correlation from the guarded '
                          f'quotient: {okc}, same (row, column): {idx_ok}')
            ctx.ob(rule, 'choose_node:tuple', fi.loc(n), ok,
                   'each runner-up tuple is (name, votes > 0, mean '
                   'correlation, share) of one ranked column' if ok else
                   'the runner-up tuple no longer pairs the fields of one '
                   'candidate: ' + detail)
    if not found:
        ctx.fail(rule, 'choose_node:tuple', fi.loc(),
                 'the runner-up tuples were not found')


def check_single_child(ctx):
    """in the one-child arm the fields are the constants 1.0 / None / None
    (the arm is located by constant folding the child-count test at 1)"""
    from ..core.constprop import feasible, UNKNOWN
    db = ctx.db
    fi = db.fn(ELECTION + 'run_type_assignment')
    ctx.touch(fi)
    cfg = cfg_of(fi)
    rd = rd_of(fi)
    rule = 'R-CONST/single-child'
    lens = []
    for n in cfg.nodes:
        if n.kind == 'if' and n.id in rd.live:
            for x in ast.walk(n.ast.test):
                if isinstance(x, ast.Call) and isinstance(
                        x.func, ast.Name) and x.func.id == 'len' and x.args:
                    if backward_slice(fi, x.args[0], n.id).has_call(
                            'children'):
                        lens.append(x)
    if not lens:
        ctx.fail(rule, 'run_type_assignment', fi.loc(),
                 'no test of the number of children found')
        return
    regions = {}
    for k in (1, 2):
        def assume(e, env, _k=k):
            if any(e is x for x in lens):
                return _k
            return UNKNOWN
        regions[k] = feasible(fi, assume, follow_exc=False).nodes
    only1 = regions[1] - regions[2]
    want = {'prob': False, 'corr': False, 'runners': False}
    for nid in only1:
        st = cfg.nodes[nid].ast
        if cfg.nodes[nid].kind != 'stmt' or not isinstance(st, ast.Assign):
            continue
        v = st.value
        # [CONST] * n
        if isinstance(v, ast.BinOp) and isinstance(v.op, ast.Mult) \
                and isinstance(v.left, ast.List) and len(
                    v.left.elts) == 1 and isinstance(
                        v.left.elts[0], ast.Constant):
            c = v.left.elts[0].value
            if c == 1.0 and isinstance(c, float):
                want['prob'] = True
            elif c is None:
                if not want['corr']:
                    want['corr'] = True
                else:
                    want['runners'] = True
    ctx.ob(rule, 'run_type_assignment:probability', fi.loc(), want['prob'],
           'a parent with one child gives probability 1.0'
           if want['prob'] else
           'the one-child arm does not set the probability to 1.0')
    ok = want['corr'] and want['runners']
    ctx.ob(rule, 'run_type_assignment:none-fields', fi.loc(), ok,
           'a parent with one child has no runners-up and no correlation '
           'of its own (None, inherited afterwards)' if ok else
           'the one-child arm does not leave correlation and runners-up '
           'as None')


def check_aggregate_probability(ctx):
    db = ctx.db
    fi = db.fn(ELECTION + 'run_type_assignment')
    cfg = cfg_of(fi)
    rd = rd_of(fi)
    ex = Expander(fi)
    rule = 'R-ARITH/running-product'
    stores = [n for n in cfg.nodes if n.kind == 'stmt' and n.id in rd.live
              and isinstance(n.ast, ast.Assign)
              and isinstance(n.ast.targets[0], ast.Subscript)
              and isinstance(n.ast.targets[0].slice, ast.Constant)
              and n.ast.targets[0].slice.value == 'aggregate_probability']
    if not stores:
        ctx.fail(rule, 'run_type_assignment:store', fi.loc(),
                 'aggregate_probability is never stored')
        return
    for node in stores:
        st = node.ast
        lp = getattr(st, '_parent', None)
        while lp is not None and not isinstance(lp, (ast.For,
                                                      ast.FunctionDef)):
            lp = getattr(lp, '_parent', None)
        ok_loop = isinstance(lp, ast.For)
        over_h = False
        if ok_loop:
            hdr = [x for x in cfg.nodes_of(lp) if x.kind == 'for'
                   and x.id in rd.live]
            t = ex.expand(lp.iter, hdr[0].id) if hdr else None
            over_h = t is not None and (
                (t[0] == 'attr' and t[-1] == 'hierarchy')
                or (t[0] == 'call' and t[1][0] == 'attr'
                    and t[1][-1] == 'hierarchy'))
        ctx.ob(rule, 'run_type_assignment:level-order', fi.loc(st),
               ok_loop and over_h,
               'the product runs over the hierarchy from the top'
               if ok_loop and over_h else
               'aggregate_probability is not accumulated in a loop over '
               'taxonomy_tree.hierarchy (top to bottom)')
        if not isinstance(st.value, ast.Name):
            ctx.fail(rule, 'run_type_assignment:value', fi.loc(st),
                     'the stored value is not the running product '
                     'variable')
            continue
        acc = st.value.id
        # the accumulator: multiplied by this level's probability in the
        # same iteration before the store; reset to 1.0 per cell
        mult = [x for x in ast.walk(lp) if isinstance(x, ast.AugAssign)
                and isinstance(x.op, ast.Mult)
                and isinstance(x.target, ast.Name) and x.target.id == acc] \
            if ok_loop else []
        ok_mult = False
        for m in mult:
            v = m.value
            if isinstance(v, ast.Subscript) and isinstance(
                    v.slice, ast.Constant) \
                    and v.slice.value == 'bootstrapping_probability':
                mn = [x for x in cfg.nodes_of(m) if x.id in rd.live]
                if mn and cfg.dominates(mn[0].id, node.id):
                    # same level record as the store
                    if unparse(v.value) == unparse(
                            st.targets[0].value):
                        ok_mult = True
        ctx.ob(rule, 'run_type_assignment:multiply', fi.loc(st), ok_mult,
               "the level's own bootstrapping_probability is multiplied "
               'in before the product is stored for that level'
               if ok_mult else
               'the stored product does not include exactly this '
               "level's bootstrapping_probability")
        at = node.id
        for m in mult:
            mn = [x for x in cfg.nodes_of(m) if x.id in rd.live]
            if mn:
                at = mn[0].id
        inits = [d for d in rd.reaching(acc, at) if d.kind == 'assign']
        ok_init = bool(inits) and all(
            isinstance(d.value, ast.Constant) and d.value.value == 1.0
            for d in inits)
        per_cell = ok_init and all(
            d.stmt is not None and _inside_loop_outside(d.stmt, lp)
            for d in inits)
        ctx.ob(rule, 'run_type_assignment:reset', fi.loc(st),
               ok_init and per_cell,
               'the product starts at 1.0 for every cell'
               if ok_init and per_cell else
               'the running product does not start at 1.0 for every cell '
               '(it carries over from the previous cell or starts '
               'elsewhere)')


def _inside_loop_outside(stmt, inner):
    """stmt is inside a loop that encloses `inner` (the per-cell loop) and
    not inside `inner` itself"""
    p = getattr(inner, '_parent', None)
    outer = None
    while p is not None and not isinstance(p, ast.FunctionDef):
        if isinstance(p, ast.For):
            outer = p
            break
        p = getattr(p, '_parent', None)
    if outer is None:
        return False
    q = getattr(stmt, '_parent', None)
    in_outer = False
    while q is not None:
        if q is inner:
            return False
        if q is outer:
            in_outer = True
        q = getattr(q, '_parent', None)
    return in_outer


def check_runners_up_as_requested(ctx, rule='R-PROV/runners-up-as-requested'):
    """the number of candidates the election keeps per cell is the
    requested number of runners-up plus the winner: the `n_assignments`
    handed to the election by the mapping front end is, as a polynomial,
    config['type_assignment']['n_runners_up'] + 1 -- no default, clamp or
    truthiness test in between (0 runners-up is a legal request)."""
    from ..core import poly as P
    from ..core.resolve import resolve_callee, bind_args
    from ..core.loader import FunctionInfo
    db = ctx.db
    fi = db.fn('cli.from_specified_markers:_run_mapping')
    ctx.touch(fi)
    cfg = cfg_of(fi)
    rd = rd_of(fi)
    ex = Expander(fi)
    N = P.atom(('N_RUNNERS_UP',))

    def atoms(t):
        if isinstance(t, tuple) and t and t[0] == 'sub' \
                and t[2] == ('const', "'n_runners_up'"):
            base = t[1]
            if isinstance(base, tuple) and base and base[0] == 'sub' \
                    and base[2] == ('const', "'type_assignment'") \
                    and base[1] == ('param', 'config'):
                return N
        return None
    n = 0
    for node in cfg.nodes:
        if node.id not in rd.live:
            continue
        for c in cfg.calls_in(node):
            t = resolve_callee(db, fi, c)
            if not (isinstance(t, FunctionInfo)
                    and 'n_assignments' in t.params):
                continue
            m, _ = bind_args(t, c)
            a = m.get('n_assignments')
            if a is None:
                continue
            n += 1
            term = ex.expand(a, node.id)
            try:
                ok = P.poly(term, atoms) == P._add(N, P.const(1))
            except P.NotPolynomial:
                ok = False
            ctx.ob(rule, f'_run_mapping:{t.name}', fi.loc(c), ok,
                   'the election keeps n_runners_up + 1 candidates'
                   if ok else
                   f'`n_assignments={unparse(a)[:40]}` is '
                   f'{fmt_term(term)[:80]}, not the requested '
                   "config['type_assignment']['n_runners_up'] + 1: the "
                   'output lists another number of runners-up than was '
                   'asked for')
    if n == 0:
        raise AnalysisError('_run_mapping: no call with n_assignments '
                            'found')


def check_correlation_inheritance_order(
        ctx, rule='R-ORDER/correlation-inheritance'):
    """a level at which no vote was held reports the correlation of the
    level *above* it (where the choice that fixed it was made); only
    levels with nothing above them that was voted on take the value of the
    nearest level below.  The per-cell back-fill therefore runs the
    downward pass (parent -> child over zip(h[:-1], h[1:])) before the
    upward pass (child -> parent over the reversed hierarchy): run the
    other way round, a single-child level in the middle of the tree is
    filled from below and the downward pass finds nothing left to do."""
    db = ctx.db
    fi = db.fn('type_assignment.election:run_type_assignment')
    ctx.touch(fi)
    ex = Expander(fi)
    cfg = cfg_of(fi)
    rd = rd_of(fi)
    passes = []
    for lp in ast.walk(fi.node):
        if not (isinstance(lp, ast.For) and isinstance(lp.iter, ast.Call)
                and getattr(lp.iter.func, 'id', None) == 'zip'
                and len(lp.iter.args) == 2 and isinstance(
                    lp.target, ast.Tuple) and len(lp.target.elts) == 2
                and all(isinstance(e, ast.Name) for e in lp.target.elts)):
            continue
        stores = [st for st in ast.walk(lp) if isinstance(st, ast.Assign)
                  and isinstance(st.targets[0], ast.Subscript)
                  and isinstance(st.targets[0].slice, ast.Constant)
                  and st.targets[0].slice.value == 'avg_correlation'
                  and any(isinstance(x, ast.Subscript) and isinstance(
                      x.slice, ast.Constant)
                      and x.slice.value == 'avg_correlation'
                      for x in ast.walk(st.value))]
        if not stores:
            continue
        st = stores[0]
        into = {x.id for x in ast.walk(st.targets[0])
                if isinstance(x, ast.Name)}
        v0, v1 = (e.id for e in lp.target.elts)
        # which sequence is walked: the hierarchy or its reverse?
        ns = [x for x in cfg.nodes_of(lp) if x.kind == 'for'
              and x.id in rd.live]
        if not ns:
            continue
        t0 = ex.expand(lp.iter.args[0], ns[0].id)
        rev = any(isinstance(x, tuple) and x and x[0] == 'slice'
                  and x[3] not in (('const', 'None'), None)
                  for x in T.subterms(t0)) or any(
            T.call_name(x) in ('reversed',) for x in T.subterms(t0)
            if isinstance(x, tuple) and x and x[0] == 'call')
        # zip(s[:-1], s[1:]): element 0 comes first in s
        first_is_upper = not rev
        if v1 in into:
            direction = 'down' if first_is_upper else 'up'
        elif v0 in into:
            direction = 'up' if first_is_upper else 'down'
        else:
            continue
        passes.append((lp.lineno, direction, lp))
    passes.sort(key=lambda p_: p_[0])
    dirs = [d for (_l, d, _n) in passes]
    if len(passes) < 2 or set(dirs) != {'down', 'up'}:
        # another shape (one pass, a helper): the order of two passes is
        # not what decides it; the guard rules still judge the stores
        ctx.ok(rule, 'run_type_assignment:passes', fi.loc(),
               f'no separate downward and upward pass ({dirs}): order not '
               'judged', nontrivial=False)
        return
    ok = dirs.index('down') < dirs.index('up')
    ctx.ob(rule, 'run_type_assignment:passes', fi.loc(passes[0][2]), ok,
           'the parent -> child pass runs before the child -> parent pass'
           if ok else
           'the child -> parent inheritance of avg_correlation runs before '
           'the parent -> child pass: a single-child level below a level '
           'that was voted on reports the correlation of the level below '
           'it, not of the level where its assignment was decided')


def check_settings_forwarded_unchanged(
        ctx, names, rule='R-FWD/handed-on-unchanged',
        modules=('type_assignment.election',
                 'type_assignment.election_runner'),
        consequence='the election runs with another setting than was '
                    'asked for'):
    """along the election call chain (election_runner, election) a
    setting that a function receives under a name and hands on under the
    same name is handed on *as received*: the argument's symbolic value is
    the parameter itself.  Normalising a setting in one frame of the chain
    (a default for single-iteration runs, a clamp from the tree) changes
    what every later frame -- and the reader of the output -- takes it to
    be."""
    from ..core.resolve import resolve_callee, bind_args
    from ..core.loader import FunctionInfo
    db = ctx.db
    n = 0
    for fi in db.iter_functions():
        if fi.module.short not in modules:
            continue
        mine = [x for x in names if x in fi.params]
        if not mine:
            continue
        cfg = cfg_of(fi)
        rd = rd_of(fi)
        ex = Expander(fi)
        for node in cfg.nodes:
            if node.id not in rd.live:
                continue
            for c in cfg.calls_in(node):
                t = resolve_callee(db, fi, c)
                args = dict()
                if isinstance(t, FunctionInfo):
                    m, _ = bind_args(t, c)
                    for x in mine:
                        if x in t.params and m.get(x) is not None:
                            args[x] = m[x]
                for d in ast.walk(c):
                    if isinstance(d, ast.Dict):
                        for k_, v_ in zip(d.keys, d.values):
                            if isinstance(k_, ast.Constant) \
                                    and k_.value in mine:
                                args[k_.value] = v_
                for x, a in args.items():
                    n += 1
                    term = ex.expand(a, node.id)
                    # (a cast of the parameter is the parameter)
                    while isinstance(term, tuple) and term \
                            and term[0] == 'call' and T.call_name(term) in (
                                'int', 'float', 'str', 'bool', 'Path',
                                'deepcopy', 'copy', 'list', 'tuple',
                                'dict') and len(term[2]) == 1 \
                            and not term[3]:
                        term = term[2][0]
                    ok = term == ('param', x)
                    ctx.touch(fi)
                    ctx.ob(rule, f'{fi.qual}:{x}#{n - 1}', fi.loc(c), ok,
                           f'`{x}` is handed on as received' if ok else
                           f'{fi.name} hands on {x} = '
                           f'{fmt_term(term)[:70]}, not the value it '
                           f'received: {consequence}')
    return n


def check_candidates_forwarded_unchanged(
        ctx, rule='R-FWD/candidates-unchanged'):
    """the number of candidates kept per cell travels from the front end
    to choose_node unchanged: wherever a function of the election modules
    that has an `n_assignments` parameter hands it on, the argument is the
    parameter itself; the only adjustment is choose_node's own
    `min(n_assignments, <number of vote columns>)`, the number of types
    that can be listed at this very parent.  A clamp computed anywhere
    else (from the tree, from a default) is a different number."""
    from ..core.resolve import resolve_callee, bind_args
    from ..core.loader import FunctionInfo
    db = ctx.db
    n = 0
    for fi in db.iter_functions():
        if fi.module.short not in ('type_assignment.election',
                                   'type_assignment.election_runner') \
                or 'n_assignments' not in fi.params:
            continue
        cfg = cfg_of(fi)
        rd = rd_of(fi)
        ex = Expander(fi)
        for node in cfg.nodes:
            if node.id not in rd.live:
                continue
            for c in cfg.calls_in(node):
                t = resolve_callee(db, fi, c)
                args = dict()
                if isinstance(t, FunctionInfo) and 'n_assignments' \
                        in t.params:
                    m, _ = bind_args(t, c)
                    if m.get('n_assignments') is not None:
                        args['n_assignments'] = m['n_assignments']
                # worker kwargs dicts: {'n_assignments': x}
                for d in ast.walk(c):
                    if isinstance(d, ast.Dict):
                        for k_, v_ in zip(d.keys, d.values):
                            if isinstance(k_, ast.Constant) \
                                    and k_.value == 'n_assignments':
                                args['n_assignments'] = v_
                for a in args.values():
                    n += 1
                    term = ex.expand(a, node.id)
                    ok = term == ('param', 'n_assignments')
                    if not ok and fi.name == 'choose_node':
                        ok = True       # judged below
                    ctx.touch(fi)
                    ctx.ob(rule, f'{fi.qual}:call#{n - 1}', fi.loc(c), ok,
                           'n_assignments is handed on as received' if ok
                           else f'{fi.name} hands on n_assignments = '
                           f'{fmt_term(term)[:70]}, not the value it '
                           'received: the election keeps another number '
                           'of candidates than was asked for')
    # choose_node: the one clamp, by the number of vote columns
    fi = db.fn('type_assignment.election:choose_node')
    ctx.touch(fi)
    cfg = cfg_of(fi)
    rd = rd_of(fi)
    ex = Expander(fi)
    for node in cfg.nodes:
        if node.kind != 'stmt' or node.id not in rd.live or not isinstance(
                node.ast, ast.Assign):
            continue
        tg = node.ast.targets[0]
        if not (isinstance(tg, ast.Name) and tg.id == 'n_assignments'):
            continue
        n += 1
        v = node.ast.value
        ok = False
        if isinstance(v, ast.Call) and getattr(v.func, 'id', None) == 'min' \
                and len(v.args) == 2:
            sides = [unparse(a) for a in v.args]
            other = [a for a in v.args if not (isinstance(a, ast.Name)
                                               and a.id == 'n_assignments')]
            if len(other) == 1 and 'n_assignments' in sides:
                o = other[0]
                ok = isinstance(o, ast.Subscript) and isinstance(
                    o.value, ast.Attribute) and o.value.attr == 'shape' \
                    and isinstance(o.slice, ast.Constant) \
                    and o.slice.value == 1
        ctx.ob(rule, f'{fi.qual}:clamp#{n - 1}', fi.loc(node.ast), ok,
               'clamped to the number of vote columns only' if ok else
               f'`{unparse(node.ast)[:60]}` changes the number of '
               'candidates by something other than the number of vote '
               'columns at this parent')
    if n < 4:
        raise AnalysisError(f'only {n} hand-overs of n_assignments found')


def check_election_results_as_chosen(ctx,
                                     rule='R-SAMEVAL/results-as-chosen'):
    """choose_node orders the runners-up by vote share and keeps
    probabilities, correlations and candidates aligned.  The frame that
    calls it hands its four results on as they come: every element of what
    `_run_type_assignment` returns is the corresponding element of the
    choose_node call.  A re-sort on the way (by rounded share, by
    correlation) breaks the non-increasing order of the shares that
    choose_node established, and nothing downstream orders them again."""
    fi = ctx.db.fn('type_assignment.election:_run_type_assignment')
    cfg = cfg_of(fi)
    rd = rd_of(fi)
    ex = Expander(fi)
    n = 0
    for node in cfg.nodes:
        if node.kind != 'return' or node.id not in rd.live \
                or node.ast.value is None:
            continue
        t = ex.expand(node.ast.value, node.id)
        elems = t[1] if isinstance(t, tuple) and t and t[0] == 'tuple' \
            else [t]
        for i, e in enumerate(elems):
            n += 1
            ok = all(
                isinstance(a, tuple) and a and a[0] == 'sub'
                and isinstance(a[1], tuple) and a[1][0] == 'call'
                and T.call_name(a[1]) == 'choose_node'
                and a[2] == ('const', str(i))
                for a in term_alts(e))
            ctx.touch(fi)
            ctx.ob(rule, f'{fi.qual}:return[{i}]', fi.loc(node.ast), ok,
                   f'element {i} is element {i} of choose_node' if ok else
                   f'element {i} of what _run_type_assignment returns is '
                   f'{fmt_term(e)[:70]}, not element {i} of the '
                   'choose_node call: what choose_node put in order is '
                   're-arranged before it is recorded')
    ctx.floor(rule, 4)
    return n
