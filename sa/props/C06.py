"""
C06 -- a cell's mapping depends only on its own expression vector.

Decided (non-interference by typing, DESIGN.md section 5, C06): the
row-independence lemma of the axis-role typing for the whole numeric path
of one chunk -- normalisation, column selection, mean / norm, correlation,
arg-max, vote tally, aggregation, ranking: the cell axis is only ever
mapped over (no reduction, sort, contraction or non-identity gather along
it).  Together with the index identities of C01 (rows are selected and
written back through one and the same index; ids are attached by the same
bounds; both iterators keep the chunk protocol) this is a static argument
that row i of the output is a function of row i of the input, the marker
subsets and the reference -- for any chunking and any company of other
cells.
"""
import ast

from ..core.cfg import cfg_of
from ..core.defuse import rd_of, Expander
from ..core.loader import unparse, AnalysisError
from ..core.slicing import backward_slice
from ..rules import axes as AX
from .C01 import (check_ids_and_rows, check_chunk_protocol,
                  check_write_back)
from .C02 import check_ranking

ID = 'C06'

EXPLANATION = (
    "Static analysis: an axis-role type checker (arrays typed by tuples "
    "of roles; cells are C or Q) interprets convert_to_cpm, "
    "_subtract_mean_and_normalize_cpu, _correlation_dot_cpu, "
    "_correlation_nearest_neighbors_cpu, tally_votes and aggregate_votes "
    "against their declared signatures and reports any reduction, sort, "
    "np.dot contraction or non-identity gather along a per-cell axis, any "
    "broadcast that aligns the cell axis with another role, and any "
    "return type that differs from the declaration. Per-cell selection "
    "in CellByGeneMatrix.downsample_cells / _downsample_genes is shown to "
    "index rows with the caller's index and columns through the name map "
    "only. The value-identity rules of C01 (chunk bounds, write-back "
    "index, iterator protocol) are re-evaluated here because the "
    "non-interference argument needs them. The dependence through the "
    "random stream for bootstrap factors below 1 is excluded by the "
    "property; floating-point effects of BLAS blocking are not decided.")

EXPLANATION += (
    ' Added after the seeded rounds: the sparse readers do not place '
    "values by pointer scatter (R-IDIOM/pointer-scatter), so a cell's "
    'row does not depend on whether an earlier cell of the chunk is '
    'empty.'
)

EXPLANATION += (
    ' Round 6: between chunk arrival and kernel the query matrix is never reduced along the cell axis (R-AXIS/no-reduction-over-cells).'
)

EXPLANATION += (
    ' Round 7: the on-disk transposition that turns a CSC query into rows computes positions in the index space they are used in (R-SPACE, rule of C13).'
)

EXPLANATION += (
    ' Round 8: block-wise loops over range(max(1, N // S)) are recognised by the whole-axis rule.'
)

EXPLANATION += (
    ' Round 10: memo tables of the election and the taxonomy class are keyed by everything their values are computed from, early-exit form and full access paths included (R-MEMO/key-complete).'
)

EXPLANATION += (
    ' Round 11: np.ptp and further reducers are typed along their axis.'
)

EXPLANATION += (
    ' Round 12: pointer values behind np.asarray / np.array are still pointer values (R-IDIOM/pointer-scatter).'
)

EXPLANATION += (
    ' Round 15: the declared normalisation is never replaced inside the pipeline (R-FWD/setting-not-rebound).'
)

RULE_TEXT = (
    "one obligation per kernel function x configuration (declared type, "
    "row independence) and per index identity")

ASSUMPTIONS = [
    "numpy semantics of the operators listed in sa/rules/axes.py",
    "axis signatures in sa/specs/axes.json",
    "rounding differences between BLAS blockings are outside the "
    "property ('up to floating-point rounding')",
    "necessary conditions only",
]


def check(ctx):
    db = ctx.db
    spec = AX.load_spec()
    total = 0
    for q in spec['functions']:
        total += AX.check_function(ctx, db, q, spec)
    failed = any(o.rule.startswith('R-AXIS') and not o.ok
                 for o in ctx.obligations)
    if total < 30 and not failed:
        raise AnalysisError(f'axis typing covered only {total} array '
                            'operations')
    check_ranking(ctx)
    check_cell_selection(ctx)
    # index identities the lemma relies on
    check_ids_and_rows(ctx)
    check_chunk_protocol(ctx, rule='R-SAMEVAL/chunk-protocol')
    check_write_back(ctx)
    check_per_cell_loop(ctx)
    # the readers that cut a chunk into rows do not place values by
    # pointer scatter (a cell's row would then depend on whether an
    # earlier cell of the chunk is empty)
    from .C05 import check_scatter
    check_scatter(ctx)
    check_no_reduction_over_cells(ctx)
    # a CSC query is turned into rows by the on-disk transposition: its
    # positions are computed in the index space they are used in (rule of
    # C13), or a cell receives other cells' values
    from .C13 import check_index_spaces
    check_index_spaces(ctx)
    # nothing computed for one cell is handed to another through a cache:
    # every memo table on the way from the chunk to the per-cell records
    # (election, back-fill in the taxonomy class) is keyed by everything
    # its values are computed from (sa/rules/nodekeys.py)
    from ..rules.nodekeys import check_memo_keys
    n_memo = 0
    for fi_ in db.iter_functions():
        if fi_.module.short in ('type_assignment.election',
                                'type_assignment.matching',
                                'taxonomy.taxonomy_tree',
                                'taxonomy.utils'):
            n_memo += check_memo_keys(ctx, fi_)
    ctx.ok('R-MEMO/key-complete', 'election and taxonomy modules',
           'package', f'{n_memo} memo table(s) judged', nontrivial=False)
    # how a cell is normalised is what the caller declared, not something
    # decided from a statistic of the whole file (R-FWD/setting-not-rebound)
    from ..rules.forwarding import check_forwarding
    check_forwarding(ctx, {'normalization'})


def check_cell_selection(ctx):
    db = ctx.db
    ci = db.cls('cell_by_gene.cell_by_gene:CellByGeneMatrix')
    rule = 'R-AXIS/cell-selection'
    m = db.find_method(ci, 'downsample_cells')
    ctx.touch(m)
    cfg = cfg_of(m)
    rd = rd_of(m)
    ok = False
    for n in ast.walk(m.node):
        if isinstance(n, ast.Subscript) and isinstance(n.slice, ast.Tuple) \
                and len(n.slice.elts) == 2 and isinstance(
                    n.slice.elts[1], ast.Slice) and unparse(
                        n.value) == 'self.data':
            ns = [x for x in cfg.node_of_expr(n) if x.id in rd.live]
            sl = backward_slice(m, n.slice.elts[0], ns[0].id if ns else None)
            ok = 'selected_cells' in sl.params
    ctx.ob(rule, 'CellByGeneMatrix.downsample_cells', m.loc(), ok,
           'rows are taken with the caller\'s index, all columns kept'
           if ok else
           'downsample_cells does not select rows with the index it was '
           'given')
    g = db.find_method(ci, '_downsample_genes')
    ctx.touch(g)
    ok = False
    for n in ast.walk(g.node):
        if isinstance(n, ast.Return) and isinstance(
                n.value, ast.Subscript) and isinstance(
                    n.value.slice, ast.Tuple) and len(
                        n.value.slice.elts) == 2 and isinstance(
                            n.value.slice.elts[0], ast.Slice):
            s0 = n.value.slice.elts[0]
            ok = s0.lower is None and s0.upper is None and s0.step is None
    ctx.ob(rule, 'CellByGeneMatrix._downsample_genes', g.loc(), ok,
           'gene selection keeps every row (`[:, idx]`)' if ok else
           'gene selection does not keep all rows in place')


def check_per_cell_loop(ctx):
    """runner-up records of a cell are built from that cell's own row of
    the ranking (row index of the comprehension = the cell)"""
    db = ctx.db
    fi = db.fn('type_assignment.election:choose_node')
    rule = 'R-AXIS/runner-up-rows'
    ok = False
    for n in ast.walk(fi.node):
        if isinstance(n, ast.ListComp) and isinstance(n.elt, ast.ListComp):
            outer = n.generators[0]
            inner = n.elt.generators[0]
            if isinstance(outer.target, ast.Name) and isinstance(
                    inner.target, ast.Name):
                row, col = outer.target.id, inner.target.id
                subs = [x for x in ast.walk(n.elt.elt)
                        if isinstance(x, ast.Subscript)
                        and isinstance(x.slice, ast.Tuple)]
                ok = bool(subs) and all(
                    unparse(x.slice.elts[0]) == row
                    and unparse(x.slice.elts[1]) == col for x in subs)
    ctx.ob(rule, 'choose_node:runners_up', fi.loc(), ok,
           'each cell\'s runner-up tuples read that cell\'s own row of the '
           'ranking, votes and correlations' if ok else
           'the runner-up records mix rows of different cells')


GLUE = (
    'type_assignment.matching:assemble_query_data',
    'type_assignment.election:run_type_assignment',
    'type_assignment.election:_run_type_assignment',
    'type_assignment.election:choose_node',
    'type_assignment.election:_run_type_assignment_on_h5ad_worker',
)
_REDUCERS = {'all', 'any', 'sum', 'mean', 'max', 'min', 'std', 'var',
             'median', 'prod', 'argmax', 'argmin', 'amax', 'amin',
             'nanmax', 'nanmin', 'nansum', 'nanmean', 'ptp', 'unique',
             'count_nonzero', 'isfinite_all'}


def check_no_reduction_over_cells(ctx):
    """between the arrival of a chunk and the numeric kernel the query
    matrix (cells x genes, the `.data` of a CellByGeneMatrix built from
    the query) is only selected from -- rows by cell, columns by gene.
    Anything that reduces it along the cell axis (axis 0, or no axis at
    all) and feeds the result back makes a cell's markers, and so its
    mapping, depend on the other cells of its chunk.  Reductions along
    axis 1 are per cell and are fine."""
    db = ctx.db
    rule = 'R-AXIS/no-reduction-over-cells'
    ci = db.cls('cell_by_gene.cell_by_gene:CellByGeneMatrix')
    fns = [db.fn(q) for q in GLUE if q in db.functions]
    fns += [m for m in db.methods_of(ci)] if hasattr(db, 'methods_of') \
        else [f for f in db.iter_functions()
              if f.qual.startswith(ci.qual + '.')]
    n_red = 0
    for fi in fns:
        ctx.touch(fi)
        cfg = cfg_of(fi)
        rd = rd_of(fi)
        ex = Expander(fi)
        for c in ast.walk(fi.node):
            if not isinstance(c, ast.Call):
                continue
            f = c.func
            nm = f.attr if isinstance(f, ast.Attribute) else None
            if nm not in _REDUCERS:
                continue
            # operand: receiver of a method, first argument of np.<f>
            if isinstance(f.value, ast.Name) and f.value.id in (
                    'np', 'numpy'):
                if not c.args:
                    continue
                operand = c.args[0]
                axis = [kw.value for kw in c.keywords if kw.arg == 'axis']
                if not axis and len(c.args) > 1:
                    axis = [c.args[1]]
            else:
                operand = f.value
                axis = [kw.value for kw in c.keywords if kw.arg == 'axis']
                if not axis and c.args:
                    axis = [c.args[0]]
            ns = [x for x in cfg.node_of_expr(c) if x.id in rd.live]
            if not ns:
                continue
            t = ex.expand(operand, ns[0].id)
            if not _is_query_matrix(fi, t):
                continue
            n_red += 1
            per_cell = bool(axis) and isinstance(
                axis[0], ast.Constant) and axis[0].value in (1, -1)
            ctx.ob(rule, f'{fi.qual}:{nm}#{n_red - 1}', fi.loc(c), per_cell,
                   'reduced along the gene axis: one value per cell'
                   if per_cell else
                   f'`{unparse(c)[:60]}` reduces the query matrix along '
                   'the cell axis: what it yields depends on every cell '
                   'of the chunk, and so does whatever is derived from it '
                   '(a cell is then mapped differently in different '
                   'company)')
    ctx.ok(rule + '/scan', 'glue', 'package',
           f'{len(fns)} functions between chunk and kernel scanned, '
           f'{n_red} reduction(s) of the query matrix', nontrivial=False)


def _is_query_matrix(fi, t):
    """the term is (derived by selection from) the `.data` of the query
    CellByGeneMatrix: `<query-ish>.data`, `self.data` / `self._data`
    inside the class, or the result of a method of such an object"""
    from ..core import terms as T

    def queryish(x):
        if x[0] == 'param':
            return 'query' in x[1] or x[1] == 'self'
        return False
    for x in T.subterms(t):
        if x[0] == 'attr' and x[2] in ('data', '_data'):
            if any(queryish(y) for y in T.subterms(x[1])) or queryish(x[1]):
                return True
    return False
