"""
C14 -- a failed worker fails the run; no partial result passes as success.

Decides (DESIGN.md section 5, C14): spawn/drain pairing on every path,
drain raises on every non-zero exit code, workers and the run wrapper do not
swallow failures, nothing is published at an output location while workers
can still fail, and in the mapping run the success message / CSV / result
records are dominated by the normal return of the mapping.
"""
import ast

from ..core.cfg import cfg_of
from ..core.constprop import feasible, UNKNOWN
from ..core.defuse import rd_of, Expander, term_contains
from ..core.loader import unparse, FunctionInfo, AnalysisError
from ..core.resolve import resolve_callee, ext_name, bind_args
from ..rules import workers as W
from ..rules.effects import PathAnalysis
from ..rules.schema import H5Schema

ID = 'C14'

# the generic data-path rules (sa/rules/closure.py) say nothing about this
# property (scheduling / failure / scratch / path disclosure)
GENERIC_SCAN = False

EXPLANATION = (
    "Static analysis (ast -> call graph -> statement CFG with NORMAL/EXC "
    "exits -> reaching definitions -> path effects). For every "
    "multiprocessing.Process spawn site in the pipeline the check shows "
    "that each path from start() to a normal return leaves a loop "
    "`while <pool non-empty>: pool = winnow_process_*(pool)`; that the two "
    "winnow functions only drop a process that is finished and whose exit "
    "code was compared with 0 by a test true for every non-zero code whose "
    "true branch raises; that no handler on the way swallows that error; "
    "that worker targets (and callees to depth 3) contain no broad handler "
    "without re-raise; that no stage writes to its requested output "
    "location at a point from which a worker can still be started or "
    "drained; and that in run_mapping the success message, the result "
    "records, and in _run_mapping the CSV writer, are dominated by the "
    "normal return of the mapping / election, the except clause re-raises, "
    "the log is written in the finally block, and blob_to_hdf5 cannot reach "
    "the result writer when 'results' is absent. Decides these structural "
    "necessary conditions, not the runtime behaviour of the OS.")

EXPLANATION += (
    ' Round 5: settings are forwarded at every call (R-FWD/parameter-forwarded).'
)

EXPLANATION += (
    ' Round 7: no jump out of a finally block discards a failure (R-IDIOM/jump-in-finally, package-wide).'
)

EXPLANATION += (
    " Round 11: no handler around a dispatch absorbs the drain's error (R-HANDLER/dispatch-failure)."
)

EXPLANATION += (
    ' Round 16: interrupt and exit handlers on worker paths re-raise (R-HANDLER/no-swallow).'
)

EXPLANATION += (
    ' Round 17: a call that both writes the output and starts workers is judged inside the callee (R-MUST/publish-after-drain).'
)

RULE_TEXT = (
    "one obligation per (rule, construct): spawn site x collection, exit-"
    "code test, removal site, handler, (stage, output write, spawn point), "
    "dominance relation in run_mapping; an obligation is non-trivial when "
    "its premise exists in the code (a started process, a handler, a write "
    "effect on the output parameter)")

ASSUMPTIONS = [
    "CPython multiprocessing: a child that is killed, exits non-zero or "
    "dies from an uncaught exception has a non-zero exitcode",
    "statement-level CFG; exceptions may arise at any call/subscript; "
    "finally runs on every exit",
    "CPU configuration (torch branches not analysed)",
    "necessary conditions only -- a pass does not establish the "
    "behavioural property",
]

PIPELINE_SPAWN_MODULES = (
    'type_assignment.election', 'diff_exp.precompute_from_anndata',
    'diff_exp.markers', 'diff_exp.p_value_mask', 'diff_exp.p_value_markers',
    'marker_selection.selection_pipeline', 'utils.csc_to_csr_parallel')

# (stage, function, output parameter)
STATS_CONSUMERS = [
    ('taxonomy.taxonomy_tree:TaxonomyTree.from_precomputed_stats',
     'stats_path'),
    ('diff_exp.score_utils:read_precomputed_stats',
     'precomputed_stats_path')]
MARKER_CONSUMERS = [
    ('marker_selection.marker_array:MarkerGeneArray.from_cache_path',
     'cache_path')]

# (stage, function, output parameter, consumers of the file)
STAGES = [
    ('reference statistics',
     'diff_exp.precompute_from_anndata:'
     '_precompute_summary_stats_from_h5ad_and_lookup', 'output_path',
     STATS_CONSUMERS),
    ('reference statistics (tree)',
     'diff_exp.precompute_from_anndata:'
     'precompute_summary_stats_from_h5ad_and_tree', 'output_path',
     STATS_CONSUMERS),
    ('reference statistics (list+tree)',
     'diff_exp.precompute_from_anndata:'
     'precompute_summary_stats_from_h5ad_list_and_tree', 'output_path',
     STATS_CONSUMERS),
    ('reference markers',
     'diff_exp.markers:find_markers_for_all_taxonomy_pairs', 'output_path',
     MARKER_CONSUMERS),
    ('p-value mask',
     'diff_exp.p_value_mask:_create_p_value_mask_file', 'dst_path',
     [('diff_exp.p_value_markers:'
       'create_sparse_by_pair_marker_file_from_p_mask',
       'p_value_mask_path')]),
    ('reference markers from p-value mask',
     'diff_exp.p_value_markers:'
     '_find_markers_for_all_taxonomy_pairs_from_p_mask', 'output_path',
     MARKER_CONSUMERS),
    ('parallel transposition',
     'utils.csc_to_csr_parallel:_transpose_sparse_matrix_on_disk_v2',
     'output_path', []),
]


def in_pipeline(m):
    return not m.short.startswith(('gpu_utils', 'corr'))


def check(ctx):
    db = ctx.db
    sites = W.find_spawn_sites(db)
    anchored = [s for s in sites
                if s.fi.module.short in PIPELINE_SPAWN_MODULES]
    others = [s for s in sites if s not in anchored]
    ctx.floor('R-PAIR/worker-drain', 7)
    for s in anchored:
        W.check_spawn_drain(ctx, s)
    if ctx.tier == 'thorough':
        for s in others:
            sub = _Advisory(ctx)
            W.check_spawn_drain(sub, s)

    # --- the drain raises ------------------------------------------------
    ctx.floor('R-DRAIN/raises', 2)
    for q in W.DRAIN_FUNCS:
        W.check_drain_raises(ctx, db.fn(q))

    # --- workers do not hide failures --------------------------------------
    targets = []
    for s in anchored:
        if s.target is None:
            ctx.fail('R-HANDLER/worker-target', s.key, s.fi.loc(s.call),
                     'worker target is not a resolvable package function')
        else:
            targets.append(s.target)
    seen = set()
    n_handlers = 0
    for t in targets:
        reach = ctx.cg.reachable([t.qual], max_depth=3)
        for q, d in sorted(reach.items()):
            if q in seen:
                continue
            seen.add(q)
            fi = db.functions.get(q)
            if fi is None:
                continue
            n_handlers += W.check_no_swallow(
                ctx, fi, f'on the path of worker {t.name} (depth {d})')
    ctx.ok('R-HANDLER/worker-scan', 'worker-call-closure', 'package',
           f'{len(seen)} functions reachable from {len(targets)} worker '
           f'targets (depth<=3) scanned; {n_handlers} broad handlers found',
           nontrivial=True)
    _positive_control_handler(ctx)

    # --- nothing is published before the drain ------------------------------
    check_publish_after_drain(ctx, sites)
    check_dispatch_failures_not_absorbed(ctx, sites)

    # --- the mapping run -----------------------------------------------------
    check_run_mapping(ctx)
    check_blob_to_hdf5(ctx)
    # settings this property depends on are handed down every call
    # chain, never left to a callee's default (sa/rules/forwarding.py)
    # no jump out of a `finally:` block discards a worker's failure
    from ..rules.idioms import check_jump_in_finally
    n_j = 0
    for fi_ in ctx.db.iter_functions():
        if not fi_.module.short.startswith('gpu_utils'):
            n_j += check_jump_in_finally(ctx, fi_)
    ctx.ok('R-IDIOM/jump-in-finally', 'package', 'package',
           'no return / break / continue inside a finally block',
           nontrivial=False)
    from ..rules.forwarding import check_forwarding
    check_forwarding(ctx, {'n_processors', 'output_list', 'output_lock'})


class _Advisory(object):
    """wrap a context so that every obligation is recorded as advisory"""

    def __init__(self, ctx):
        self._ctx = ctx
        self.db = ctx.db
        self.cg = ctx.cg
        self.tier = ctx.tier

    def touch(self, fi):
        self._ctx.touch(fi)

    def ok(self, rule, key, where, detail='', **kw):
        kw['advisory'] = True
        return self._ctx.ob(rule, key, where, True, detail, **kw)

    def fail(self, rule, key, where, detail='', **kw):
        kw['advisory'] = True
        return self._ctx.ob(rule, key, where, False, detail, **kw)

    def ob(self, rule, key, where, ok, detail='', **kw):
        kw['advisory'] = True
        return self._ctx.ob(rule, key, where, ok, detail, **kw)


def _positive_control_handler(ctx):
    """zero-expected rule: a fixture with a swallowing handler must match"""
    import types
    from ..core.loader import FunctionInfo, ModuleInfo, _set_parents
    src = ("def worker(x):\n"
           "    try:\n"
           "        work(x)\n"
           "    except Exception:\n"
           "        print('oops')\n")
    tree = ast.parse(src)
    _set_parents(tree)
    m = ModuleInfo('cell_type_mapper._fixture', None, '<fixture>', tree, src)
    fi = FunctionInfo(m, None, 'worker', tree.body[0])
    cfg = cfg_of(fi)
    hs = [n for n in cfg.nodes if n.kind == 'handler']
    if len(hs) != 1 or W.handler_reraises(cfg, hs[0]):
        raise AnalysisError('positive control for R-HANDLER/no-swallow '
                            'did not fire')
    src2 = src.replace("print('oops')", "print('oops')\n        raise")
    tree2 = ast.parse(src2)
    _set_parents(tree2)
    fi2 = FunctionInfo(m, None, 'worker', tree2.body[0])
    cfg2 = cfg_of(fi2)
    hs2 = [n for n in cfg2.nodes if n.kind == 'handler']
    if not W.handler_reraises(cfg2, hs2[0]):
        raise AnalysisError('negative control for R-HANDLER/no-swallow '
                            'fired')
    ctx.note('positive/negative control for R-HANDLER/no-swallow behaved')


# ----------------------------------------------------------------------

def spawner_functions(ctx, sites):
    """functions that (transitively) start worker processes"""
    direct = {s.fi.qual for s in sites if s.start_nodes}
    out = set(direct)
    changed = True
    while changed:
        changed = False
        for q, tgts in ctx.cg.edges.items():
            if q in out:
                continue
            if tgts & out:
                # a Process(target=f) edge is not a synchronous call of f
                out.add(q)
                changed = True
    return direct, out


def check_publish_after_drain(ctx, sites):
    """
    While a worker of the stage can still be started or fail, the file at
    the requested output location must not already hold everything a
    consumer requires.  Writes that come after the last drain are fine;
    for writes before it the keys they create are compared (E-D) with the
    keys the next stage's readers require.
    """
    db = ctx.db
    pa = PathAnalysis(db, ctx.cg)
    sc = H5Schema(db, ctx.cg, pa)
    direct, spawners = spawner_functions(ctx, sites)
    rule = 'R-MUST/publish-after-drain'
    ctx.floor(rule, 7)
    todo = list(STAGES)
    judged_frames = set()
    while todo:
        stage, q, out, consumers = todo.pop(0)
        if (q, out) in judged_frames:
            continue
        judged_frames.add((q, out))
        fi = db.fn(q)
        ctx.touch(fi)
        cfg = cfg_of(fi)
        rd = rd_of(fi)
        if out not in fi.params:
            raise AnalysisError(f'{q} has no parameter {out}')
        writes = []
        for eff in pa.effects(fi):
            if eff.root != out or eff.kind not in ('write', 'remove'):
                continue
            if eff.rel not in ('same', 'under'):
                continue
            site = eff.via[-1][1] if eff.via else eff.site
            writes.append((site, eff))
        spawn_nodes = []
        for node in cfg.nodes:
            if node.id not in rd.live:
                continue
            for c in cfg.calls_in(node):
                t = resolve_callee(db, fi, c)
                if isinstance(t, FunctionInfo) and t.qual in spawners \
                        and not _is_process_ctor(db, fi, c):
                    spawn_nodes.append((node, c, t.qual))
                if isinstance(c.func, ast.Attribute) \
                        and c.func.attr == 'start':
                    for s in sites:
                        if s.fi is fi and isinstance(
                                c.func.value, ast.Name) \
                                and c.func.value.id == s.var:
                            spawn_nodes.append((node, c, 'start()'))
                if W.is_drain_call(db, fi, c):
                    spawn_nodes.append((node, c, 'drain'))
        if not writes:
            ctx.fail(rule, f'{q}:{out}', fi.loc(),
                     f'{stage}: no write effect on `{out}` found in this '
                     'frame; the stage table no longer matches the code')
            continue
        if not spawn_nodes:
            ctx.fail(rule, f'{q}:{out}', fi.loc(),
                     f'{stage}: no worker is started from this frame; the '
                     'stage table no longer matches the code')
            continue
        # required reads of the consumers
        required = dict()
        for (cq, cp) in consumers:
            cfi = db.fn(cq)
            ctx.touch(cfi)
            for k, acc in sc.required_reads(cfi, cp).items():
                if '*' in k:
                    continue
                required.setdefault(k, acc)
        seen_sites = set()
        early = []
        for site, eff in writes:
            if id(site) in seen_sites:
                continue
            seen_sites.add(id(site))
            wnodes = [n for n in cfg.node_of_expr(site) if n.id in rd.live]
            key = f'{q}:{out}:{_callee_text(site)}'
            bad = None
            for wn in wnodes:
                reach = cfg.reachable(wn.id)
                for (sn, c, what) in spawn_nodes:
                    if sn.id == wn.id and c is site:
                        # one call that both writes the output and starts
                        # workers: the order of the two is decided inside
                        # the callee, which is judged as a frame of its own
                        t_ = resolve_callee(db, fi, c)
                        if isinstance(t_, FunctionInfo):
                            m_, _ = bind_args(t_, c)
                            for pn_, a_ in m_.items():
                                if isinstance(a_, ast.Name) \
                                        and a_.id == out:
                                    todo.append((f'{stage} (in '
                                                 f'{t_.name})', t_.qual,
                                                 pn_, consumers))
                        continue
                    if sn.id in reach and sn.id != wn.id:
                        bad = (sn, c, what, cfg.path(wn.id, {sn.id}))
                        break
                    if sn.id == wn.id and c is not site:
                        bad = (sn, c, what, [wn.id])
                        break
                if bad:
                    break
            if bad is None:
                ctx.ok(rule, key, fi.loc(site),
                       f'{stage}: `{_short(site)}` writes `{out}` only '
                       'after every worker of this frame was drained')
            else:
                early.append((site, eff, key, bad))
        if not early:
            continue
        # keys present before the last drain
        pre_keys = set()
        opaque = []
        for (site, eff, key, bad) in early:
            ks = _keys_created_by(sc, db, fi, site, out)
            if ks is None:
                opaque.append(site)
            else:
                pre_keys |= ks
        for (site, eff, key, bad) in early:
            sn, c, what, p = bad
            missing = sorted(k for k in required if k not in pre_keys)
            if site in opaque or not required or not missing:
                why = ('it places a whole file there' if site in opaque
                       else 'together the early writes create every key '
                       'a consumer requires'
                       if required else 'no consumer schema is known')
                ctx.fail(rule, key, fi.loc(site),
                         f'{stage}: `{_short(site)}` writes the requested '
                         f'output `{out}` while workers can still be '
                         f'started or fail afterwards ({what} at '
                         f'L{sn.lineno}) and {why}: a failed worker would '
                         'leave a file the next stage accepts',
                         witness=cfg.fmt_path(p) + eff.chain())
            else:
                acc = required[missing[0]]
                ctx.ok(rule, key, fi.loc(site),
                       f'{stage}: `{_short(site)}` runs before the drain '
                       f'but creates only {sorted(pre_keys)}; the consumer '
                       f'requires {missing} (e.g. {acc.fi.qual} at '
                       f'{acc.where()}), which are written only after the '
                       'drain')


def _keys_created_by(sc, db, fi, site, out):
    """keys created in file `out` by the call `site` of frame fi; None if
    the call puts a complete file in place (copy / move)"""
    t = resolve_callee(db, fi, site)
    nm = ext_name(t)
    if nm in ('shutil.move', 'shutil.copy', 'shutil.copyfile',
              'shutil.copy2', 'os.rename', 'os.replace'):
        return None
    callee = None
    if isinstance(t, FunctionInfo):
        callee = t
    if callee is None:
        if nm == 'h5py.File':
            # keys created through the handle in this frame
            return set(sc.written(fi, out))
        return None
    mapping, _ = bind_args(callee, site)
    keys = set()
    found = False
    env = sc.pa.var_origins(fi)
    for pn, a in mapping.items():
        if sc._denotes_file(fi, a, out, env):
            found = True
            keys |= set(sc.written(callee, pn))
    return keys if found else None


def _is_process_ctor(db, fi, c):
    t = resolve_callee(db, fi, c)
    return ext_name(t) == 'multiprocessing.Process'


def _callee_text(call):
    return unparse(call.func)


def _short(n):
    t = unparse(n).replace('\n', ' ')
    return t if len(t) < 80 else t[:77] + '...'


# ----------------------------------------------------------------------

def _calls_to(db, fi, cfg, rd, qual):
    out = []
    for node in cfg.nodes:
        if node.id not in rd.live:
            continue
        for c in cfg.calls_in(node):
            t = resolve_callee(db, fi, c)
            if isinstance(t, FunctionInfo) and t.qual == qual:
                out.append((node, c))
    return out


def _normal_succ(cfg, nid):
    return [t for (t, lab) in cfg.succ[nid] if lab != 'exc']


def dominated_by_normal_return_of(cfg, call_node_id, nid):
    """nid is only reachable through a normal (non-exceptional) completion
    of the statement at call_node_id"""
    for t in _normal_succ(cfg, call_node_id):
        if t == nid or cfg.dominates(t, nid):
            return True
    return False


def check_run_mapping(ctx):
    db = ctx.db
    fi = db.fn('cli.from_specified_markers:run_mapping')
    inner = db.fn('cli.from_specified_markers:_run_mapping')
    ctx.touch(fi)
    ctx.touch(inner)
    cfg = cfg_of(fi)
    rd = rd_of(fi)
    calls = _calls_to(db, fi, cfg, rd, inner.qual)
    rule = 'R-MUST/run-mapping'
    if len(calls) != 1:
        ctx.fail(rule, 'run_mapping:call-_run_mapping', fi.loc(),
                 f'expected exactly one call of _run_mapping, found '
                 f'{len(calls)}')
        return
    call_node, call = calls[0]

    # (a) handlers that can catch the mapping's failure re-raise
    sw = W.swallowing_handlers_for(cfg, call_node.id)
    if sw:
        for h in sw:
            ctx.fail(rule + '/reraise', f'run_mapping:{h.text()}',
                     fi.loc(h.ast),
                     f'`{h.text()}` around _run_mapping can complete '
                     'without re-raising: a failed mapping would return '
                     'normally')
    else:
        ctx.ok(rule + '/reraise', 'run_mapping:handlers', fi.loc(call),
               'every handler that can catch a failure of _run_mapping '
               're-raises')
    # an exception of _run_mapping cannot reach the NORMAL exit at all
    exc_targets = [t for (t, lab) in cfg.succ[call_node.id] if lab == 'exc']
    p = None
    for t in exc_targets:
        p = cfg.path(t, {cfg.exit},
                     edge_ok=lambda a, b, lab: True)
        if p is not None and not _path_passes_raise(cfg, p):
            break
        p = None
    if p is not None:
        ctx.fail(rule + '/exc-to-normal', 'run_mapping:_run_mapping',
                 fi.loc(call),
                 'an exception raised by _run_mapping can reach a normal '
                 'return of run_mapping', witness=cfg.fmt_path(p))
    else:
        ctx.ok(rule + '/exc-to-normal', 'run_mapping:_run_mapping',
               fi.loc(call), 'no path from a failure of _run_mapping to a '
               'normal return')

    # (b) success messages are dominated by the normal return
    n_succ = 0
    for node in cfg.nodes:
        if node.id not in rd.live:
            continue
        for c in cfg.calls_in(node):
            if _is_success_message(c):
                n_succ += 1
                key = f'run_mapping:{_short(c)}'
                if dominated_by_normal_return_of(cfg, call_node.id, node.id):
                    ctx.ok(rule + '/success-msg', key, fi.loc(c),
                           'success message only after _run_mapping '
                           'returned normally')
                else:
                    ctx.fail(rule + '/success-msg', key, fi.loc(c),
                             'a success message can be emitted on a path '
                             'where _run_mapping did not return normally')
    # (c) result records: whatever is stored in the output dict under
    # 'results' (or the dict itself) comes from _run_mapping's return only
    out_var = None
    par = getattr(call, '_parent', None)
    if isinstance(par, ast.Assign) and isinstance(par.targets[0], ast.Name):
        out_var = par.targets[0].id
    if out_var is None:
        ctx.fail(rule + '/results', 'run_mapping:output', fi.loc(call),
                 'return value of _run_mapping is not bound to the output '
                 'dict')
    else:
        bad = []
        for d in rd.defs:
            if d.name != out_var or d.node not in rd.live:
                continue
            if d.stmt is par:
                continue
            if d.kind == 'assign' and _is_empty_dict(d.value):
                continue
            bad.append(d)
        for (nid, astn, how) in rd.mutations(out_var):
            # stores of other keys are fine; a store of 'results' is not
            if how == 'store-item':
                for t in astn.targets:
                    if isinstance(t, ast.Subscript) and isinstance(
                            t.slice, ast.Constant) and t.slice.value in (
                                'results',):
                        bad.append(cfg.nodes[nid])
            elif how in ('update', 'setdefault'):
                bad.append(cfg.nodes[nid])
        if bad:
            for b in bad:
                node = b if not hasattr(b, 'node') else cfg.nodes[b.node]
                ctx.fail(rule + '/results',
                         f'run_mapping:{out_var}:{node.text()}',
                         fi.loc(node.ast),
                         f'`{node.text()}` can give the output dict result '
                         'records that do not come from a normal return of '
                         '_run_mapping')
        else:
            ctx.ok(rule + '/results', f'run_mapping:{out_var}',
                   fi.loc(par),
                   f'`{out_var}` is only ever an empty dict or the return '
                   'value of _run_mapping; no other store of "results"')

    # (d) the log is written on the failing path as well
    wl = []
    for node in cfg.nodes:
        if node.id not in rd.live:
            continue
        for c in cfg.calls_in(node):
            if isinstance(c.func, ast.Attribute) \
                    and c.func.attr == 'write_log':
                wl.append(node)
    on_exc = False
    on_norm = False
    for t in exc_targets:
        reach = cfg.reachable(t)
        if any(n.id in reach for n in wl):
            on_exc = True
    for t in _normal_succ(cfg, call_node.id):
        reach = cfg.reachable(t)
        if any(n.id in reach for n in wl):
            on_norm = True
    # and it must sit in a finally (every continuation has a copy)
    in_finally = any(_in_finally(n.ast) for n in wl)
    if wl and on_exc and on_norm and in_finally:
        ctx.ok(rule + '/log-written', 'run_mapping:write_log', fi.loc(),
               'write_log is in a finally block reached from both the '
               'normal and the failing completion of _run_mapping')
    else:
        ctx.fail(rule + '/log-written', 'run_mapping:write_log', fi.loc(),
                 'the log file is not written on every completion of '
                 f'_run_mapping (calls={len(wl)}, on failure={on_exc}, '
                 f'on success={on_norm}, in finally={in_finally})')

    # (e) output files are written on the failing path too, and only in
    # the finally block (so that "still writes its log" holds for the
    # JSON/HDF5 outputs which carry the log)
    # -- covered by (d) for the log file; JSON/HDF5 writers:
    for qual, nm in (('utils.output_utils:blob_to_hdf5', 'blob_to_hdf5'),):
        cs = _calls_to(db, fi, cfg, rd, qual)
        for (node, c) in cs:
            if not _in_finally(c):
                ctx.fail(rule + '/outputs-in-finally',
                         f'run_mapping:{nm}', fi.loc(c),
                         f'{nm} is not in the finally block: a failed run '
                         'would not record its log in the HDF5 output')
            else:
                ctx.ok(rule + '/outputs-in-finally', f'run_mapping:{nm}',
                       fi.loc(c), f'{nm} is called from the finally block')

    # (f) in _run_mapping the CSV writer is dominated by the election
    cfg2 = cfg_of(inner)
    rd2 = rd_of(inner)
    el = _calls_to(db, inner, cfg2, rd2,
                   'type_assignment.election_runner:'
                   'run_type_assignment_on_h5ad')
    csvs = _calls_to(db, inner, cfg2, rd2, 'utils.output_utils:blob_to_csv')
    obsm = _calls_to(db, inner, cfg2, rd2,
                     'utils.anndata_utils:append_to_obsm')
    if len(el) != 1:
        ctx.fail(rule + '/csv', '_run_mapping:election', inner.loc(),
                 f'expected one call of run_type_assignment_on_h5ad, found '
                 f'{len(el)}')
    else:
        for (node, c) in csvs + obsm:
            nm = unparse(c.func)
            if dominated_by_normal_return_of(cfg2, el[0][0].id, node.id):
                ctx.ok(rule + '/csv', f'_run_mapping:{nm}', inner.loc(c),
                       f'{nm} only after the election returned normally')
            else:
                ctx.fail(rule + '/csv', f'_run_mapping:{nm}', inner.loc(c),
                         f'{nm} can run on a path where the election did '
                         'not return normally')
        # the result value written comes from the election's return
        ex = Expander(inner)
        for (node, c) in csvs:
            tcal = db.fn('utils.output_utils:blob_to_csv')
            mapping, _ = bind_args(tcal, c)
            a = mapping.get('results_blob')
            if a is None:
                continue
            term = ex.expand(a, node.id)
            ok = term_contains(
                term, lambda t: isinstance(t, tuple) and len(t) > 1
                and t[0] == 'call' and t[1] == (
                    'name', 'run_type_assignment_on_h5ad'))
            if ok:
                ctx.ok(rule + '/csv-source', '_run_mapping:blob_to_csv',
                       inner.loc(c), 'CSV rows derive from the election '
                       'result')
            else:
                ctx.fail(rule + '/csv-source', '_run_mapping:blob_to_csv',
                         inner.loc(c), 'CSV rows do not derive from the '
                         'return value of run_type_assignment_on_h5ad')


def _path_passes_raise(cfg, p):
    return any(cfg.nodes[i].kind == 'raise' for i in p)


def _is_success_message(c):
    """a log/print call whose constant text announces success"""
    f = c.func
    nm = f.attr if isinstance(f, ast.Attribute) else (
        f.id if isinstance(f, ast.Name) else None)
    if nm not in ('info', 'print', 'add_msg', 'warn', 'env', 'benchmark'):
        return False
    for a in c.args:
        for sub in ast.walk(a):
            if isinstance(sub, ast.Constant) and isinstance(sub.value, str):
                if 'SUCCESS' in sub.value.upper():
                    return True
    return False


def _is_empty_dict(e):
    if isinstance(e, ast.Dict) and not e.keys:
        return True
    if isinstance(e, ast.Call) and isinstance(e.func, ast.Name) \
            and e.func.id == 'dict' and not e.args and not e.keywords:
        return True
    return False


def _in_finally(astn):
    n = astn
    while n is not None:
        p = getattr(n, '_parent', None)
        if isinstance(p, ast.Try) and any(n is s for s in p.finalbody):
            return True
        n = p
    return False


def check_blob_to_hdf5(ctx):
    """the result writer is unreachable when 'results' is absent"""
    db = ctx.db
    fi = db.fn('utils.output_utils:blob_to_hdf5')
    ctx.touch(fi)
    cfg = cfg_of(fi)
    rd = rd_of(fi)
    rule = 'R-GUARD/hdf5-results-present'
    wr = _calls_to(db, fi, cfg, rd, 'utils.output_utils:_blob_to_hdf5_results')
    blob = fi.params[0]

    def assume(e, env):
        # 'results' in blob -> False ; 'results' not in blob -> True
        if isinstance(e, ast.Compare) and len(e.ops) == 1 \
                and isinstance(e.left, ast.Constant) \
                and e.left.value == 'results':
            c = e.comparators[0]
            is_blob = (isinstance(c, ast.Name) and c.id == blob) or (
                isinstance(c, ast.Call) and isinstance(c.func, ast.Attribute)
                and c.func.attr == 'keys' and isinstance(
                    c.func.value, ast.Name) and c.func.value.id == blob)
            if is_blob:
                if isinstance(e.ops[0], ast.In):
                    return False
                if isinstance(e.ops[0], ast.NotIn):
                    return True
        return UNKNOWN
    feas = feasible(fi, assume, follow_exc=True)
    if not wr:
        # results written inline: every create_dataset other than metadata
        # must be infeasible under the assumption -- not the repo's idiom
        ctx.fail(rule, 'blob_to_hdf5:_blob_to_hdf5_results', fi.loc(),
                 'result writer call not found; cannot show that results '
                 'are written only when present')
        return
    for (node, c) in wr:
        if node.id in feas.nodes:
            ctx.fail(rule, 'blob_to_hdf5:_blob_to_hdf5_results', fi.loc(c),
                     "the result writer is reachable when 'results' is "
                     'absent from the output blob (failed run): the HDF5 '
                     'output would carry result arrays or crash')
        else:
            ctx.ok(rule, 'blob_to_hdf5:_blob_to_hdf5_results', fi.loc(c),
                   "unreachable under the assumption 'results' not in "
                   'output_blob (constant propagation over the CFG)')
    # metadata is written unconditionally: the log survives a failure
    meta_nodes = []
    for node in cfg.nodes:
        if node.id not in rd.live:
            continue
        for c in cfg.calls_in(node):
            if isinstance(c.func, ast.Attribute) \
                    and c.func.attr == 'create_dataset' and c.args \
                    and isinstance(c.args[0], ast.Constant) \
                    and c.args[0].value == 'metadata':
                meta_nodes.append(node)
    if meta_nodes and all(n.id in feas.nodes for n in meta_nodes):
        ctx.ok(rule + '/metadata', 'blob_to_hdf5:metadata', fi.loc(),
               'metadata (config, log) is written also when results are '
               'absent')
    else:
        ctx.fail(rule + '/metadata', 'blob_to_hdf5:metadata', fi.loc(),
                 'metadata dataset is not written when results are absent')


def check_dispatch_failures_not_absorbed(ctx, sites,
                                         rule='R-HANDLER/dispatch-failure'):
    """a failed worker reaches the caller as the RuntimeError the drain
    raises.  Between the drain and the stage's caller nothing absorbs it:
    in every function that (transitively) starts workers, a handler that
    can catch that error (bare, Exception, BaseException, RuntimeError) on
    a `try` whose body calls a function that starts workers re-raises on
    every path -- no fallback computation, no retry, no conditional
    raise."""
    db = ctx.db
    direct, spawners = spawner_functions(ctx, sites)
    catching = set(W.BROAD) | {'RuntimeError', '<bare>'}
    n = 0
    n_fn = 0
    for q in sorted(spawners):
        fi = db.functions.get(q)
        if fi is None or fi.module.short.startswith('gpu_utils'):
            continue
        n_fn += 1
        cfg = cfg_of(fi)
        rd = rd_of(fi)
        for t in ast.walk(fi.node):
            if not isinstance(t, ast.Try) or not t.handlers:
                continue
            # does the body call a function that starts workers (or drain
            # a pool)?
            calls_spawner = False
            for c in ast.walk(ast.Module(body=t.body, type_ignores=[])):
                if not isinstance(c, ast.Call):
                    continue
                tt = resolve_callee(db, fi, c)
                if isinstance(tt, FunctionInfo) and tt.qual in spawners:
                    calls_spawner = True
                nm = getattr(c.func, 'id', getattr(c.func, 'attr', None))
                if nm in ('winnow_process_list', 'winnow_process_dict'):
                    calls_spawner = True
            if not calls_spawner:
                continue
            for h in t.handlers:
                names = set(W.handler_names(h))
                if not (names & catching):
                    continue
                hn = [x for x in cfg.nodes if x.kind == 'handler'
                      and x.ast is h and x.id in rd.live]
                if not hn:
                    continue
                n += 1
                ok = all(W.handler_reraises(cfg, x) for x in hn)
                ctx.touch(fi)
                ctx.ob(rule, f'{fi.qual}:except {",".join(sorted(names))}',
                       fi.loc(h), ok,
                       'the handler re-raises on every path' if ok else
                       f'`except {", ".join(sorted(names))}` around the '
                       f'dispatch in {fi.name} can complete without '
                       're-raising: the failure of a worker is absorbed '
                       '(fallback, retry or conditional raise) and the '
                       'stage returns normally')
    ctx.ok(rule, 'dispatch-closure', 'package',
           f'{n_fn} functions that start workers (directly or through '
           f'callees) scanned; {n} handler(s) around a dispatch found',
           nontrivial=True)
