"""
C11 -- reference markers are sound and complete for the stated criteria.

The property is about numbers (a Welch statistic, a Holm-corrected
p-value, penetrance fractions) for every pair x gene.  None of them is
computed here.  What is decided is the part of each clause that is visible
in the shape of the code that produces the marker tables; every item is a
necessary condition of a clause, and the statement can fail with all of
them in place (a wrong mean gives a wrong statistic however it is
combined).

 1. the Welch statistic is (mean1 - mean2) / sqrt(var1/n1 + var2/n2) and
    the degrees of freedom the Welch-Satterthwaite quotient -- compared as
    rational functions, so any equivalent spelling is accepted
 2. the p-value is two-sided (2 * the smaller tail) and a non-finite CDF
    becomes 0.5 before that; exact and approximate variants agree
 3. Holm: p-values sorted increasingly, the k-th multiplied by m - k + 1
    with m the number of hypotheses *including* those left out by the
    restricted variant, running maximum, put back with the same
    permutation, capped at 1
 4. restricted Holm corrects exactly the p-values below the threshold and
    pads the count with the number it leaves out
 5. both routes refuse pairs in which a cluster has fewer than two cells
 6. validity = (corrected p < p_th) AND penetrance, the threshold being
    the one the p-values were computed for; in the mask route the floors
    are applied to the p-value mask before it is stored
 7. direction: up where the second cluster's mean exceeds the first's, in
    both routes; up and down sets are validity AND up / validity AND NOT
    up with the same two operands (hence disjoint)
 8. penetrance: strict thresholds with `>`, floors with `<`; the distance
    terms vanish beyond the threshold they measure from; floors are the
    last word of the relaxed test
 9. a gene list restricts both routes before anything is relaxed
10. the gene-major table is the on-disk transpose of the pair-major one,
    direction by direction
"""
import ast

from ..core.cfg import cfg_of
from ..core.defuse import rd_of, Expander, fmt_term, term_alts
from ..core import terms as T
from ..core import poly as P
from ..core.loader import unparse, AnalysisError, FunctionInfo
from ..core.resolve import resolve_callee, bind_args

ID = 'C11'

EXPLANATION = (
    "Static analysis of the code that produces the reference marker "
    "tables (utils/stats_utils.py, diff_exp/scores.py, score_utils.py, "
    "markers.py, p_value_mask.py, p_value_markers.py): symbolic terms over "
    "reaching definitions, brought to a polynomial / rational normal form "
    "where arithmetic is compared, show that the Welch statistic and the "
    "Welch-Satterthwaite degrees of freedom are the textbook quotients; "
    "that the p-value is two-sided with non-finite CDF values replaced by "
    "0.5; that the Holm correction multiplies the k-th smallest p-value by "
    "m - k + 1 (m counting the hypotheses the restricted variant leaves "
    "out), takes the running maximum, scatters back with the sorting "
    "permutation and caps at 1; that both marker routes skip pairs with a "
    "cluster of fewer than two cells; that validity is the conjunction of "
    "the p-value test (against the threshold the p-values were corrected "
    "for) and the penetrance test; that the direction is taken from the "
    "comparison of the two means, identically in both routes, and the up "
    "and down sets are complementary within the valid set; that strict "
    "thresholds use `>` and floors `<`, floors being applied last; that a "
    "gene list masks both routes; and that the gene-major table is "
    "produced by the on-disk transposition of the pair-major table of the "
    "same direction. The numbers themselves are not decided.")

EXPLANATION += (
    ' Round 6: the gene list is applied whenever one is given, an empty list included (R-PROV/gene-list/whenever-given).'
)

EXPLANATION += (
    ' Round 7: both marker workers write an entry for every pair index of their run (R-COVER/every-pair-recorded).'
)

EXPLANATION += (
    ' Round 8: all genes enter the Holm correction whatever the gene list (R-ARITH/holm-counts-all-genes); marker files can be written when a direction has no marker and for chunks of a single pair (findings F9, F10).'
)

EXPLANATION += (
    ' Mean and variance of a node are S / N and (Q - S^2/N)/(N - 1) of the statistics summed over its leaves, compared as rational functions (R-ARITH/moments).'
)

EXPLANATION += (
    ' Round 10: the batch search of the on-disk transposition stops only after an end of the batch was recorded (R-COVER/batch-search).'
)

EXPLANATION += (
    " Round 14: a keyword slot whose name the caller holds a value for is not given the local the same call hands to that local's own slot (R-FWD/keyword-not-crossed)."
)

EXPLANATION += (
    ' Round 15: no in-place store through an alias of an array that is read again (R-ALIAS/edited-through-alias).'
)

EXPLANATION += (
    ' Round 18: a total of lengths is a count in the kind analysis of chosen integer types (R-CAP/bound-kind).'
)

RULE_TEXT = (
    "one obligation per arithmetic relation (quotient, multiplier, "
    "comparison operator, conjunction operand) and per guard; polynomial "
    "identities are compared in normal form")

ASSUMPTIONS = [
    "numpy / scipy semantics of where, argsort, maximum.accumulate, "
    "t.cdf as modelled",
    "necessary conditions only: wrong summary statistics or a wrong "
    "penetrance fraction give wrong markers with every relation intact",
    "worker-count and memory-budget independence is decided under C04",
]

SU = 'utils.stats_utils:'
SC = 'diff_exp.scores:'


def check(ctx):
    check_welch(ctx)
    check_moments(ctx)
    check_two_sided(ctx)
    check_holm(ctx)
    check_restricted_holm(ctx)
    check_min_cells(ctx)
    check_validity(ctx)
    check_direction(ctx)
    check_penetrance(ctx)
    check_gene_list(ctx)
    check_transposed_tables(ctx)
    check_every_pair_recorded(ctx)
    check_all_genes_corrected(ctx)
    # the gene-major tables are the transpose of the pair-major ones: the
    # on-disk transposition leaves no row out (sa/rules/tiling.py)
    from ..rules.tiling import check_batch_search
    n_bs = 0
    for fi_ in ctx.db.iter_functions():
        if fi_.module.short in ('utils.csc_to_csr',
                                'utils.csc_to_csr_parallel'):
            n_bs += check_batch_search(ctx, fi_)
    if n_bs < 1:
        raise AnalysisError('the batch search of the on-disk transposition '
                            'was not recognised')
    # the marker files can be written for every outcome of the criteria --
    # no marker in one direction, no significant gene at all, a chunk of
    # a single pair (rules of C05 / sa/rules/idioms.py)
    from .C05 import check_signs
    check_signs(ctx, ('diff_exp.markers', 'diff_exp.p_value_mask',
                      'diff_exp.p_value_markers'), advisory_rest=False)
    from ..rules.idioms import check_diff_contiguity
    n_c = 0
    for fi_ in ctx.db.iter_functions():
        if fi_.module.short.startswith('diff_exp.'):
            n_c += check_diff_contiguity(ctx, fi_)
    if n_c < 2:
        raise AnalysisError('the contiguity tests of the marker workers '
                            'were not recognised')
    from ..rules.forwarding import check_forwarding
    check_forwarding(ctx, {
        'p_th', 'q1_th', 'qdiff_th', 'log2_fold_th', 'q1_min_th',
        'qdiff_min_th', 'log2_fold_min_th', 'n_valid', 'exact_penetrance',
        'gene_list', 'valid_gene_idx', 'boring_t', 'big_nu'})


def _fn(ctx, q):
    fi = ctx.db.fn(q)
    ctx.touch(fi)
    return fi, cfg_of(fi), rd_of(fi), Expander(fi)


def _has(t, pred):
    """some sub-term satisfies pred"""
    return any(pred(x) for x in T.subterms(t))


def _cname(t):
    return T.call_name(t) if isinstance(t, tuple) and t and t[0] == 'call' \
        else None


def _returns(cfg, rd):
    return [n for n in cfg.nodes if n.kind == 'return' and n.id in rd.live
            and n.ast.value is not None]


def _par(name):
    return P.atom(('param', name))


# ----------------------------------------------------------------------
# 1. Welch statistic and degrees of freedom
# ----------------------------------------------------------------------

def check_welch(ctx):
    fi, cfg, rd, ex = _fn(ctx, SU + '_calculate_tt_nu')
    rule = 'R-ARITH/welch'
    rets = _returns(cfg, rd)
    if len(rets) != 1:
        raise AnalysisError('_calculate_tt_nu: expected one return')
    t = ex.expand(rets[0].ast.value, rets[0].id)
    if t[0] != 'tuple' or len(t[1]) != 2:
        raise AnalysisError('_calculate_tt_nu does not return (tt, nu)')
    tt, nu = t[1]
    v1, n1, v2, n2 = (_par(x) for x in ('var1', 'n1', 'var2', 'n2'))
    one = P.const(1)
    # s = var1/n1 + var2/n2
    S = (P._add(P._mul(v1, n2), P._mul(v2, n1)), P._mul(n1, n2))
    # statistic: numerator mean1 - mean2 (either sign: the test is
    # two-sided), denominator sqrt(s)
    ok_num = ok_den = False
    why = fmt_term(tt)[:80]
    if tt[0] == 'binop' and tt[1] == 'Div':
        num = P.poly(tt[2])
        want = P._add(_par('mean1'), _par('mean2'), -1)
        ok_num = num == want or num == P._mul(P.const(-1), want)
        den = P.strip_guard(tt[3])
        if _cname(den) == 'sqrt' and den[2]:
            ok_den = P.same_ratio(P.ratio(den[2][0]), S)
        elif den[0] == 'binop' and den[1] == 'Pow' \
                and den[3] == ('const', '0.5'):
            ok_den = P.same_ratio(P.ratio(den[2]), S)
    ctx.ob(rule, '_calculate_tt_nu:numerator', fi.loc(rets[0].ast), ok_num,
           'the statistic is the difference of the two means over the '
           'standard error' if ok_num else
           f'the statistic is {why}: its numerator is not mean1 - mean2')
    ctx.ob(rule, '_calculate_tt_nu:standard-error', fi.loc(rets[0].ast),
           ok_den,
           'the standard error is sqrt(var1/n1 + var2/n2)' if ok_den else
           f'the statistic is {why}: its denominator is not '
           'sqrt(var1/n1 + var2/n2)')
    # degrees of freedom
    B1 = (P._mul(v1, v1), P._mul(P._mul(n1, n1), P._add(n1, one, -1)))
    B2 = (P._mul(v2, v2), P._mul(P._mul(n2, n2), P._add(n2, one, -1)))
    B = (P._add(P._mul(B1[0], B2[1]), P._mul(B2[0], B1[1])),
         P._mul(B1[1], B2[1]))
    NU = (P._mul(P._mul(S[0], S[0]), B[1]), P._mul(P._mul(S[1], S[1]), B[0]))
    try:
        ok = P.same_ratio(P.ratio(nu), NU)
    except P.NotPolynomial:
        ok = False
    ctx.ob(rule, '_calculate_tt_nu:degrees-of-freedom',
           fi.loc(rets[0].ast), ok,
           'the degrees of freedom are the Welch-Satterthwaite quotient'
           if ok else
           f'the degrees of freedom {fmt_term(nu)[:90]} are not '
           '(v1/n1 + v2/n2)^2 / (v1^2/(n1^2 (n1-1)) + v2^2/(n2^2 (n2-1)))')
    # both variants take statistic and degrees of freedom from it, with
    # the populations in the same order
    for q in ('exact_welch_t_test', 'approximate_welch_t_test'):
        f2, c2, r2, e2 = _fn(ctx, SU + q)
        n_call = 0
        for n in c2.nodes:
            if n.id not in r2.live:
                continue
            for c in c2.calls_in(n):
                if resolve_callee(ctx.db, f2, c) is fi:
                    n_call += 1
                    mapping, _ = bind_args(fi, c)
                    bad = [k for k in ('mean1', 'var1', 'n1', 'mean2',
                                       'var2', 'n2')
                           if e2.expand(mapping.get(k), n.id)
                           != ('param', k)]
                    ctx.ob(rule, f'{q}:arguments', f2.loc(c), not bad,
                           'the populations are handed on as given'
                           if not bad else
                           f'{q} hands {bad} to _calculate_tt_nu from '
                           'something other than its own parameter of '
                           'that name')
        if n_call == 0:
            ctx.fail(rule, f'{q}:arguments', f2.loc(),
                     f'{q} does not compute its statistic through '
                     '_calculate_tt_nu')


# ----------------------------------------------------------------------
# 2. two-sided p-value, NaN -> 0.5
# ----------------------------------------------------------------------

def _two_sided_ok(t):
    """where(c < 0.5, 2c, 2(1-c)) in any spelling; returns the c"""
    if not (_cname(t) == 'where' and len(t[2]) == 3):
        return None
    cond, a, b = t[2]
    lf = T.lt_form(cond)
    if lf is None:
        return None
    if lf[2] == ('const', '0.5'):
        c, low, high = lf[1], a, b          # c < 0.5 ? a : b
    elif lf[1] == ('const', '0.5'):
        c, low, high = lf[2], b, a          # 0.5 < c ? a : b
    else:
        return None
    two_c = P._mul(P.const(2), P.atom(c))
    other = P._mul(P.const(2), P._add(P.const(1), P.atom(c), -1))
    try:
        pl = P.poly(low, lambda x: P.atom(c) if x == c else None)
        ph = P.poly(high, lambda x: P.atom(c) if x == c else None)
    except P.NotPolynomial:
        return None
    return c if (pl == two_c and ph == other) else None


def check_two_sided(ctx):
    rule = 'R-ARITH/two-sided-p'
    for q in ('exact_welch_t_test', 'approximate_welch_t_test'):
        fi, cfg, rd, ex = _fn(ctx, SU + q)
        rets = _returns(cfg, rd)
        for k, r in enumerate(rets):
            t = ex.expand(r.ast.value, r.id)
            if t[0] != 'tuple' or len(t[1]) != 3:
                ctx.fail(rule, f'{q}:return#{k}', fi.loc(r.ast),
                         f'{q} does not return (tt, nu, pval)')
                continue
            pv = t[1][2]
            c = None
            for alt in term_alts(pv):
                c = _two_sided_ok(alt)
                if c is None:
                    break
            ok = c is not None
            ctx.ob(rule, f'{q}:p-value', fi.loc(r.ast), ok,
                   'the p-value is twice the smaller tail' if ok else
                   f'the p-value is {fmt_term(pv)[:100]}: not '
                   'where(cdf < 0.5, 2 cdf, 2 (1 - cdf))')
            if not ok:
                continue
            # somewhere below, the CDF passed through
            # where(isfinite(x), x, 0.5)
            def nan_half(x):
                return (_cname(x) == 'where' and len(x[2]) == 3
                        and _cname(x[2][0]) == 'isfinite'
                        and x[2][0][2] and x[2][0][2][0] == x[2][1]
                        and x[2][2] == ('const', '0.5'))
            ok2 = _has(c, nan_half)
            ctx.ob(rule, f'{q}:nan-is-half', fi.loc(r.ast), ok2,
                   'a non-finite CDF value counts as 0.5 (p = 1)' if ok2
                   else 'the CDF the p-value is computed from is not '
                   'passed through where(isfinite(cdf), cdf, 0.5): a NaN '
                   'statistic yields a NaN p-value, which compares False '
                   'with every threshold only by accident of the '
                   'comparison used')


# ----------------------------------------------------------------------
# 3. Holm step-down
# ----------------------------------------------------------------------

def check_holm(ctx):
    fi, cfg, rd, ex = _fn(ctx, SU + 'correct_ttest')
    rule = 'R-ARITH/holm'
    # the running maximum
    acc = None
    for n in cfg.nodes:
        if n.id not in rd.live:
            continue
        for c in cfg.calls_in(n):
            f = c.func
            if isinstance(f, ast.Attribute) and f.attr == 'accumulate':
                acc = (n, c)
    if acc is None:
        ctx.fail(rule, 'correct_ttest:running-maximum', fi.loc(),
                 'no running maximum (np.maximum.accumulate) found: the '
                 'step-down correction must be monotone in the sorted '
                 'p-values')
        return
    n, c = acc
    ok = isinstance(c.func.value, ast.Attribute) \
        and c.func.value.attr == 'maximum'
    ctx.ob(rule, 'correct_ttest:running-maximum', fi.loc(c), ok,
           'the corrected values are the running maximum' if ok else
           f'`{unparse(c.func)}` is not the running maximum: Holm\'s '
           'step-down rejects up to the first failure, which is the '
           'running maximum of the scaled p-values')
    t = ex.expand(c.args[0], n.id) if c.args else None
    if not (t and t[0] == 'binop' and t[1] == 'Mult'):
        ctx.fail(rule, 'correct_ttest:multiplier', fi.loc(c),
                 'the accumulated quantity is not a product of sorted '
                 'p-values and multipliers')
        return
    a, b = t[2], t[3]
    # which operand is the sorted p-values: X[argsort(X)]
    def sorted_p(x):
        if x[0] == 'sub' and _cname(x[2]) == 'argsort' and x[2][2]:
            return x[1], x[2]
        return None
    sp = sorted_p(a) or sorted_p(b)
    mult = b if sorted_p(a) else a
    ok = sp is not None and sp[1][2][0] == sp[0] and not any(
        k == 'kind' for (k, _v) in sp[1][3]) and not any(
            True for (k, v) in sp[1][3] if k == 'axis')
    # descending sort would be argsort(-x) / [::-1]
    ctx.ob(rule, 'correct_ttest:sorted-increasing', fi.loc(c), ok,
           'p-values are taken in increasing order' if ok else
           f'the accumulated factor {fmt_term(a)[:60]} is not the '
           'p-values gathered by their own argsort')
    if sp is None:
        return
    pvals, perm = sp
    N = ('call', ('name', 'len'), (pvals,), ())

    def atoms(x):
        if _cname(x) == 'len' and x[2] and x[2][0] == pvals:
            return P.atom('N')
        if x[0] == 'attr' and x[2] == 'size' and x[1] == pvals:
            return P.atom('N')
        if x[0] == 'sub' and x[1][0] == 'attr' and x[1][2] == 'shape' \
                and x[1][1] == pvals and x[2] == ('const', '0'):
            return P.atom('N')
        return None
    try:
        pm = P.poly(mult, atoms)
    except P.NotPolynomial:
        pm = None
    iot = P.iota_atoms(pm) if pm else []
    ok = False
    detail = ''
    if pm is not None and len(iot) == 1:
        i = iot[0]
        want = P._add(P._add(P.atom('N'), _par('padding')), P.atom(i), -1)
        ok = pm == want and dict(i[1]) == dict(
            P._freeze(P.atom('N')))
        detail = P.fmt(pm)
    ctx.ob(rule, 'correct_ttest:multiplier', fi.loc(c), ok,
           'the k-th smallest p-value is multiplied by m - k + 1, m '
           'counting the padded hypotheses' if ok else
           f'the multipliers are {detail or fmt_term(mult)[:80]}: Holm '
           'multiplies the k-th smallest of m p-values by m - k + 1 '
           '(here m = len(p) + padding, k = 1..len(p))')
    # scattered back with the same permutation
    back = None
    for m_ in cfg.nodes:
        st = m_.ast
        if m_.id in rd.live and isinstance(st, ast.Assign) and isinstance(
                st.targets[0], ast.Subscript):
            it = ex.expand(st.targets[0].slice, m_.id)
            vt = ex.expand(st.value, m_.id)
            if _has(vt, lambda x: _cname(x) == 'accumulate'):
                back = (st, it)
    ok = back is not None and back[1] == perm
    ctx.ob(rule, 'correct_ttest:put-back', fi.loc(back[0] if back else c),
           ok,
           'corrected values go back to the positions they were sorted '
           'from' if ok else
           'the corrected values are not stored through the permutation '
           'they were sorted with: genes receive each other\'s p-values')
    # capped at 1
    rets = _returns(cfg, rd)
    okc = bool(rets)
    for r in rets:
        t = ex.expand(r.ast.value, r.id)
        good = False
        if _cname(t) == 'where' and len(t[2]) == 3:
            cond, x, y = t[2]
            lf = T.lt_form(cond)
            one = ('const', '1.0')
            if lf is not None and lf[1] == x and lf[2] == one and y == one:
                good = True
            if lf is not None and lf[1] == one and lf[2] == y and x == one:
                good = True
        if _cname(t) in ('minimum', 'clip'):
            good = any(a_ == ('const', '1.0') for a_ in t[2]) or any(
                v == ('const', '1.0') for (_k, v) in t[3])
        okc = okc and good
    ctx.ob(rule, 'correct_ttest:capped', fi.loc(rets[0].ast if rets
                                                 else None), okc,
           'corrected p-values are capped at 1' if okc else
           'the returned values are not capped at 1')


def check_restricted_holm(ctx):
    fi, cfg, rd, ex = _fn(ctx, SU + 'approx_correct_ttest')
    rule = 'R-ARITH/holm-restricted'
    full = ctx.db.fn(SU + 'correct_ttest')
    site = None
    for n in cfg.nodes:
        if n.id not in rd.live:
            continue
        for c in cfg.calls_in(n):
            if resolve_callee(ctx.db, fi, c) is full:
                site = (n, c)
    if site is None:
        ctx.fail(rule, 'approx_correct_ttest:delegates', fi.loc(),
                 'the restricted correction does not go through '
                 'correct_ttest')
        return
    n, c = site
    mapping, _ = bind_args(full, c)
    arg = ex.expand(mapping.get('ttest_metric'), n.id)
    pad = mapping.get('padding')
    # the subset: X[where(X < p_th)[0]]
    ok = False
    X = idx = None
    if arg[0] == 'sub':
        X, idx = arg[1], arg[2]
        w = idx[1] if idx[0] == 'sub' and idx[2] == ('const', '0') else idx
        if _cname(w) == 'where' and len(w[2]) == 1:
            lf = T.lt_form(w[2][0])
            if lf is not None and lf[1] == X and lf[2] == ('param', 'p_th'):
                ok = True
    ctx.ob(rule, 'approx_correct_ttest:subset', fi.loc(c), ok,
           'exactly the p-values below the threshold are corrected' if ok
           else f'the corrected subset is {fmt_term(arg)[:80]}: not the '
           'p-values below p_th')
    okp = False
    if pad is not None and X is not None:
        tp = ex.expand(pad, n.id)

        def atoms(x):
            if _cname(x) == 'len' and x[2]:
                if x[2][0] == X:
                    return P.atom('ALL')
                if x[2][0] == idx:
                    return P.atom('SUB')
            return None
        try:
            okp = P.poly(tp, atoms) == P._add(P.atom('ALL'),
                                              P.atom('SUB'), -1)
        except P.NotPolynomial:
            okp = False
    ctx.ob(rule, 'approx_correct_ttest:padding', fi.loc(c), okp,
           'the hypotheses left out are counted in m' if okp else
           'the padding handed to correct_ttest is not the number of '
           'p-values left out (len(all) - len(subset)): the multipliers '
           'm - k + 1 are too small and genes pass that Holm rejects')
    # the result is written back at the same positions
    okb = False
    for m_ in cfg.nodes:
        st = m_.ast
        if m_.id in rd.live and isinstance(st, ast.Assign) and isinstance(
                st.targets[0], ast.Subscript) and any(
                    x is c for x in ast.walk(st.value)):
            okb = ex.expand(st.targets[0].slice, m_.id) == idx
    ctx.ob(rule, 'approx_correct_ttest:put-back', fi.loc(c), okb,
           'corrected values replace the p-values they were computed from'
           if okb else
           'the corrected subset is not written back at the positions it '
           'was taken from')


# ----------------------------------------------------------------------
# 5. at least two cells in both clusters
# ----------------------------------------------------------------------

def _n_cells_of(t):
    """sub-terms  STATS[node]['n_cells']  -> list of node terms"""
    out = []
    for x in T.subterms(t):
        if x[0] == 'sub' and x[2] == ('const', "'n_cells'") \
                and x[1][0] == 'sub':
            out.append(x[1][2])
    return out


def _min_cells_test(t):
    """test true when a cluster is too small: Or of `n_cells < K` over two
    different nodes; returns (nodes, bounds) or None"""
    if not (t[0] == 'boolop' and t[1] == 'Or'):
        return None
    nodes, bounds = [], []
    for c in t[2]:
        if c[0] != 'cmp' or len(c[3]) != 1:
            return None
        if c[1] == ('Lt',):
            small, big = c[2], c[3][0]
        elif c[1] == ('Gt',):
            small, big = c[3][0], c[2]
        else:
            return None
        ns = _n_cells_of(small)
        if len(ns) != 1 or small[0] != 'sub':
            return None
        nodes.append(ns[0])
        bounds.append(big)
    if len(nodes) < 2 or len(set(nodes)) < 2:
        return None
    return nodes, bounds


def _bound_at_least_two(fi, b):
    if b[0] == 'const':
        try:
            return float(b[1]) >= 2
        except ValueError:
            return False
    if b[0] == 'param':
        a = fi.node.args
        pos = [x.arg for x in a.posonlyargs + a.args]
        dflt = dict(zip(pos[len(pos) - len(a.defaults):], a.defaults))
        for x, dv in zip(a.kwonlyargs, a.kw_defaults):
            if dv is not None:
                dflt[x.arg] = dv
        d = dflt.get(b[1])
        return isinstance(d, ast.Constant) and isinstance(
            d.value, (int, float)) and d.value >= 2
    return False


def check_min_cells(ctx):
    rule = 'R-GUARD/two-cells'
    # direct route
    fi, cfg, rd, ex = _fn(ctx, SC + 'score_differential_genes')
    pv = ctx.db.fn(SC + 'diffexp_p_values_from_stats')
    work = [n for n in cfg.nodes if n.id in rd.live and any(
        resolve_callee(ctx.db, fi, c) is pv for c in cfg.calls_in(n))]
    if not work:
        raise AnalysisError('score_differential_genes no longer calls '
                            'diffexp_p_values_from_stats')
    guard = None
    for n in cfg.nodes:
        if n.kind == 'if' and n.id in rd.live:
            m = _min_cells_test(ex.expand(n.ast.test, n.id))
            if m is not None:
                guard = (n, m)
    ok = False
    why = 'no test of both clusters\' cell counts found'
    if guard is not None:
        n, (nodes, bounds) = guard
        okb = all(_bound_at_least_two(fi, b) for b in bounds)
        # on the true edge the scoring is not reached and the validity
        # returned is all False
        def edge_ok(a, b, lab):
            return lab != 'exc' and not (a == n.id and lab == 'false')
        reach = cfg.path(n.id, {w.id for w in work}, edge_ok=edge_ok)
        rets_ok = True
        for r in _returns(cfg, rd):
            if cfg.path(n.id, {r.id}, edge_ok=edge_ok,
                        avoid=lambda x: x.id in {w.id for w in work}) \
                    is None:
                continue
            t = ex.expand(r.ast.value, r.id)
            v = t[1][1] if t[0] == 'tuple' and len(t[1]) >= 2 else None
            if not (v is not None and _cname(v) == 'zeros' and any(
                    k == 'dtype' and val == ('name', 'bool')
                    for (k, val) in v[3])):
                rets_ok = False
        ok = okb and reach is None and rets_ok
        why = ('the bound is below two' if not okb else
               'the scoring is still reached for such a pair'
               if reach is not None else
               'the validity returned for such a pair is not all False')
    ctx.ob(rule, 'score_differential_genes', fi.loc(
        guard[0].ast if guard else None), ok,
           'a pair with a cluster of fewer than two cells gets no marker'
           if ok else f'direct route: {why}')
    # mask route: inside the loop over the pairs, the store into the mask
    # is not reached for such a pair
    fi, cfg, rd, ex = _fn(ctx, 'diff_exp.p_value_mask:_p_values_worker')
    stores = []
    for n in cfg.nodes:
        st = n.ast
        if n.id in rd.live and isinstance(st, ast.Assign) and isinstance(
                st.targets[0], ast.Subscript) and isinstance(
                    st.value, ast.Subscript):
            t = ex.expand(st.value, n.id)
            if _has(t, lambda x: x == ('const', "'wgt'")):
                stores.append(n)
    if not stores:
        raise AnalysisError('_p_values_worker: the store of the weighted '
                            'distances into the mask was not found')
    for k, s in enumerate(stores):
        loop = getattr(s.ast, '_parent', None)
        while loop is not None and not isinstance(loop, ast.For):
            loop = getattr(loop, '_parent', None)
        hdr = [x for x in cfg.nodes_of(loop) if x.kind == 'for'] \
            if loop is not None else []
        ok = False
        for n in cfg.nodes:
            if n.kind != 'if' or n.id not in rd.live:
                continue
            m = _min_cells_test(ex.expand(n.ast.test, n.id))
            if m is None:
                continue
            nodes, bounds = m
            if not all(_bound_at_least_two(fi, b) for b in bounds):
                continue

            def edge_ok(a, b, lab, _n=n):
                return lab != 'exc' and not (a == _n.id and lab == 'false')
            hs = {h.id for h in hdr}
            p = cfg.path(n.id, {s.id}, edge_ok=edge_ok,
                         avoid=lambda x: x.id in hs)
            if p is None:
                ok = True
        ctx.ob(rule, f'_p_values_worker:mask-store#{k}', fi.loc(s.ast), ok,
               'a pair with a cluster of fewer than two cells leaves its '
               'row of the mask empty' if ok else
               'the p-value-mask route stores distances for a pair '
               'without testing that both clusters have at least two '
               'cells (the direct route returns an all-False validity '
               'for such a pair): genes are recorded as markers of a '
               'pair with a one-cell cluster')


# ----------------------------------------------------------------------
# 6. validity = p-value test AND penetrance
# ----------------------------------------------------------------------

def _is_p_test(t, pcall_name):
    """cmp Lt(P, p_th) where P is a call of pcall_name computed for the
    same p_th; returns True / False / None (not a p test)"""
    if t[0] != 'cmp' or len(t[3]) != 1:
        return None
    if t[1] == ('Lt',):
        left, right = t[2], t[3][0]
    elif t[1] == ('Gt',):
        left, right = t[3][0], t[2]
    else:
        if _cname(t[2]) == pcall_name or _cname(t[3][0]) == pcall_name:
            return False
        return None
    if _cname(left) != pcall_name:
        return None
    th = T.call_arg(left, kw='p_th')
    return right == ('param', 'p_th') and th == ('param', 'p_th')


def _conj_operands(t):
    if _cname(t) == 'logical_and' and len(t[2]) == 2:
        return list(t[2])
    if t[0] == 'binop' and t[1] == 'BitAnd':
        return [t[2], t[3]]
    return None


def check_validity(ctx):
    rule = 'R-ARITH/validity-conjunction'
    fi, cfg, rd, ex = _fn(ctx, SC + 'score_differential_genes')
    n_main = 0
    for r in _returns(cfg, rd):
        t = ex.expand(r.ast.value, r.id)
        if t[0] != 'tuple' or len(t[1]) != 3:
            ctx.fail(rule, 'score_differential_genes:return', fi.loc(r.ast),
                     'does not return (score, validity, up)')
            continue
        v = t[1][1]
        if _cname(v) == 'zeros':
            continue
        n_main += 1
        ok = True
        why = ''
        for alt in term_alts(v):
            ops = _conj_operands(alt)
            if ops is None:
                ok, why = False, 'is not a conjunction'
                break
            pt = [o for o in ops if _is_p_test(
                o, 'diffexp_p_values_from_stats') is not None]
            pen = [o for o in ops if _has(
                o, lambda x: _cname(x) == 'penetrance_from_stats')]
            if len(pt) != 1 or not _is_p_test(
                    pt[0], 'diffexp_p_values_from_stats'):
                ok, why = False, ('does not test the corrected p-values '
                                  'with `<` against the threshold they '
                                  'were corrected for')
                break
            if not pen or pen[0] is pt[0]:
                ok, why = False, 'lacks the penetrance mask'
                break
        ctx.ob(rule, 'score_differential_genes:validity', fi.loc(r.ast), ok,
               'validity is (corrected p < p_th) AND penetrance' if ok
               else f'the validity returned {why}: '
               f'{fmt_term(v)[:100]}')
    if n_main == 0:
        raise AnalysisError('score_differential_genes: no scoring return')
    # mask route, writer: the stored mask is (p < p_th) with the floors
    # taken out before the store
    fi, cfg, rd, ex = _fn(ctx, 'diff_exp.p_value_mask:_p_values_worker')
    for n in cfg.nodes:
        st = n.ast
        if not (n.id in rd.live and isinstance(st, ast.Assign)
                and isinstance(st.targets[0], ast.Subscript)
                and isinstance(st.value, ast.Subscript)):
            continue
        t = ex.expand(st.value, n.id)
        if not _has(t, lambda x: x == ('const', "'wgt'")):
            continue
        sl = st.targets[0].slice
        mask_e = sl.elts[-1] if isinstance(sl, ast.Tuple) else sl
        val_mask = st.value.slice
        tm = ex.expand(mask_e, n.id)
        tv = ex.expand(val_mask, n.id)
        okp = all(_is_p_test(a, 'diffexp_p_values_from_stats')
                  for a in term_alts(tm)) and tm == tv
        ctx.ob(rule, '_p_values_worker:mask', fi.loc(st), okp,
               'the mask row holds the genes with corrected p < p_th, '
               'positions and values selected by the same mask' if okp
               else f'the mask row is selected by {fmt_term(tm)[:80]} / '
               f'{fmt_term(tv)[:60]}: not one (p < p_th) mask')
        # floors applied to that mask before the store
        okf = False
        if isinstance(mask_e, ast.Name):
            for (mn, astn, how) in rd.mutations(mask_e.id):
                if mn in rd.live and isinstance(astn, ast.Assign):
                    tg = astn.targets[0]
                    it = ex.expand(tg.slice, mn)
                    if _has(it, lambda x: x == (
                            'const', "'invalid'")) and isinstance(
                                astn.value, ast.Constant) \
                            and astn.value.value is False \
                            and cfg.path(mn, {n.id}, edge_ok=lambda a, b,
                                         lab: lab != 'exc') is not None \
                            and cfg.path(cfg.entry, {n.id}, avoid=lambda x,
                                         _m=mn: x.id == _m, edge_ok=lambda
                                         a, b, lab: lab != 'exc') is None:
                        okf = True
        ctx.ob(rule, '_p_values_worker:floors', fi.loc(st), okf,
               'genes below a floor are removed from the mask before it '
               'is stored' if okf else
               'the mask is stored without the genes below the minimum '
               'penetrance / fold-change floors having been removed on '
               'every path')
    # mask route, reader: every validity is p_mask AND something
    fi, cfg, rd, ex = _fn(ctx, 'diff_exp.p_value_markers:_get_validity_mask')
    for k, r in enumerate(_returns(cfg, rd)):
        t = ex.expand(r.ast.value, r.id)
        ok = True
        for alt in term_alts(t):
            ops = _conj_operands(alt)
            if ops is None:
                ok = False
                break
            # one operand is the mask built from gene_indices
            if not any(_cname(o) == 'zeros' for o in ops):
                ok = False
        ctx.ob(rule, f'_get_validity_mask:return#{k}', fi.loc(r.ast), ok,
               'every valid gene passed the p-value test' if ok else
               f'the validity {fmt_term(t)[:100]} is not a conjunction '
               'with the p-value mask on every path')
    # ... and that mask is set exactly at the stored indices
    okm = False
    for n in cfg.nodes:
        st = n.ast
        if n.id in rd.live and isinstance(st, ast.Assign) and isinstance(
                st.targets[0], ast.Subscript) and isinstance(
                    st.value, ast.Constant) and st.value.value is True:
            if ex.expand(st.targets[0].slice, n.id) == (
                    'param', 'gene_indices'):
                okm = True
    ctx.ob(rule, '_get_validity_mask:p-mask', fi.loc(), okm,
           'the p-value mask is True exactly at the stored gene indices'
           if okm else 'the p-value mask is not set from gene_indices')


# ----------------------------------------------------------------------
# 7. direction
# ----------------------------------------------------------------------

def _up_stores(fi, cfg, rd, ex):
    """stores  M[cmp(mean_a, mean_b)] = 1/True ; yields (node, first,
    second) meaning: up where mean(second) > mean(first)"""
    for n in cfg.nodes:
        st = n.ast
        if not (n.id in rd.live and isinstance(st, ast.Assign)
                and isinstance(st.targets[0], ast.Subscript)
                and isinstance(st.value, ast.Constant)
                and st.value.value in (1, True)):
            continue
        it = ex.expand(st.targets[0].slice, n.id)
        if it[0] != 'cmp' or len(it[3]) != 1:
            continue
        a, b = it[2], it[3][0]

        def mean_of(x):
            if x[0] == 'sub' and x[2] == ('const', "'mean'") \
                    and x[1][0] == 'sub':
                return x[1][2]
            return None
        na, nb = mean_of(a), mean_of(b)
        if na is None or nb is None:
            continue
        if it[1] == ('Gt',):
            yield n, nb, na, True
        elif it[1] == ('Lt',):
            yield n, na, nb, True
        else:
            yield n, nb, na, False


def _pair_element(t):
    """node term -> index of the sibling_pair element it is built from"""
    idxs = set()
    for x in T.subterms(t):
        if x[0] == 'sub' and x[2][0] == 'const' and x[2][1] in ('1', '2') \
                and x[1][0] == 'sub':
            idxs.add(int(x[2][1]))
    return idxs


def check_direction(ctx):
    rule = 'R-ARITH/direction'
    db = ctx.db
    # inside the scoring function: up where mean(node_2) > mean(node_1)
    fi, cfg, rd, ex = _fn(ctx, SC + 'score_differential_genes')
    found = list(_up_stores(fi, cfg, rd, ex))
    ok = len(found) == 1 and found[0][3] and found[0][1] == (
        'param', 'node_1') and found[0][2] == ('param', 'node_2')
    ctx.ob(rule, 'score_differential_genes:up', fi.loc(
        found[0][0].ast if found else None), ok,
           'up means the second cluster\'s mean exceeds the first\'s '
           '(strictly)' if ok else
           'the direction mask is not set where mean(node_2) > '
           'mean(node_1)')
    # the direct worker names the clusters in the order of the pair
    w, wcfg, wrd, wex = _fn(ctx, 'diff_exp.markers:_find_markers_worker')
    n_call = 0
    for n in wcfg.nodes:
        if n.id not in wrd.live:
            continue
        for c in wcfg.calls_in(n):
            if resolve_callee(db, w, c) is fi:
                n_call += 1
                mapping, _ = bind_args(fi, c)
                e1 = _pair_element(wex.expand(mapping['node_1'], n.id))
                e2 = _pair_element(wex.expand(mapping['node_2'], n.id))
                ok = e1 == {1} and e2 == {2}
                ctx.ob(rule, '_find_markers_worker:pair-order', w.loc(c),
                       ok,
                       'node_1 / node_2 are elements 1 / 2 of the pair'
                       if ok else
                       f'node_1 / node_2 are built from elements {e1} / '
                       f'{e2} of the pair: the direction recorded for the '
                       'pair is reversed')
    if n_call == 0:
        raise AnalysisError('_find_markers_worker does not call '
                            'score_differential_genes')
    # the mask-route worker: same comparison, same order
    m, mcfg, mrd, mex = _fn(
        ctx, 'diff_exp.p_value_markers:_find_markers_from_p_mask_worker')
    found = list(_up_stores(m, mcfg, mrd, mex))
    ok = len(found) == 1 and found[0][3] and _pair_element(
        found[0][1]) == {1} and _pair_element(found[0][2]) == {2}
    ctx.ob(rule, '_find_markers_from_p_mask_worker:up', m.loc(
        found[0][0].ast if found else None), ok,
           'the mask route takes the direction from the same comparison '
           'in the same order' if ok else
           'the mask route does not set up where mean(element 2 of the '
           'pair) > mean(element 1): the two routes disagree on the '
           'direction')
    # up / down sets: validity AND up, validity AND NOT up
    wr = db.fn('diff_exp.markers:_write_to_tmp_file')
    for (f2, c2, r2, e2) in ((w, wcfg, wrd, wex), (m, mcfg, mrd, mex)):
        names = {}
        for n in c2.nodes:
            if n.id not in r2.live:
                continue
            for c in c2.calls_in(n):
                if resolve_callee(db, f2, c) is wr:
                    mapping, _ = bind_args(wr, c)
                    for k in ('up_reg_lookup', 'down_reg_lookup'):
                        a = mapping.get(k)
                        if isinstance(a, ast.Name):
                            names[k] = a.id
        if len(names) != 2:
            ctx.fail(rule, f'{f2.name}:sets', f2.loc(),
                     'the up / down tables handed to _write_to_tmp_file '
                     'were not recognised')
            continue
        ops = {}
        for n in c2.nodes:
            st = n.ast
            if n.id in r2.live and isinstance(st, ast.Assign) \
                    and isinstance(st.targets[0], ast.Subscript) \
                    and isinstance(st.targets[0].value, ast.Name):
                for k, nm in names.items():
                    if st.targets[0].value.id == nm:
                        t = e2.expand(st.value, n.id)
                        ws = [x for x in T.subterms(t)
                              if _cname(x) == 'where']
                        o = _conj_operands(ws[0][2][0]) if ws and ws[0][2] \
                            else None
                        ops[k] = (st, o)
        ok = False
        why = 'the stored sets are not where(validity AND ...)'
        if len(ops) == 2 and ops['up_reg_lookup'][1] \
                and ops['down_reg_lookup'][1]:
            u, d = ops['up_reg_lookup'][1], ops['down_reg_lookup'][1]
            neg = [x for x in d if _cname(x) == 'logical_not'
                   or (x[0] == 'unop' and x[1] in ('Invert', 'Not'))]
            why = 'the down set is not validity AND NOT up'
            if len(neg) == 1:
                inner = neg[0][2][0] if neg[0][0] == 'call' else neg[0][2]
                rest = [x for x in d if x is not neg[0]]
                ok = inner in u and rest and rest[0] in u \
                    and rest[0] != inner
                why = ('up and down sets are not built from the same '
                       'validity and direction masks')
        ctx.ob(rule, f'{f2.name}:sets', f2.loc(
            ops.get('down_reg_lookup', (None,))[0]), ok,
               'up = validity AND up-mask, down = validity AND NOT '
               'up-mask: disjoint, together the valid genes' if ok else
               why)


# ----------------------------------------------------------------------
# 8. penetrance
# ----------------------------------------------------------------------

def check_penetrance(ctx):
    rule = 'R-ARITH/penetrance'
    fi, cfg, rd, ex = _fn(ctx, SC + 'exact_penetrance_test')
    for r in _returns(cfg, rd):
        t = ex.expand(r.ast.value, r.id)
        ops = _conj_operands(t) or []
        want = {('q1_score', 'q1_th'), ('qdiff_score', 'qdiff_th')}
        got = set()
        for o in ops:
            if o[0] == 'cmp' and o[1] == ('Gt',) and o[2][0] == 'param' \
                    and o[3][0][0] == 'param':
                got.add((o[2][1], o[3][0][1]))
            if o[0] == 'cmp' and o[1] == ('Lt',) and o[2][0] == 'param' \
                    and o[3][0][0] == 'param':
                got.add((o[3][0][1], o[2][1]))
        ok = got == want
        ctx.ob(rule, 'exact_penetrance_test', fi.loc(r.ast), ok,
               'q1 > q1_th AND qdiff > qdiff_th' if ok else
               f'the exact test is {fmt_term(t)[:90]}: not the strict '
               'comparison of each score with its own threshold')
    # penetrance_tests: exact => fold > fold_th AND exact test
    fi, cfg, rd, ex = _fn(ctx, SC + 'penetrance_tests')
    seen = False
    for r in _returns(cfg, rd):
        t = ex.expand(r.ast.value, r.id)
        if not _has(t, lambda x: _cname(x)
                             == 'exact_penetrance_test'):
            continue
        seen = True
        ops = _conj_operands(t) or []
        fold = [o for o in ops if o[0] == 'cmp' and (
            (o[1] == ('Gt',) and o[2] == ('param', 'log2_fold')
             and o[3] == (('param', 'log2_fold_th'),))
            or (o[1] == ('Lt',) and o[2] == ('param', 'log2_fold_th')
                and o[3] == (('param', 'log2_fold'),)))]
        ok = len(ops) == 2 and len(fold) == 1
        ctx.ob(rule, 'penetrance_tests:exact', fi.loc(r.ast), ok,
               'the exact test also demands log2_fold > log2_fold_th'
               if ok else
               f'with exact penetrance the mask is {fmt_term(t)[:90]}: '
               'the strict fold-change threshold is not part of it')
        # ... and is returned exactly when `exact` is set
        p_ = getattr(r.ast, '_parent', None)
        okg = isinstance(p_, ast.If) and ex.expand(
            p_.test, [x for x in cfg.nodes_of(p_)
                      if x.kind == 'if'][0].id) == ('param', 'exact') \
            and r.ast in p_.body
        ctx.ob(rule, 'penetrance_tests:exact-guard', fi.loc(r.ast), okg,
               'taken when exact penetrance is requested' if okg else
               'the exact test is not selected by the `exact` parameter')
    if not seen:
        ctx.fail(rule, 'penetrance_tests:exact', fi.loc(),
                 'penetrance_tests no longer returns the exact test')
    # distance terms: (S - T)**2, zero where S > T
    fi, cfg, rd, ex = _fn(ctx, SC + 'penetrance_parameter_distance')
    n_terms = 0
    for n in cfg.nodes:
        st = n.ast
        if not (n.id in rd.live and isinstance(st, ast.Assign)
                and isinstance(st.targets[0], ast.Subscript)
                and isinstance(st.targets[0].value, ast.Name)
                and isinstance(st.value, ast.Constant)
                and st.value.value == 0):
            continue
        it = ex.expand(st.targets[0].slice, n.id)
        lf = T.lt_form(it)
        if lf is None:
            continue
        base = None
        for d in rd.reaching(st.targets[0].value.id, n.id):
            if d.kind == 'assign' and d.value is not None and not d.path:
                base = ex.expand(d.value, d.node)
        if base is None or not (base[0] == 'binop' and base[1] == 'Pow'):
            continue
        n_terms += 1
        diff = base[2]
        ok = False
        if diff[0] == 'binop' and diff[1] == 'Sub':
            # zero where  threshold < score  (diff = score - threshold)
            ok = (lf[2] == diff[2] and lf[1] == diff[3])
        ctx.ob(rule, f'penetrance_parameter_distance:term#{n_terms - 1}',
               fi.loc(st), ok,
               'the distance term vanishes beyond the threshold it is '
               'measured from' if ok else
               f'`{unparse(st)[:60]}` zeroes the term '
               f'{fmt_term(base)[:50]} on a comparison of other '
               'quantities: genes beyond one threshold keep a distance, '
               'or genes short of it lose theirs')
    if n_terms < 3:
        raise AnalysisError('penetrance_parameter_distance: fewer than '
                            'three distance terms recognised')
    # floors: invalid = OR of three `<` tests
    want = {('q1_score', 'q1_min_th'), ('qdiff_score', 'qdiff_min_th'),
            ('log2_fold', 'log2_fold_min_th')}
    got = set()
    strict = True
    for r in _returns(cfg, rd):
        t = ex.expand(r.ast.value, r.id)
        for x in T.subterms(t):
            lf = T.lt_form(x) if x[0] == 'cmp' else None
            if lf is None:
                continue
            small, big = lf[1], lf[2]
            if small[0] == 'param' and big[0] == 'param' \
                    and big[1].endswith('_min_th'):
                got.add((small[1], big[1]))
                if lf[0] != 'Lt':
                    strict = False
            elif small[0] == 'param' and big[0] == 'param' \
                    and small[1].endswith('_min_th'):
                # floor < score: a validity test, not an invalidity one
                got.add((big[1] + '?', small[1]))
    ok = got == want and strict
    ctx.ob(rule, 'penetrance_parameter_distance:floors', fi.loc(), ok,
           'a gene is invalid when a score is strictly below its floor '
           '(on the floor is allowed)' if ok else
           f'the floor tests are {sorted(got)} '
           f'({"strict" if strict else "not all `<`"}): not each score '
           'against its own floor with `<`')
    # relaxed test: floors are the last word
    fi, cfg, rd, ex = _fn(ctx, SC + 'approx_penetrance_test')
    floor_nodes = set()
    setters = set()
    for n in cfg.nodes:
        st = n.ast
        if n.id in rd.live and isinstance(st, ast.Assign) and isinstance(
                st.targets[0], ast.Subscript) and isinstance(
                    st.value, ast.Constant):
            it = ex.expand(st.targets[0].slice, n.id)
            if st.value.value is False and _has(
                    it, lambda x: x == ('const', "'invalid'")):
                floor_nodes.add(n.id)
            elif st.value.value is True:
                setters.add(n.id)
    ok = bool(floor_nodes) and bool(setters)
    wit = None
    for s in setters:
        for r in _returns(cfg, rd):
            p = cfg.path(s, {r.id}, avoid=lambda x: x.id in floor_nodes,
                         edge_ok=lambda a, b, lab: lab != 'exc')
            if p is not None:
                ok = False
                wit = p
    ctx.ob(rule, 'approx_penetrance_test:floors-last', fi.loc(), ok,
           'genes admitted by the relaxation are removed again when they '
           'are below a floor' if ok else
           'the relaxed mask can be returned without the floors having '
           'been applied after the genes were admitted',
           witness=cfg.fmt_path(wit) if wit else None)
    # strictly valid genes: true distance below eps, and enough of them
    # means no relaxation
    okv = False
    for n in cfg.nodes:
        if n.kind == 'if' and n.id in rd.live:
            t = ex.expand(n.ast.test, n.id)
            lf = T.lt_form(t)
            if lf is not None and (_has(
                    lf[1], lambda x: x == ('const', "'true'"))
                    or _has(
                        lf[2], lambda x: x == ('const', "'true'"))):
                okv = True
    ctx.ob(rule, 'approx_penetrance_test:strict-first', fi.loc(), okv,
           'when enough genes meet the strict criteria only those are '
           'valid' if okv else
           'the test that enough genes meet the strict criteria (true '
           'distance) was not found')


# ----------------------------------------------------------------------
# 9. gene list
# ----------------------------------------------------------------------

def check_gene_list(ctx):
    rule = 'R-PROV/gene-list'
    fi, cfg, rd, ex = _fn(ctx, SC + 'penetrance_from_stats')
    masked = dict()
    for n in cfg.nodes:
        st = n.ast
        if n.id in rd.live and isinstance(st, ast.Assign) and isinstance(
                st.targets[0], ast.Subscript) and isinstance(
                    st.targets[0].value, ast.Name):
            v = st.value
            neg = isinstance(v, ast.UnaryOp) and isinstance(
                v.op, ast.USub) and isinstance(v.operand, ast.Constant)
            if neg or (isinstance(v, ast.Constant) and isinstance(
                    v.value, (int, float)) and v.value < 0):
                it = ex.expand(st.targets[0].slice, n.id)
                masked[st.targets[0].value.id] = it
    # the three arrays handed to penetrance_tests
    pt = ctx.db.fn(SC + 'penetrance_tests')
    need = {}
    for n in cfg.nodes:
        if n.id not in rd.live:
            continue
        for c in cfg.calls_in(n):
            if resolve_callee(ctx.db, fi, c) is pt:
                mapping, _ = bind_args(pt, c)
                for k in ('pij_1', 'pij_2', 'log2_fold'):
                    a = mapping.get(k)
                    if isinstance(a, ast.Name):
                        need[k] = a.id
    ok = len(need) == 3 and all(v in masked for v in need.values()) \
        and len({masked[v] for v in need.values() if v in masked}) == 1
    mt = next(iter(masked.values()), None)
    okm = mt is not None and (_cname(mt) == 'logical_not' or (
        mt[0] == 'unop' and mt[1] == 'Invert'))
    # ... whenever a list is given: the only way round the overwrite is
    # `valid_gene_idx is None` (an empty list means "no gene", not "any")
    stores = {n.id for n in cfg.nodes if n.id in rd.live and isinstance(
        n.ast, ast.Assign) and isinstance(n.ast.targets[0], ast.Subscript)
        and isinstance(n.ast.targets[0].value, ast.Name)
        and n.ast.targets[0].value.id in set(need.values())}
    sites = [n.id for n in cfg.nodes if n.id in rd.live and any(
        resolve_callee(ctx.db, fi, c) is pt for c in cfg.calls_in(n))]

    def edge_given(a, b, lab):
        if lab == 'exc':
            return False
        na = cfg.nodes[a]
        if na.kind == 'if' and lab in ('true', 'false'):
            t = ex.expand(na.ast.test, na.id)
            none_test = None
            if t == ('cmp', ('IsNot',), ('param', 'valid_gene_idx'),
                     (('const', 'None'),)):
                none_test = True       # true edge = a list is given
            elif t == ('cmp', ('Is',), ('param', 'valid_gene_idx'),
                       (('const', 'None'),)):
                none_test = False
            if none_test is not None and (lab == 'true') != none_test:
                return False
        return True
    byp = cfg.path(cfg.entry, set(sites), avoid=lambda x: x.id in stores,
                   edge_ok=edge_given) if stores and sites else None
    ctx.ob(rule, 'penetrance_from_stats:whenever-given', fi.loc(),
           bool(stores) and bool(sites) and byp is None,
           'the overwrite happens whenever a gene list is given'
           if byp is None and stores else
           'with a gene list given (valid_gene_idx is not None) the '
           'penetrance test can be reached without the genes outside the '
           'list having been overwritten -- e.g. for an empty list, which '
           'means that no gene is allowed, not that all are',
           witness=cfg.fmt_path(byp) if byp else None)
    ctx.ob(rule, 'penetrance_from_stats:masked', fi.loc(), ok and okm,
           'genes outside the list fail every penetrance test (all three '
           'inputs are overwritten by one complement mask)' if ok and okm
           else 'not all of pij_1, pij_2, log2_fold are overwritten '
           'with a negative value under the complement of the gene list: '
           'a gene outside the list can pass')
    # mask route
    fi, cfg, rd, ex = _fn(ctx, 'diff_exp.p_value_markers:_get_validity_mask')
    inv_def = None
    for n in cfg.nodes:
        st = n.ast
        if n.id in rd.live and isinstance(st, ast.Assign) and isinstance(
                st.targets[0], ast.Name) and isinstance(
                    st.value, ast.Compare):
            t = ex.expand(st.value, n.id)
            if t[0] == 'cmp' and t[1] in (('GtE',), ('Gt',)):
                inv_def = n
    prior = None
    for n in cfg.nodes:
        st = n.ast
        if n.id in rd.live and isinstance(st, ast.Assign) and isinstance(
                st.targets[0], ast.Subscript):
            it = ex.expand(st.targets[0].slice, n.id)
            if _cname(it) == 'ones' and not isinstance(
                    st.value, ast.Constant):
                prior = n
    ok = inv_def is not None and prior is not None
    if ok:
        # whenever a list is given the overwrite precedes the invalid test
        def edge_ok(a, b, lab):
            if lab == 'exc':
                return False
            na = cfg.nodes[a]
            if na.kind == 'if' and lab == 'false':
                t = ex.expand(na.ast.test, na.id)
                if t == ('cmp', ('IsNot',), ('param', 'valid_gene_idx'),
                         (('const', 'None'),)):
                    return False
            if na.kind == 'if' and lab == 'true':
                t = ex.expand(na.ast.test, na.id)
                if t == ('cmp', ('Is',), ('param', 'valid_gene_idx'),
                         (('const', 'None'),)):
                    return False
            return True
        p = cfg.path(cfg.entry, {inv_def.id},
                     avoid=lambda x: x.id == prior.id, edge_ok=edge_ok)
        ok = p is None
    ctx.ob(rule, '_get_validity_mask:masked', fi.loc(
        prior.ast if prior else None), ok,
           'genes outside the list get a prohibitive distance before the '
           'invalid set is formed' if ok else
           'with a gene list given, the invalid set can be formed '
           'without the genes outside the list having been given a '
           'prohibitive distance')
    # the index list is the positions of the listed genes, in both
    # front ends
    for q in ('diff_exp.markers:create_sparse_by_pair_marker_file',
              'diff_exp.p_value_markers:'
              'create_sparse_by_pair_marker_file_from_p_mask'):
        fi, cfg, rd, ex = _fn(ctx, q)
        ok = False
        for n in cfg.nodes:
            st = n.ast
            if n.id in rd.live and isinstance(st, ast.Assign) \
                    and isinstance(st.targets[0], ast.Name):
                for comp in ast.walk(st.value):
                    if isinstance(comp, ast.ListComp) and len(
                            comp.generators) == 1:
                        g = comp.generators[0]
                        tests = g.ifs
                        if isinstance(g.iter, ast.Call) and isinstance(
                                g.iter.func, ast.Name) \
                                and g.iter.func.id == 'enumerate' \
                                and isinstance(g.target, ast.Tuple) \
                                and isinstance(comp.elt, ast.Name) \
                                and comp.elt.id == g.target.elts[0].id \
                                and len(tests) == 1 and isinstance(
                                    tests[0], ast.Compare) \
                                and isinstance(tests[0].ops[0], ast.In) \
                                and isinstance(tests[0].left, ast.Name) \
                                and tests[0].left.id \
                                == g.target.elts[1].id:
                            tset = ex.expand(tests[0].comparators[0], n.id)
                            if T.contains(tset, ('param', 'gene_list')):
                                ok = True
        # or the reference side of match_genes(names of the statistics
        # file, gene_list)
        for n in cfg.nodes:
            st = n.ast
            if ok or not (n.id in rd.live and isinstance(st, ast.Assign)
                          and isinstance(st.targets[0], ast.Name)):
                continue
            t = ex.expand(st.value, n.id)
            if t[0] == 'sub' and _cname(t[1]) == 'match_genes':
                ref = T.call_arg(t[1], pos=0, kw='reference_gene_names')
                if ref is None:
                    ref = T.call_arg(t[1], kw='reference_gene_names')
                qry = T.call_arg(t[1], kw='query_gene_names')
                if qry is None:
                    qry = T.call_arg(t[1], pos=1)
                if t[2] == ('const', "'reference'") and qry is not None \
                        and T.contains(qry, ('param', 'gene_list')) \
                        and ref is not None and not T.contains(
                            ref, ('param', 'gene_list')):
                    ok = True
        ctx.ob(rule, f'{fi.name}:index-list', fi.loc(), ok,
               'valid_gene_idx holds the positions of the genes that are '
               'in the list' if ok else
               'valid_gene_idx is not the list of positions *in the '
               'reference gene table* of the genes that are in gene_list '
               '([i for i, g in enumerate(names) if g in gene_list], or '
               'the reference side of match_genes)')


# ----------------------------------------------------------------------
# 10. gene-major table = transpose of the pair-major table
# ----------------------------------------------------------------------

def check_transposed_tables(ctx):
    rule = 'R-PROV/transposed-table'
    fi, cfg, rd, ex = _fn(
        ctx, 'diff_exp.markers:add_sparse_by_gene_markers_to_file')
    db = ctx.db
    n_tr = 0
    for n in cfg.nodes:
        if n.id not in rd.live:
            continue
        for c in cfg.calls_in(n):
            t = resolve_callee(db, fi, c)
            if not isinstance(t, FunctionInfo) or not t.name.startswith(
                    'transpose_sparse_matrix_on_disk'):
                continue
            n_tr += 1
            mapping, _ = bind_args(t, c)
            ind = mapping.get('indices_handle') or mapping.get(
                'indices_tag')
            ptr = mapping.get('indptr_handle') or mapping.get('indptr_tag')
            ti = fmt_term(ex.expand(ind, n.id)) if ind is not None else ''
            tp = fmt_term(ex.expand(ptr, n.id)) if ptr is not None else ''
            ok = 'sparse_by_pair/' in ti and '_gene_idx' in ti \
                and 'sparse_by_pair/' in tp and '_pair_idx' in tp
            # the same direction variable in both
            fv_i = {x.id for x in ast.walk(ind) if isinstance(x, ast.Name)}
            fv_p = {x.id for x in ast.walk(ptr) if isinstance(x, ast.Name)}
            loopv = None
            p_ = getattr(c, '_parent', None)
            while p_ is not None:
                if isinstance(p_, ast.For) and isinstance(
                        p_.target, ast.Name):
                    loopv = p_.target.id
                p_ = getattr(p_, '_parent', None)
            ok = ok and loopv is not None and loopv in fv_i \
                and loopv in fv_p
            mx = mapping.get('indices_max')
            okm = mx is not None and ex.expand(mx, n.id) == (
                'param', 'n_genes')
            ctx.ob(rule, f'{t.name}:inputs', fi.loc(c), ok and okm,
                   'the pair-major table of one direction (gene indices '
                   'as indices, pair pointers as indptr, n_genes columns) '
                   'is transposed' if ok and okm else
                   f'the transposition reads {ti[:50]} / {tp[:50]} '
                   f'(indices_max {"ok" if okm else "not n_genes"}): not '
                   'the pair-major table of one and the same direction')
    if n_tr < 1:
        raise AnalysisError('add_sparse_by_gene_markers_to_file: no '
                            'transposition call found')
    # what is stored as the gene-major table of that direction is the
    # transposed file's indptr (per gene) and indices (pairs)
    stores = {}
    for n in cfg.nodes:
        if n.id not in rd.live:
            continue
        for c in cfg.calls_in(n):
            if isinstance(c.func, ast.Attribute) \
                    and c.func.attr == 'create_dataset' and c.args:
                name = fmt_term(ex.expand(c.args[0], n.id))
                data = [kw.value for kw in c.keywords if kw.arg == 'data']
                if data:
                    stores[name] = (c, fmt_term(ex.expand(data[0], n.id)))
    okg = any('_gene_idx' in k and "'indptr'" in v[1]
              for k, v in stores.items())
    okp = any('_pair_idx' in k and "'indices'" in v[1]
              for k, v in stores.items())
    ctx.ob(rule, 'sparse_by_gene:datasets', fi.loc(), okg and okp,
           'the gene-major pointers are the transposed indptr and the '
           'gene-major pair list the transposed indices' if okg and okp
           else 'the gene-major datasets are not filled from the '
           'transposed file\'s indptr (per gene) and indices (pairs): '
           f'{ {k: v[1][:30] for k, v in stores.items()} }')
    # both front ends run this step on the file they publish
    for q in ('diff_exp.markers:find_markers_for_all_taxonomy_pairs',
              'diff_exp.p_value_markers:'
              '_find_markers_for_all_taxonomy_pairs_from_p_mask'):
        f2, c2, r2, e2 = _fn(ctx, q)
        ok = any(resolve_callee(db, f2, c) is fi
                 for n in c2.nodes if n.id in r2.live
                 for c in c2.calls_in(n))
        ctx.ob(rule, f'{f2.name}:adds-gene-major', f2.loc(), ok,
               'the gene-major table is added before the file is '
               'published' if ok else
               f'{f2.name} does not add the gene-major table')


def check_every_pair_recorded(ctx):
    """a marker worker is handed a run of consecutive pair indices and
    writes one up list and one down list per index; the merge places the
    lists by position.  Every index of the run therefore gets its entry
    in both tables, pairs without markers an empty one: an index that is
    passed over shifts the lists of all later pairs of the chunk onto
    their neighbours."""
    from ..rules import coverage as CV
    db = ctx.db
    rule = 'R-COVER/every-pair-recorded'
    wr = db.fn('diff_exp.markers:_write_to_tmp_file')
    for q in ('diff_exp.markers:_find_markers_worker',
              'diff_exp.p_value_markers:_find_markers_from_p_mask_worker'):
        fi, cfg, rd, ex = _fn(ctx, q)
        names = {}
        for n in cfg.nodes:
            if n.id not in rd.live:
                continue
            for c in cfg.calls_in(n):
                if resolve_callee(db, fi, c) is wr:
                    mapping, _ = bind_args(wr, c)
                    for k in ('up_reg_lookup', 'down_reg_lookup'):
                        a = mapping.get(k)
                        if isinstance(a, ast.Name):
                            names[k] = a.id
        if len(names) != 2:
            ctx.fail(rule, f'{fi.name}:tables', fi.loc(),
                     'the up / down tables handed to _write_to_tmp_file '
                     'were not recognised')
            continue
        for k, nm in sorted(names.items()):
            stores = [st for st in ast.walk(fi.node)
                      if isinstance(st, ast.Assign) and isinstance(
                          st.targets[0], ast.Subscript) and isinstance(
                              st.targets[0].value, ast.Name)
                      and st.targets[0].value.id == nm]
            if not stores:
                ctx.fail(rule, f'{fi.name}:{k}', fi.loc(),
                         f'no store into the {k} table found')
                continue
            st = stores[0]
            loop = CV.innermost_loop(st)
            if loop is None:
                ctx.fail(rule, f'{fi.name}:{k}', fi.loc(st),
                         'the table is not filled in a loop over the pair '
                         'indices')
                continue
            # keyed by the loop's own item
            keyed = isinstance(st.targets[0].slice, ast.Name) and any(
                isinstance(x, ast.Name)
                and x.id == st.targets[0].slice.id
                for x in ast.walk(loop.target))

            def act(node, _st=st):
                return node.ast is _st
            CV.check_cover(
                ctx, fi, rule, f'{fi.name}:{k}', loop, act,
                what='pair index',
                consequence=f'no entry is written for it in {k}: the '
                'lists of the later pairs of the chunk are merged one '
                'position too early')
            ctx.ob(rule, f'{fi.name}:{k}:keyed', fi.loc(st), keyed,
                   'the entry is keyed by the pair index of the turn'
                   if keyed else
                   f'`{unparse(st)[:60]}` is not keyed by the loop\'s own '
                   'pair index')


def check_all_genes_corrected(ctx):
    """the Holm correction counts hypotheses: m is the number of p-values
    that enter it.  A gene list restricts which genes may be *recorded*
    (through the penetrance inputs), it does not reduce the number of
    genes tested: the statistics handed from the per-pair front end to the
    t-test are the clusters' full mean / variance vectors, and the
    corrected vector is returned as computed -- not scattered into a
    vector of ones at the positions of a gene subset."""
    db = ctx.db
    rule = 'R-ARITH/holm-counts-all-genes'
    fi, cfg, rd, ex = _fn(ctx, SC + 'diffexp_p_values_from_stats')
    inner = db.fn(SC + 'diffexp_p_values')
    n_call = 0
    for n in cfg.nodes:
        if n.id not in rd.live:
            continue
        for c in cfg.calls_in(n):
            if resolve_callee(db, fi, c) is not inner:
                continue
            n_call += 1
            mapping, _ = bind_args(inner, c)
            bad = []
            for (k, node_p, key) in (('mean1', 'node_1', "'mean'"),
                                     ('var1', 'node_1', "'var'"),
                                     ('mean2', 'node_2', "'mean'"),
                                     ('var2', 'node_2', "'var'")):
                want = ('sub', ('sub', ('param', 'precomputed_stats'),
                                ('param', node_p)), ('const', key))
                got = ex.expand(mapping.get(k), n.id) \
                    if mapping.get(k) is not None else None
                if got != want:
                    bad.append(k)
            ctx.ob(rule, 'diffexp_p_values_from_stats:inputs', fi.loc(c),
                   not bad,
                   'the full mean / variance vectors of both clusters are '
                   'tested' if not bad else
                   f'{bad} handed to diffexp_p_values are not the '
                   'clusters\' full vectors: fewer p-values enter the Holm '
                   'correction, its multipliers shrink, and genes pass '
                   'that the correction over all genes rejects')
    if n_call == 0:
        raise AnalysisError('diffexp_p_values_from_stats no longer calls '
                            'diffexp_p_values')
    for r in _returns(cfg, rd):
        t = ex.expand(r.ast.value, r.id)
        ok = _cname(t) == 'diffexp_p_values'
        ctx.ob(rule, 'diffexp_p_values_from_stats:result', fi.loc(r.ast),
               ok,
               'the corrected p-values are returned as computed' if ok
               else f'the function returns {fmt_term(t)[:70]}, not the '
               'vector diffexp_p_values computed for all genes')
    # inside: the correction is applied to the whole p-value vector of
    # the t-test
    f2, c2, r2, e2 = _fn(ctx, SC + 'diffexp_p_values')
    for r in _returns(c2, r2):
        t = e2.expand(r.ast.value, r.id)
        ok = True
        for alt in term_alts(t):
            arg = None
            if _cname(alt) in ('correct_ttest', 'approx_correct_ttest') \
                    and alt[2]:
                arg = alt[2][0]
            elif _cname(alt) in ('correct_ttest', 'approx_correct_ttest'):
                arg = T.call_arg(alt, kw='ttest_metric')
            good = arg is not None and arg[0] == 'sub' \
                and _cname(arg[1]) == 'welch_t_test' \
                and arg[2] == ('const', '2')
            if good:
                w = arg[1]
                for k in ('mean1', 'var1', 'mean2', 'var2'):
                    if T.call_arg(w, kw=k) != ('param', k):
                        good = False
            ok = ok and good
        ctx.ob(rule, 'diffexp_p_values:corrected-vector', f2.loc(r.ast), ok,
               'the whole p-value vector of the t-test on the given '
               'vectors is corrected' if ok else
               f'diffexp_p_values returns {fmt_term(t)[:80]}: not the '
               'correction of the t-test\'s whole p-value vector')


def check_moments(ctx, rule='R-ARITH/moments'):
    """the mean and variance that enter the t-test (and, for the mean, the
    correlation with the centroids) are computed from the summed
    statistics of the leaves as  S / N  and  (Q - S^2 / N) / (N - 1), where
    S, Q and N are what the loop accumulates from the 'sum', 'sumsq' and
    'n_cells' entries; compared as rational functions, the guards that
    keep the denominators away from zero looked through."""
    fi, cfg, rd, ex = _fn(ctx, 'diff_exp.score_utils:aggregate_stats')

    def atoms(t):
        if isinstance(t, tuple) and t and t[0] in ('phi', 'aug'):
            keys = set()
            for x in T.subterms(t):
                if isinstance(x, tuple) and x and x[0] == 'aug' \
                        and x[1] == 'Add':
                    inc = x[3]
                    if isinstance(inc, tuple) and inc[0] == 'sub' \
                            and inc[2][0] == 'const':
                        keys.add(inc[2][1].strip('\'"'))
            if len(keys) == 1:
                return P.atom(('ACC', next(iter(keys))))
        return None
    S, Q, N = (P.atom(('ACC', k)) for k in ('sum', 'sumsq', 'n_cells'))
    one = P.const(1)
    want = {
        'mean': (S, N),
        'var': (P._add(P._mul(Q, N), P._mul(S, S), -1),
                P._mul(N, P._add(N, one, -1))),
    }
    # the record returned: key -> expression
    found = dict()
    for node in cfg.nodes:
        if node.id not in rd.live or node.kind != 'stmt' \
                or not isinstance(node.ast, ast.Assign):
            continue
        v = node.ast.value
        if isinstance(v, ast.Dict):
            for k, e in zip(v.keys, v.values):
                if isinstance(k, ast.Constant) and k.value in want:
                    found[k.value] = (e, node)
        tg = node.ast.targets[0]
        if isinstance(tg, ast.Subscript) and isinstance(
                tg.slice, ast.Constant) and tg.slice.value in want:
            found[tg.slice.value] = (v, node)
    for k in sorted(want):
        if k not in found:
            raise AnalysisError(f"aggregate_stats: the '{k}' entry of the "
                                'result was not found')
        e, node = found[k]
        t = ex.expand(e, node.id)
        try:
            ok = P.same_ratio(P.ratio(t, atoms), want[k])
        except P.NotPolynomial:
            ok = False
        ctx.ob(rule, f'aggregate_stats:{k}', fi.loc(node.ast), ok,
               f"'{k}' is " + ('S / N' if k == 'mean'
                               else '(Q - S^2 / N) / (N - 1)') if ok else
               f"the '{k}' of a node is computed as "
               f'{fmt_term(t)[:100]}, which is not '
               + ('sum / n_cells' if k == 'mean' else
                  '(sumsq - sum^2 / n_cells) / (n_cells - 1)')
               + ' of the statistics summed over its leaves')
