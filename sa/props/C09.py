"""
C09 -- reference statistics equal direct computation and are additive.

Decided (DESIGN.md section 5, C09):
 1. R-SCHEMA: the three producers of the statistics key table
    (summary_stats_for_chunk, the per-worker buffer, the empty output file)
    agree; the readers' required datasets are written; the merge loops add
    / copy every key they iterate.
 2. additive form: every per-chunk statistic is the cell count or a sum
    over the cell axis of an element-wise expression of the log2(CPM+1)
    block; CPM normalisation is row-wise; buffers are combined by `+=`.
 3. unknown cells: the sentinel row is not a valid row (negative
    constant) and its `continue` dominates every use of the row index.
 4. the taxonomy dataset is written after all numeric data.
"""
import ast

from ..core.cfg import cfg_of
from ..core.defuse import (rd_of, Expander, fmt_term, term_alts,
                           term_contains)
from ..core import terms as T
from ..core.loader import unparse, AnalysisError, FunctionInfo
from ..core.resolve import resolve_callee, bind_args
from ..rules.effects import PathAnalysis
from ..rules.schema import H5Schema, const_strings

ID = 'C09'

EXPLANATION = (
    "Static analysis. The key tables of summary_stats_for_chunk (constant "
    "keys stored in its result dict), of the worker buffer in "
    "_process_chunk_spec and of _create_empty_stats_file (datasets, loop "
    "over a constant tuple unrolled) are extracted and compared; the "
    "documentation headings are compared as an advisory. Required reads "
    "of read_raw_precomputed_stats and TaxonomyTree.from_precomputed_stats "
    "must be written by the stage. On the CFG of the three merge loops "
    "every path through an iteration over the keys performs the "
    "accumulation / copy for that key (no key-dependent skip). Each "
    "statistic of summary_stats_for_chunk is shown, on its symbolic term, "
    "to be `n_cells` or `E.sum(axis=0)` with E built from the data block "
    "by element-wise operators and constants only; convert_to_cpm reduces "
    "along axis 1 only and divides element-wise. In _process_chunk the "
    "sentinel comparison's `continue` dominates every subscript by the "
    "row index, and the sentinel is a negative integer constant. The "
    "taxonomy_tree dataset is created after the call that writes the "
    "numeric data. The numbers themselves, thresholds, and the row "
    "arithmetic of truncation and merging are not decided.")

EXPLANATION += (
    ' Added after the seeded rounds: every chunk reaches _process_chunk '
    '(R-COVER); merged tables start from zeros; reference files are '
    'compared by gene sequence; chunk windows tile the rows (R-TILE).'
)

EXPLANATION += (
    ' Round 3: what a worker derives from the file of the current chunk '
    'specification is refreshed under a test of that file.'
)

EXPLANATION += (
    ' Round 5: the ABC front end keys its dataset -> output and dataset -> cells tables by the label as given (R-SAMEVAL/dataset-label-keys); settings are forwarded (R-FWD).'
)

EXPLANATION += (
    ' Round 6: sums and CPM denominators are not cast back to the element type of the raw data (R-DTYPE).'
)

EXPLANATION += (
    ' Round 7: the rows a tree built from the reference file assigns to leaves are file positions (R-PROV/rows-are-file-positions, rule of C10).'
)

EXPLANATION += (
    ' Round 8: gt0 / gt1 / ge1 count cells above 0, above 1 and above 1 - eps (R-ARITH/count-thresholds).'
)

EXPLANATION += (
    " Round 9: no user of a TaxonomyTree accessor that hands out the tree's own container edits it (R-ALIAS/tree-state, whole package)."
)

EXPLANATION += (
    ' Mean and variance of a node are S / N and (Q - S^2/N)/(N - 1) of the summed statistics (R-ARITH/moments, rule of C11); counts per million are 10^6 * data / row total (R-ARITH/cpm, rule of C07).'
)

EXPLANATION += (
    " Round 10: the sparse readers do not place values by pointer scatter (rule of C05); positions found in the label array of a chunk are positions of the chunk's rows (R-SPACE/chunk-row-positions)."
)

EXPLANATION += (
    ' Round 11: output rows are numbered from all leaves of the tree (R-COVER/row-per-leaf).'
)

EXPLANATION += (
    ' Round 12: the rows chunked are all rows of the file (R-PROV/row-extent).'
)

EXPLANATION += (
    ' Round 14: the reference file list and the cell tables are handed on as received by the front ends (R-FWD/handed-on-unchanged).'
)

EXPLANATION += (
    " Round 15: the truncation finds the rows of its input through the file's cluster_to_row (R-PROV/rows-through-file-table)."
)

EXPLANATION += (
    ' Round 16: the truncation helper addresses rows only through its leaf -> row tables (R-PROV/rows-through-row-tables).'
)

EXPLANATION += (
    ' Round 17: the copy helpers the merge reaches (utils.h5_utils) are judged with the window rules, comprehensions included.'
)

RULE_TEXT = (
    "one obligation per key of each producer, per required read, per "
    "merge loop, per statistic, per use of the row index")

ASSUMPTIONS = [
    "numpy: X.sum(axis=0) reduces the first (cell) axis; comparison and "
    "power with constants are element-wise",
    "necessary conditions only",
]

ELEMENTWISE_OPS = ('Pow', 'Mult', 'Add', 'Sub', 'Div')


def check(ctx):
    keys = check_key_tables(ctx)
    check_merge_loops(ctx)
    check_additive_form(ctx, keys)
    check_rowwise_cpm(ctx)
    check_sentinel(ctx)
    check_taxonomy_last(ctx)
    check_every_chunk_counted(ctx)
    check_per_file_state(ctx)
    check_same_gene_order(ctx)
    check_merge_tables_agree(ctx)
    check_dataset_keys_as_given(ctx)
    check_count_thresholds(ctx)
    check_row_per_leaf(ctx)
    check_row_extent_is_file_length(ctx)
    # what is summed over the leaves becomes a mean and a variance by the
    # textbook formulas (rule of C11)
    from .C11 import check_moments
    check_moments(ctx)
    # ... of counts per million as the matrix class computes them (rule
    # of C07)
    from .C07 import check_cpm_formula
    check_cpm_formula(ctx)
    # the rows a tree built from the reference file assigns to its leaves
    # are file positions (rule of C10): statistics are summed over them
    from .C10 import check_rows_are_file_positions
    check_rows_are_file_positions(ctx)
    # the tree handed to the front ends (and written next to the
    # statistics) is not edited through what its accessors return
    from ..rules.escape import check_tree_state_not_mutated
    check_tree_state_not_mutated(ctx)
    # the rows a chunk is cut into come from the sparse readers: stored
    # values are not placed by pointer scatter (a cell after an empty cell
    # would be counted towards the cluster of its neighbour; rule of C05)
    from .C05 import check_scatter
    check_scatter(ctx)
    from .C05 import check_tiles
    check_tiles(ctx, ('diff_exp.precompute_from_anndata',
                      'diff_exp.precompute_utils'), floor=1)
    # the reference files named by the caller are the files summed over:
    # every front end hands its data_path_list on as received (rule of
    # C03); which files contribute is decided from their cells, below
    from .C03 import check_settings_forwarded_unchanged
    n = check_settings_forwarded_unchanged(
        ctx, ('data_path_list', 'cluster_to_input_row',
              'cell_name_to_cluster_name', 'cluster_to_output_row'),
        modules=('diff_exp.precompute_from_anndata',),
        consequence='the statistics are summed over other cells than the '
                    'files and the taxonomy name')
    ctx.floor('R-FWD/handed-on-unchanged', 2)
    check_truncation_rows_through_file_table(ctx)
    check_rows_addressed_through_tables(ctx)
    from .C05 import sweep_generic_rules
    sweep_generic_rules(ctx, ('diff_exp.precompute',))
    # settings this property depends on are handed down every call
    # chain, never left to a callee's default (sa/rules/forwarding.py)
    # computed values are not forced back into the element type of the
    # raw data (sa/rules/idioms.py, R-DTYPE)
    from ..rules.idioms import (check_narrowing_cast,
                                check_inplace_float_store)
    n_dt = 0
    for fi_ in ctx.db.iter_functions():
        if fi_.module.short.startswith(('cell_by_gene.', 'diff_exp.precompute', 'utils.stats_utils')):
            n_dt += check_narrowing_cast(ctx, fi_)
            n_dt += check_inplace_float_store(ctx, fi_)
    ctx.ok('R-DTYPE/scan', 'normalisation and statistics modules', 'package',
           'no computed value is cast to, or stored in place into, the '
           'element type of the raw data', nontrivial=False)
    from ..rules.forwarding import check_forwarding
    check_forwarding(ctx, {'normalization', 'rows_at_a_time', 'n_processors', 'cell_set', 'gene_names', 'bad_row_idx'})


# ----------------------------------------------------------------------

def _dict_store_keys(fi, var=None):
    """constant keys stored as VAR['k'] = ... in fi"""
    out = dict()
    for n in ast.walk(fi.node):
        if isinstance(n, ast.Assign):
            for tg in n.targets:
                if isinstance(tg, ast.Subscript) and isinstance(
                        tg.slice, ast.Constant) and isinstance(
                            tg.slice.value, str) and isinstance(
                                tg.value, ast.Name) and (
                        var is None or tg.value.id == var):
                    out.setdefault((tg.value.id, tg.slice.value), n)
    return out


def check_key_tables(ctx):
    db = ctx.db
    rule = 'R-SCHEMA/stats-key-table'
    a = db.fn('utils.stats_utils:summary_stats_for_chunk')
    b = db.fn('diff_exp.precompute_from_anndata:_process_chunk_spec')
    c = db.fn('diff_exp.precompute:_create_empty_stats_file')
    for f in (a, b, c):
        ctx.touch(f)
    # A: keys of the returned dict
    cfg = cfg_of(a)
    rd = rd_of(a)
    rets = [n for n in cfg.nodes if n.kind == 'return' and n.id in rd.live]
    if not rets or not isinstance(rets[0].ast.value, ast.Name):
        raise AnalysisError('summary_stats_for_chunk does not return a '
                            'dict variable')
    rv = rets[0].ast.value.id
    keys_a = {k for (v, k) in _dict_store_keys(a) if v == rv}
    # B: the buffer dict written to the per-worker file
    buf_var = None
    for n in ast.walk(b.node):
        if isinstance(n, ast.For) and isinstance(n.iter, ast.Name):
            for sub in ast.walk(n):
                if isinstance(sub, ast.Call) and isinstance(
                        sub.func, ast.Attribute) \
                        and sub.func.attr == 'create_dataset':
                    buf_var = n.iter.id
    if buf_var is None:
        raise AnalysisError('_process_chunk_spec: buffer dict not found')
    keys_b = {k for (v, k) in _dict_store_keys(b) if v == buf_var}
    # C: numeric datasets of the empty file
    pa = PathAnalysis(db, ctx.cg)
    sc = H5Schema(db, ctx.cg, pa)
    w = sc.written(c, 'output_path')
    meta = {'col_names', 'cluster_to_row', 'taxonomy_tree'}
    keys_c = {k for k in w if k not in meta}
    if min(len(keys_a), len(keys_b), len(keys_c)) < 3:
        raise AnalysisError(f'key tables not recognised: {keys_a} '
                            f'{keys_b} {keys_c}')
    allk = keys_a | keys_b | keys_c
    for k in sorted(allk):
        missing = [nm for nm, ks in (
            ('summary_stats_for_chunk', keys_a),
            ('the worker buffer of _process_chunk_spec', keys_b),
            ('_create_empty_stats_file', keys_c)) if k not in ks]
        ctx.ob(rule, f'key:{k}', c.loc(), not missing,
               f"'{k}' is in all three producers' tables" if not missing
               else f"statistic '{k}' is missing from {missing}: the "
               'per-chunk result, the worker buffer and the output file '
               'disagree on the key table (KeyError or a statistic that '
               'is silently never written)')
    # readers
    rule2 = 'R-SCHEMA/stats-readers'
    stage = db.fn('diff_exp.precompute_from_anndata:'
                  'precompute_summary_stats_from_h5ad_and_tree')
    written = set(sc.written(stage, 'output_path'))
    for (q, p) in (('diff_exp.score_utils:read_raw_precomputed_stats',
                    'precomputed_stats_path'),
                   ('taxonomy.taxonomy_tree:'
                    'TaxonomyTree.from_precomputed_stats', 'stats_path')):
        f = db.fn(q)
        ctx.touch(f)
        for k, acc in sorted(sc.required_reads(f, p).items()):
            if '*' in k:
                continue
            ctx.ob(rule2, f'{f.qual}:{k}', acc.where(), k in written,
                   f"'{k}' is written by the statistics stage"
                   if k in written else
                   f"{f.name} requires '{k}', which the statistics stage "
                   'does not write')
    # the numeric keys the reader asks for by name are the producers' keys
    rr = db.fn('diff_exp.score_utils:read_raw_precomputed_stats')
    asked = set()
    for n in ast.walk(rr.node):
        if isinstance(n, ast.Call) and isinstance(n.func, ast.Name) \
                and n.func.id == 'set' and n.args and isinstance(
                    n.args[0], (ast.List, ast.Tuple)):
            vals = [e.value for e in n.args[0].elts
                    if isinstance(e, ast.Constant)]
            if len(vals) >= 3:
                asked = set(vals)
    for k in sorted(asked):
        ctx.ob(rule2, f'read_raw_precomputed_stats:asks:{k}', rr.loc(),
               k in keys_c,
               f"'{k}' exists in the file" if k in keys_c else
               f"the reader looks for '{k}', which no producer writes")
    for k in sorted(keys_c):
        ctx.ob(rule2, f'read_raw_precomputed_stats:knows:{k}', rr.loc(),
               k in asked or not asked,
               f"'{k}' is read back" if k in asked or not asked else
               f"statistic '{k}' is written but the reader never loads it")
    _doc_advisory(ctx, keys_c | {'col_names', 'cluster_to_row',
                                 'taxonomy_tree'})
    return keys_a


def _doc_advisory(ctx, keys):
    p = ctx.db.repo_root / 'docs' / 'input_data_files' / \
        'precomputed_stats_file.md'
    if not p.is_file():
        ctx.note('documentation of the statistics file not found '
                 '(advisory comparison skipped)')
        return
    heads = set()
    in_schema = False
    for line in p.read_text().splitlines():
        if line.startswith('## '):
            in_schema = 'schema' in line.lower()
        if in_schema and line.startswith('#### '):
            import re
            found = re.findall(r'`([^`]+)`', line)
            if found:
                heads.update(found)
            else:
                heads.add(line[5:].strip())
    if heads:
        diff = (keys - heads) | (heads - keys)
        ctx.note('documented datasets '
                 + ('agree with the code' if not diff else
                    f'differ from the code (advisory): {sorted(diff)}'))


# ----------------------------------------------------------------------

def check_merge_loops(ctx):
    """in each loop over the keys, every path through an iteration does
    the accumulation / copy for the key"""
    db = ctx.db
    rule = 'R-MUST/merge-covers-every-key'
    stage = ('diff_exp.precompute_from_anndata:'
             '_precompute_summary_stats_from_h5ad_and_lookup')
    specs = [
        ('diff_exp.precompute_from_anndata:_process_chunk', 'aug'),
        (stage, 'aug'),
        (stage, 'store'),
    ]
    merge_loops = []
    for (q, how) in specs:
        fi = db.fn(q)
        ctx.touch(fi)
        cfg = cfg_of(fi)
        rd = rd_of(fi)
        with_names = set()
        for w in ast.walk(fi.node):
            if isinstance(w, ast.With):
                for it in w.items:
                    if isinstance(it.optional_vars, ast.Name):
                        with_names.add(it.optional_vars.id)
        loops = []
        for n in cfg.nodes:
            if n.kind != 'for' or n.id not in rd.live:
                continue
            tvars = {x.id for x in ast.walk(n.ast.target)
                     if isinstance(x, ast.Name)}
            acts = dict()
            for sub_n in cfg.nodes:
                if sub_n.id not in rd.live or sub_n.kind != 'stmt':
                    continue
                s = sub_n.ast
                if not _inside(s, n.ast):
                    continue
                # the accumulation `D[k][...] += ...` / the copy
                # `handle[k][...] = D[k]` for the key of this loop; the
                # containers are found by shape, not by name
                if how == 'aug' and isinstance(s, ast.AugAssign) \
                        and isinstance(s.op, ast.Add) and isinstance(
                            s.target, ast.Subscript):
                    b = _base(s.target)
                    if b is not None and b not in with_names \
                            and _mentions(s.target, tvars):
                        acts[sub_n.id] = b
                if how == 'store' and isinstance(s, ast.Assign):
                    for tg in s.targets:
                        if isinstance(tg, ast.Subscript) and isinstance(
                                tg.value, ast.Subscript) and _base(
                                tg) in with_names and _mentions(tg, tvars):
                            acts[sub_n.id] = _base(tg)
            if acts:
                loops.append((n, acts))
        if not loops:
            ctx.fail(rule, f'{q}:{how}', fi.loc(),
                     'no loop over the statistic keys that '
                     + ('accumulates (`+=`) into a per-key table'
                        if how == 'aug' else
                        'copies the per-key table into the output file')
                     + ' was found')
            continue
        for (n, acts) in loops:
            target = sorted(set(acts.values()))[0]
            if q == stage and how == 'aug':
                merge_loops.append(n.ast)
            body_entries = [t for (t, lab) in cfg.succ[n.id]
                            if lab == 'iter']
            ok = True
            wit = None
            for be in body_entries:
                if be in acts:
                    continue
                okp, p = cfg.must_pass(
                    be, {n.id, cfg.exit}, lambda x: x.id in acts,
                    edge_ok=lambda a, b, lab: lab != 'exc')
                if not okp:
                    ok = False
                    wit = cfg.fmt_path(p)
            ctx.ob(rule, f'{q}:{how}:{unparse(n.ast.iter)}',
                   fi.loc(n.ast), ok,
                   f'every iteration over the keys updates `{target}`'
                   if ok else
                   f'an iteration of `{n.text()}` can skip the update of '
                   f'`{target}`: that statistic is dropped for some key',
                   witness=wit)
    # each piece is added exactly once: where the table for a key is
    # created inside the merge loop and the `+=` of the same iteration
    # still follows, the initial value must not already contain the piece
    # (zeros of its shape are fine, a copy of its data is counted twice)
    fi = db.fn(stage)
    for lp in merge_loops:
        tvars = {x.id for x in ast.walk(lp.target)
                 if isinstance(x, ast.Name)}
        augs = [s_ for s_ in ast.walk(lp) if isinstance(s_, ast.AugAssign)
                and isinstance(s_.op, ast.Add)
                and isinstance(s_.target, ast.Subscript)
                and _mentions(s_.target, tvars)]
        srcs = set()
        for a_ in augs:
            srcs |= {_base(x) for x in ast.walk(a_.value)
                     if isinstance(x, ast.Subscript)}
        srcs.discard(None)
        # the table may be created by a sibling loop of the same outer
        # iteration (`if table is None: for k: table[k] = ...`)
        outer = getattr(lp, '_parent', None)
        while outer is not None and not isinstance(
                outer, (ast.For, ast.FunctionDef)):
            outer = getattr(outer, '_parent', None)
        scope = outer if isinstance(outer, ast.For) else lp
        inits = [s_ for s_ in ast.walk(scope) if isinstance(s_, ast.Assign)
                 and isinstance(s_.targets[0], ast.Subscript)
                 and _base(s_.targets[0]) in {_base(a_.target)
                                              for a_ in augs}]
        for k_, st in enumerate(inits):
            reads = False
            for x in ast.walk(st.value):
                if isinstance(x, ast.Subscript) and _base(x) in srcs:
                    par = getattr(x, '_parent', None)
                    # src[k].shape / .dtype describe the piece; anything
                    # else reads its data
                    top = x
                    while isinstance(getattr(top, '_parent', None),
                                     ast.Subscript) and getattr(
                                         top, '_parent').value is top:
                        top = top._parent
                    par = getattr(top, '_parent', None)
                    if not (isinstance(par, ast.Attribute)
                            and par.attr in ('shape', 'dtype', 'ndim',
                                             'size')):
                        reads = True
            ctx.ob('R-AXIS/additive-statistic/merge-init',
                   f'{fi.qual}:init#{k_}', fi.loc(st), not reads,
                   'the table starts from zeros of the piece\'s shape'
                   if not reads else
                   f'`{unparse(st)[:60]}` starts the table from the data '
                   'of the first piece, and the `+=` of the same iteration '
                   'adds that piece again: the first worker\'s cells are '
                   'counted twice')
    # the worker buffers are combined over all buffer files: the loop
    # around the accumulation iterates the list the dispatch loop
    # appended to (its order is a C04 matter)
    fi = db.fn(stage)
    rd = rd_of(fi)
    ok = False
    for lp in merge_loops:
        outer = getattr(lp, '_parent', None)
        while outer is not None and not isinstance(
                outer, (ast.For, ast.FunctionDef)):
            outer = getattr(outer, '_parent', None)
        if isinstance(outer, ast.For) and isinstance(outer.iter, ast.Name):
            for (mn, astn, how) in rd.muts.get(outer.iter.id, []):
                if isinstance(astn, ast.Call) and isinstance(
                        astn.func, ast.Attribute) \
                        and astn.func.attr == 'append':
                    ok = True
    ctx.ob(rule, f'{fi.qual}:all-buffers', fi.loc(), ok,
           'every worker buffer is merged' if ok else
           'the merge does not iterate the list of buffer files the '
           'dispatch loop filled')


def _inside(s, loop):
    for b in loop.body:
        for sub in ast.walk(b):
            if sub is s:
                return True
    return False


def _base(e):
    while isinstance(e, (ast.Subscript, ast.Attribute)):
        e = e.value
    return e.id if isinstance(e, ast.Name) else None


def _mentions(e, names):
    """is the key position (the subscript applied directly to the base
    container) one of `names`?"""
    inner = None
    while isinstance(e, (ast.Subscript, ast.Attribute)):
        if isinstance(e, ast.Subscript) and isinstance(e.value, ast.Name):
            inner = e
        e = e.value
    if inner is None:
        return False
    return any(isinstance(x, ast.Name) and x.id in names
               for x in ast.walk(inner.slice))


# ----------------------------------------------------------------------

def _elementwise_of(t, root):
    """is t built from `root` by element-wise operators and constants?"""
    if t == root:
        return True
    if t[0] == 'const':
        return True
    if t[0] == 'binop' and t[1] in ELEMENTWISE_OPS:
        return _elementwise_of(t[2], root) and _elementwise_of(t[3], root)
    if t[0] == 'cmp' and len(t[3]) == 1:
        return _elementwise_of(t[2], root) and _elementwise_of(t[3][0],
                                                               root)
    if t[0] == 'unop':
        return _elementwise_of(t[2], root)
    if t[0] == 'call' and T.call_name(t) in (
            'abs', 'sqrt', 'log2', 'square', 'astype', 'logical_and',
            'logical_or', 'logical_not', 'where'):
        args = list(t[2]) + [v for (_k, v) in t[3]]
        r = T.call_receiver(t)
        if r is not None and r[0] != 'name':
            args.append(r)
        return all(_elementwise_of(a, root) or a[0] in ('name', 'attr')
                   for a in args)
    return False


def check_additive_form(ctx, keys):
    db = ctx.db
    fi = db.fn('utils.stats_utils:summary_stats_for_chunk')
    cfg = cfg_of(fi)
    rd = rd_of(fi)
    ex = Expander(fi)
    rule = 'R-AXIS/additive-statistic'
    param = fi.params[0]
    data_root = ('attr', ('param', param), 'data')
    n = 0
    for node in cfg.nodes:
        if node.kind != 'stmt' or node.id not in rd.live:
            continue
        s = node.ast
        if not isinstance(s, ast.Assign):
            continue
        for tg in s.targets:
            if isinstance(tg, ast.Subscript) and isinstance(
                    tg.slice, ast.Constant) and tg.slice.value in keys:
                k = tg.slice.value
                t = ex.expand(s.value, node.id)
                n += 1
                ok = False
                detail = fmt_term(t)[:120]
                if t == ('attr', ('param', param), 'n_cells'):
                    ok = True
                    detail = 'the cell count'
                elif T.call_name(t) == 'sum':
                    axis = T.call_arg(t, None, 'axis')
                    recv = T.call_receiver(t)
                    arr = recv
                    if recv is not None and recv[0] == 'name':
                        # np.sum(E, axis=0)
                        arr = t[2][0] if t[2] else None
                        if axis is None and len(t[2]) > 1:
                            axis = t[2][1]
                    elif axis is None and t[2]:
                        axis = t[2][0]
                    if axis == ('const', '0') and arr is not None \
                            and _elementwise_of(arr, data_root):
                        ok = True
                        detail = ('sum over the cell axis of an '
                                  'element-wise expression of the block')
                    elif axis != ('const', '0'):
                        detail = (f'reduces along axis '
                                  f'{fmt_term(axis) if axis else "None"}, '
                                  'not the cell axis 0')
                    else:
                        detail = ('the summand is not an element-wise '
                                  f'expression of the block: '
                                  f'{fmt_term(arr)[:80]}')
                ctx.ob(rule, f'summary_stats_for_chunk:{k}', fi.loc(s), ok,
                       f"'{k}' is {detail}" if ok else
                       f"statistic '{k}' is not a cell count or a cell-"
                       f'axis sum of an element-wise term ({detail}): it '
                       'is not additive over a split of the cells, so the '
                       'result depends on chunking and worker count')
    if n < len(keys):
        ctx.fail(rule, 'summary_stats_for_chunk:keys', fi.loc(),
                 f'only {n} of {len(keys)} statistics are assigned')
    # buffers are combined with += (addition), in _process_chunk
    pc = db.fn('diff_exp.precompute_from_anndata:_process_chunk')
    adds = [n_ for n_ in ast.walk(pc.node)
            if isinstance(n_, ast.AugAssign) and _base(n_.target)
            == 'buffer_dict']
    ok = bool(adds) and all(isinstance(a.op, ast.Add) for a in adds)
    ctx.ob(rule, '_process_chunk:combine', pc.loc(), ok,
           'per-chunk statistics are combined by addition' if ok else
           'per-chunk statistics are not combined by `+=`')


def check_rowwise_cpm(ctx):
    db = ctx.db
    fi = db.fn('cell_by_gene.utils:convert_to_cpm')
    ctx.touch(fi)
    rule = 'R-AXIS/row-wise-normalisation'
    reductions = []
    for n in ast.walk(fi.node):
        if isinstance(n, ast.Call):
            nm = n.func.attr if isinstance(n.func, ast.Attribute) else (
                n.func.id if isinstance(n.func, ast.Name) else None)
            if nm in ('sum', 'mean', 'max', 'min', 'median', 'std',
                      'norm', 'cumsum', 'prod'):
                axis = None
                for kw in n.keywords:
                    if kw.arg in ('axis', 'dim'):
                        axis = kw.value
                if axis is None and len(n.args) > 1:
                    axis = n.args[1]
                reductions.append((n, axis))
    if not reductions:
        ctx.fail(rule, 'convert_to_cpm:reduction', fi.loc(),
                 'no per-row total found in convert_to_cpm')
    for (n, axis) in reductions:
        ok = isinstance(axis, ast.Constant) and axis.value == 1
        ctx.ob(rule, f'convert_to_cpm:{unparse(n)[:40]}', fi.loc(n), ok,
               'totals are taken per cell (along the gene axis)' if ok else
               f'`{unparse(n)}` does not reduce along the gene axis of a '
               'single cell: the normalisation of a cell would depend on '
               'the other cells of its chunk')


# ----------------------------------------------------------------------

def check_sentinel(ctx):
    check_chunk_row_positions(ctx)
    db = ctx.db
    fi = db.fn('diff_exp.precompute_from_anndata:_process_chunk')
    ctx.touch(fi)
    cfg = cfg_of(fi)
    rd = rd_of(fi)
    ex = Expander(fi)
    rule = 'R-GUARD/unknown-cells-skipped'
    guards = []
    for n in cfg.nodes:
        if n.kind == 'if' and n.id in rd.live:
            t = n.ast.test
            if isinstance(t, ast.Compare) and len(t.ops) == 1 \
                    and isinstance(t.ops[0], ast.Eq):
                names = {x.id for x in ast.walk(t)
                         if isinstance(x, ast.Name)}
                if 'bad_row_idx' in names:
                    # true edge must be a continue
                    for (tt, lab) in cfg.succ[n.id]:
                        if lab == 'true' and cfg.nodes[tt].kind == \
                                'continue':
                            other = (names - {'bad_row_idx'})
                            guards.append((n, other))
    if not guards:
        ctx.fail(rule, '_process_chunk:guard', fi.loc(),
                 'no `if <row> == bad_row_idx: continue` guard: cells the '
                 'taxonomy does not name would be accumulated')
        return
    g, rowvars = guards[0]
    rowvar = next(iter(rowvars)) if rowvars else None
    n_use = 0
    for n in cfg.nodes:
        if n.id not in rd.live or n.id == g.id:
            continue
        for root in n.exprs:
            if root is None:
                continue
            for sub in ast.walk(root):
                if isinstance(sub, ast.Subscript):
                    idx_names = {x.id for x in ast.walk(sub.slice)
                                 if isinstance(x, ast.Name)}
                    if rowvar in idx_names:
                        n_use += 1
                        dom = any(lab == 'false' and (
                            tt == n.id or cfg.dominates(tt, n.id))
                            for (tt, lab) in cfg.succ[g.id])
                        ctx.ob(rule, f'_process_chunk:{unparse(sub)[:40]}',
                               fi.loc(sub), dom,
                               'only reached when the row is not the '
                               'sentinel' if dom else
                               f'`{unparse(sub)[:50]}` uses the row index '
                               'on a path that did not pass the sentinel '
                               'test')
    if n_use == 0:
        ctx.fail(rule, '_process_chunk:uses', fi.loc(),
                 'no use of the row index recognised')
    # the sentinel is not a valid row
    lk = db.fn('diff_exp.precompute_from_anndata:'
               '_precompute_summary_stats_from_h5ad_and_lookup')
    # the value handed to the workers' `bad_row_idx` parameter (directly or
    # through the kwargs dict of a Process), resolved through the reaching
    # definitions of whatever local carries it
    lcfg = cfg_of(lk)
    lrd = rd_of(lk)
    exprs = []
    for n in ast.walk(lk.node):
        if isinstance(n, ast.Call):
            exprs += [k.value for k in n.keywords if k.arg == 'bad_row_idx']
        elif isinstance(n, ast.Dict):
            exprs += [v for (k, v) in zip(n.keys, n.values)
                      if isinstance(k, ast.Constant)
                      and k.value == 'bad_row_idx']

    def _const(v):
        if isinstance(v, ast.UnaryOp) and isinstance(
                v.op, ast.USub) and isinstance(v.operand, ast.Constant):
            return -v.operand.value
        if isinstance(v, ast.Constant):
            return v.value
        return None
    vals = set()
    for e in exprs:
        if isinstance(e, ast.Name):
            ns = [x for x in lcfg.node_of_expr(e) if x.id in lrd.live]
            for d in (lrd.reaching(e.id, ns[0].id) if ns else []):
                vals.add(_const(getattr(d, 'value', None)))
        else:
            vals.add(_const(e))
    val = None
    if vals and all(isinstance(v, int) for v in vals):
        val = max(vals)
    ok = isinstance(val, int) and val < 0
    ctx.ob(rule, 'bad_row_idx:value', lk.loc(), ok,
           f'the sentinel {val} is negative, hence not an output row'
           if ok else
           f'the sentinel row index is {val!r}: it can coincide with a '
           'real output row, whose cells would then be dropped')


def check_taxonomy_last(ctx):
    db = ctx.db
    rule = 'R-MUST/taxonomy-written-last'
    for q in ('diff_exp.precompute_from_anndata:'
              'precompute_summary_stats_from_h5ad_and_tree',
              'diff_exp.precompute_from_anndata:'
              'precompute_summary_stats_from_h5ad_list_and_tree'):
        fi = db.fn(q)
        ctx.touch(fi)
        cfg = cfg_of(fi)
        rd = rd_of(fi)
        tax = []
        numeric = []
        for n in cfg.nodes:
            if n.id not in rd.live:
                continue
            for c in cfg.calls_in(n):
                if isinstance(c.func, ast.Attribute) \
                        and c.func.attr == 'create_dataset' and c.args \
                        and isinstance(c.args[0], ast.Constant) \
                        and c.args[0].value == 'taxonomy_tree':
                    tax.append(n)
                t = resolve_callee(db, fi, c)
                if isinstance(t, FunctionInfo) and t.name.startswith(
                        'precompute_summary_stats_from_h5ad_and_lookup'):
                    numeric.append(n)
        ok = bool(tax) and bool(numeric) and all(
            any(cfg.dominates(m.id, t_.id) for m in numeric) for t_ in tax)
        ctx.ob(rule, f'{fi.qual}', fi.loc(), ok,
               'the taxonomy dataset is created only after the numeric '
               'data was written' if ok else
               'the taxonomy_tree dataset is not dominated by the call '
               'that writes the numeric statistics: an interrupted run '
               'leaves a file that looks complete')


def check_every_chunk_counted(ctx):
    """the worker hands every chunk it was given to _process_chunk: a chunk
    that is skipped (for a reason other than holding nothing to count)
    makes the statistics depend on how the cells were cut into chunks"""
    from ..rules import coverage as CV
    db = ctx.db
    fi = db.fn('diff_exp.precompute_from_anndata:_process_chunk_spec')
    target = db.fn('diff_exp.precompute_from_anndata:_process_chunk')
    ctx.touch(fi)
    rule = 'R-COVER/every-chunk-counted'
    cfg = cfg_of(fi)
    loop = None
    for n in ast.walk(fi.node):
        if isinstance(n, ast.Call) and resolve_callee(db, fi, n) is target:
            loop = CV.innermost_loop(n)
    if loop is None:
        ctx.fail(rule, '_process_chunk_spec', fi.loc(),
                 'no loop calling _process_chunk found')
        return

    def act(node):
        return any(resolve_callee(db, fi, c) is target
                   for c in cfg.calls_in(node))

    def allow(test, edge):
        return CV.is_emptiness_test(test) and edge == 'true'
    CV.check_cover(ctx, fi, rule, '_process_chunk_spec:chunks', loop, act,
                   allow=allow, what='chunk',
                   consequence='the cells of that chunk are missing from '
                   'n_cells / sum / sumsq / gt0 / gt1 / ge1, so the result '
                   'depends on rows_at_a_time, on file boundaries and on '
                   'the split between workers')


def check_same_gene_order(ctx):
    """the sums of all reference files are accumulated column by column
    under the gene order of the first file: a file whose var index lists
    the genes in another order must be refused.  The refusal compares the
    two name *sequences*; a comparison of sets (or sorted copies, or
    lengths) lets a permuted file through, and its counts are added under
    the wrong genes."""
    from ..core.slicing import backward_slice
    db = ctx.db
    fi = db.fn('diff_exp.precompute_from_anndata:'
               '_precompute_summary_stats_from_h5ad_and_lookup')
    ctx.touch(fi)
    cfg = cfg_of(fi)
    rd = rd_of(fi)
    rule = 'R-GUARD/same-gene-order'
    guards = []
    for n in cfg.nodes:
        if n.kind != 'if' or n.id not in rd.live:
            continue
        sl = backward_slice(fi, n.ast.test, n.id)
        if not (sl.has_call('read_df_from_h5ad') and 'var' in sl.consts):
            continue
        raises = False
        for (t, lab) in cfg.succ[n.id]:
            if lab == 'true':
                okp, _p = cfg.must_pass(
                    t, {cfg.exit}, lambda x: x.kind == 'raise',
                    edge_ok=lambda a, b, l2: l2 != 'exc')
                raises = okp or cfg.nodes[t].kind == 'raise'
        if raises:
            guards.append(n)
    if not guards:
        ctx.fail(rule, f'{fi.qual}:guard', fi.loc(),
                 'no raising comparison of the gene names of the '
                 'reference files was found')
        return
    for k, g in enumerate(guards):
        t = g.ast.test
        ok = isinstance(t, ast.Compare) and len(t.ops) == 1 and isinstance(
            t.ops[0], (ast.NotEq, ast.Eq))
        weak = None
        if ok:
            for side in [t.left] + list(t.comparators):
                if isinstance(side, ast.Call):
                    nm = side.func.id if isinstance(
                        side.func, ast.Name) else getattr(
                            side.func, 'attr', '')
                    if nm in ('set', 'frozenset', 'sorted', 'len',
                              'Counter'):
                        weak = nm
        ok = ok and weak is None
        ctx.ob(rule, f'{fi.qual}:guard#{k}', fi.loc(g.ast), ok,
               'files whose gene names differ in content or order are '
               'refused' if ok else
               f'`{unparse(t)[:70]}` compares the gene names through '
               f'`{weak or "an order-insensitive form"}`: a file listing '
               'the same genes in another order is accepted and its '
               'columns are added under the wrong genes')


def check_per_file_state(ctx):
    """a worker walks (file, r0, r1) specifications that may span several
    reference files and caches what it derives from the current file (the
    row iterator, the list of cell names).  Everything derived from the
    file inside the loop is refreshed under a condition that looks at the
    file of the current specification; state that is set once (`if x is
    None`) goes stale at the first file boundary, and rows are then
    attributed to the cells of another file."""
    from ..rules import coverage as CV
    from ..core.slicing import backward_slice
    db = ctx.db
    fi = db.fn('diff_exp.precompute_from_anndata:_process_chunk_spec')
    target = db.fn('diff_exp.precompute_from_anndata:_process_chunk')
    ctx.touch(fi)
    rule = 'R-SAMEVAL/per-file-state'
    loop = None
    for n in ast.walk(fi.node):
        if isinstance(n, ast.Call) and resolve_callee(db, fi, n) is target:
            loop = CV.innermost_loop(n)
    if loop is None or not isinstance(loop, ast.For):
        ctx.fail(rule, '_process_chunk_spec', fi.loc(),
                 'no loop over chunk specifications found')
        return
    lvars = {x.id for x in ast.walk(loop.target) if isinstance(x, ast.Name)}
    n_state = 0
    for st in ast.walk(loop):
        if not (isinstance(st, ast.Assign) and len(st.targets) == 1
                and isinstance(st.targets[0], ast.Name)):
            continue
        # derived from the file of the specification: mentions spec[0]
        from_file = any(
            isinstance(x, ast.Subscript) and isinstance(x.value, ast.Name)
            and x.value.id in lvars and isinstance(x.slice, ast.Constant)
            and x.slice.value == 0 for x in ast.walk(st.value))
        if not from_file:
            continue
        guards = []
        p_ = getattr(st, '_parent', None)
        while p_ is not None and p_ is not loop:
            if isinstance(p_, ast.If):
                guards.append(p_)
            p_ = getattr(p_, '_parent', None)
        if not guards:
            continue          # recomputed in every iteration
        n_state += 1
        ok = any(any(isinstance(x, ast.Name) and x.id in lvars
                     for x in ast.walk(g.test)) for g in guards)
        ctx.ob(rule, f'_process_chunk_spec:state#{n_state - 1}',
               fi.loc(st), ok,
               f'`{st.targets[0].id}` is refreshed when the file of the '
               'specification changes' if ok else
               f'`{unparse(st)[:60]}` is derived from the file of the '
               'current specification but is only set under '
               f'`{unparse(guards[0].test)[:40]}`, which does not look at '
               'the file: after a file boundary the rows of the new file '
               'are attributed with the stale value')
    if n_state == 0:
        ctx.ok(rule, '_process_chunk_spec', fi.loc(loop),
               'nothing derived from the file is cached across '
               'iterations', nontrivial=False)


def _weak_comparison(t):
    """name of the order- / content-insensitive form a comparison goes
    through, or None"""
    if not (isinstance(t, ast.Compare) and len(t.ops) == 1 and isinstance(
            t.ops[0], (ast.NotEq, ast.Eq))):
        return 'not an (in)equality of the two tables'
    for side in [t.left] + list(t.comparators):
        if isinstance(side, ast.Call):
            f = side.func
            nm = f.id if isinstance(f, ast.Name) else getattr(f, 'attr', '')
            if nm in ('set', 'frozenset', 'sorted', 'len', 'Counter',
                      'keys', 'values'):
                return nm
    return None


def check_merge_tables_agree(ctx):
    """merge_precompute_files replaces rows and columns of one statistics
    file by those of another *by position*.  It may do so only after it
    has established that the two files number clusters and genes in the
    same way: the raising comparisons of 'cluster_to_row' and 'col_names'
    compare the complete tables (not their key sets, lengths or sorted
    copies)."""
    from ..core.slicing import backward_slice
    db = ctx.db
    fi = db.fn('diff_exp.precompute_utils:merge_precompute_files')
    ctx.touch(fi)
    cfg = cfg_of(fi)
    rd = rd_of(fi)
    rule = 'R-GUARD/merge-tables-agree'
    for key in ('cluster_to_row', 'col_names'):
        guards = []
        for n in cfg.nodes:
            if n.kind != 'if' or n.id not in rd.live:
                continue
            sl = backward_slice(fi, n.ast.test, n.id)
            if key not in sl.consts:
                continue
            for (t, lab) in cfg.succ[n.id]:
                if lab == 'true':
                    okp, _p = cfg.must_pass(
                        t, {cfg.exit}, lambda x: x.kind == 'raise',
                        edge_ok=lambda a, b, l2: l2 != 'exc')
                    if okp or cfg.nodes[t].kind == 'raise':
                        guards.append(n)
        if not guards:
            ctx.fail(rule, f'{fi.qual}:{key}', fi.loc(),
                     f"no raising comparison of '{key}' between the files "
                     'that are merged by position')
            continue
        for g in guards:
            weak = _weak_comparison(g.ast.test)
            # the operands must be the tables themselves
            ctx.ob(rule, f'{fi.qual}:{key}', fi.loc(g.ast), weak is None,
                   f"files whose '{key}' differ in content or numbering "
                   'are refused' if weak is None else
                   f'`{unparse(g.ast.test)[:70]}` compares the tables '
                   f'through `{weak}`: files that name the same clusters / '
                   'genes under different numbers are merged row for row')


def _elem_source(t):
    """the collection a key is an element of, wrappers that keep the
    elements as they are (set / list / sorted / keys / zip position)
    stripped; None when the key is computed from the element"""
    def container(c):
        while c and c[0] == 'call' and c[1] in (
                ('name', 'set'), ('name', 'list'), ('name', 'sorted'),
                ('name', 'tuple')) and len(c[2]) == 1:
            c = c[2][0]
        return c
    if not t:
        return None
    if t[0] == 'iterelem':
        return container(t[1])
    if t[0] == 'sub' and t[1][0] == 'iterelem' and t[2][0] == 'const':
        z = t[1][1]
        if z[0] == 'call' and z[1] == ('name', 'zip'):
            try:
                return container(z[2][int(t[2][1])])
            except (ValueError, IndexError):
                return None
    return None


def check_dataset_keys_as_given(ctx):
    """the ABC front end splits the reference by dataset with two tables:
    dataset -> output file and dataset -> member cells.  The second is
    looked up with the keys of the first, and a key that is not found means
    "all cells".  Both therefore have to be keyed by the dataset label as
    it stands in the metadata column (constants aside): a table keyed by a
    cleaned-up label silently computes a dataset's statistics over every
    cell."""
    db = ctx.db
    rule = 'R-SAMEVAL/dataset-label-keys'
    try:
        fm = db.fn('cli.precompute_stats_abc:PrecomputationABCRunner.'
                   'create_dataset_to_output_map')
        fr = db.fn('cli.precompute_stats_abc:PrecomputationABCRunner.run')
    except (KeyError, AnalysisError):
        raise AnalysisError('the ABC precomputation front end was not '
                            'found')
    ctx.touch(fm)
    ctx.touch(fr)

    def key_sources(fi, only=None):
        cfg = cfg_of(fi)
        rd = rd_of(fi)
        ex = Expander(fi)
        out = []
        for n in cfg.nodes:
            st = n.ast
            if n.id in rd.live and isinstance(st, ast.Assign) \
                    and isinstance(st.targets[0], ast.Subscript) \
                    and isinstance(st.targets[0].value, ast.Name) \
                    and (only is None or st.targets[0].value.id in only):
                t = ex.expand(st.targets[0].slice, n.id)
                if t[0] == 'const':
                    continue
                out.append((st, t, _elem_source(t)))
        return out

    # the table that is returned
    returned = set()
    for n in ast.walk(fm.node):
        if isinstance(n, ast.Return) and isinstance(n.value, ast.Name):
            returned.add(n.value.id)
    a = key_sources(fm, returned)
    # the table looked up with the keys of the first: `k in D` where k
    # iterates over the map
    cfg = cfg_of(fr)
    rd = rd_of(fr)
    ex = Expander(fr)
    looked = set()
    for n in cfg.nodes:
        if n.kind != 'if' or n.id not in rd.live:
            continue
        for c in ast.walk(n.ast.test):
            if isinstance(c, ast.Compare) and len(c.ops) == 1 \
                    and isinstance(c.ops[0], (ast.In, ast.NotIn)) \
                    and isinstance(c.comparators[0], ast.Name) \
                    and isinstance(c.left, ast.Name):
                t = ex.expand(c.left, n.id)
                if term_contains(t, lambda x: len(x) == 3 and x[0]
                                 == 'attr' and x[2] == fm.name):
                    looked.add(c.comparators[0].id)
    b = key_sources(fr, looked)
    if not a or not b:
        raise AnalysisError(
            'the dataset -> output and dataset -> cells tables were not '
            f'recognised ({len(a)} / {len(b)} keyed stores)')
    ref = {src for (_s, _t, src) in b if src is not None}
    for k, (st, t, src) in enumerate(a + b):
        fi = fm if k < len(a) else fr
        ok = src is not None and (src in ref)
        ctx.ob(rule, f'{fi.qual}:store#{k}', fi.loc(st), ok,
               'keyed by the dataset label as it stands in the metadata'
               if ok else
               f'`{unparse(st)[:60]}` keys the table by '
               f'{fmt_term(t)[:80]}, not by the dataset label as given: '
               'the lookup of the dataset\'s cells with this key fails and '
               'falls back to all cells')


def check_count_thresholds(ctx):
    """the counting statistics are defined on log2(CPM + 1): `gt0` counts
    the cells above 0 (CPM > 0), `gt1` those above 1 (CPM > 1, strictly)
    and `ge1` those at or above 1, implemented as above 1 - eps with a
    small positive eps.  Each is a column sum (axis 0) of one comparison
    of the data with its threshold; a tolerance added to the strict
    thresholds changes which cells are counted."""
    from ..core import poly as P
    db = ctx.db
    rule = 'R-ARITH/count-thresholds'
    fi = db.fn('utils.stats_utils:summary_stats_for_chunk')
    ctx.touch(fi)
    cfg = cfg_of(fi)
    rd = rd_of(fi)
    ex = Expander(fi)
    want = {"'gt0'": ('exact', 0), "'gt1'": ('exact', 1),
            "'ge1'": ('below', 1)}
    seen = set()
    for n in cfg.nodes:
        st = n.ast
        if not (n.id in rd.live and isinstance(st, ast.Assign)
                and isinstance(st.targets[0], ast.Subscript)):
            continue
        k = ex.expand(st.targets[0].slice, n.id)
        if k[0] != 'const' or k[1] not in want:
            continue
        seen.add(k[1])
        t = ex.expand(st.value, n.id)
        ok = False
        why = fmt_term(t)[:70]
        # (data > T).sum(axis=0)
        if t[0] == 'call' and T.call_name(t) == 'sum' and (
                'axis', ('const', '0')) in t[3]:
            lf = T.lt_form(T.call_receiver(t))
            if lf is not None and lf[0] == 'Lt' and any(
                    x[0] == 'attr' and x[2] == 'data'
                    for x in T.subterms(lf[2])):
                try:
                    thr = P.poly(lf[1])
                except P.NotPolynomial:
                    thr = None
                mode, val = want[k[1]]
                if thr is not None:
                    c0 = thr.get((), 0)
                    others = {m: c for m, c in thr.items() if m != ()}
                    if mode == 'exact':
                        ok = not others and c0 == val
                    else:
                        # 1 - eps, 0 < eps <= 1e-3
                        ok = not others and 0 < (val - c0) <= 1e-3
                    why = f'threshold {P.fmt(thr)}'
        ctx.ob(rule, f'summary_stats_for_chunk:{k[1]}', fi.loc(st), ok,
               f'{k[1]} counts per gene the cells above its threshold'
               if ok else
               f'{k[1]} is {why}: not the column count of cells '
               + ('strictly above %d' % want[k[1]][1]
                  if want[k[1]][0] == 'exact' else
                  'above 1 - eps (at or above 1)'))
    if seen != set(want):
        raise AnalysisError('summary_stats_for_chunk: counting statistics '
                            f'not recognised ({sorted(seen)})')


def check_chunk_row_positions(ctx, rule='R-SPACE/chunk-row-positions'):
    """the rows added to a cluster are selected as
    `chunk[np.where(labels == c)[0], :]`: positions found in the label
    array are used as row numbers of the chunk.  That is right only if
    the label array has one entry per row of the chunk, in order: it is
    built by an *unfiltered* comprehension (or loop) over the chunk's row
    range.  A comprehension with an `if` clause is shorter than the chunk
    whenever the clause rejects a cell, and every later position points
    at another cell's row."""
    db = ctx.db
    fi = db.fn('diff_exp.precompute_from_anndata:_process_chunk')
    ctx.touch(fi)
    cfg = cfg_of(fi)
    rd = rd_of(fi)
    ex = Expander(fi)
    n = 0
    for node in cfg.nodes:
        if node.id not in rd.live or node.ast is None or node.kind not in (
                'stmt',):
            continue
        for c in ast.walk(node.ast):
            if not (isinstance(c, ast.Call) and isinstance(
                    c.func, ast.Attribute) and c.func.attr == 'where'
                    and len(c.args) == 1 and isinstance(
                        c.args[0], ast.Compare)):
                continue
            lab = c.args[0].left
            t = ex.expand(lab, node.id)
            comps = [x for x in T.subterms(t)
                     if isinstance(x, tuple) and x and x[0] == 'comp']
            if not comps:
                continue
            n += 1
            filtered = [x for x in comps if any(g[2] for g in x[3])]
            ranged = [x for x in comps if any(
                T.call_name(g[1]) == 'range' for g in x[3])]
            ok = not filtered and bool(ranged)
            ctx.ob(rule, f'_process_chunk:where#{n - 1}', fi.loc(c), ok,
                   'the labels searched have one entry per row of the '
                   'chunk' if ok else
                   f'`{unparse(c)[:60]}` finds positions in an array built '
                   'by a filtered comprehension (or not over the row '
                   'range): it is shorter than the chunk whenever a cell '
                   'is left out, and the positions found are used as row '
                   'numbers of the chunk')
    if n == 0:
        raise AnalysisError('_process_chunk: the search of the cluster '
                            'labels was not found')


def check_row_per_leaf(ctx, rule='R-COVER/row-per-leaf'):
    """the statistics file has one row per leaf of the taxonomy it is
    accompanied by -- also for a leaf without cells in this file (its row
    is the zero element of the additive merge, and every later stage looks
    clusters up through cluster_to_row).  The list the output rows are
    numbered from is all leaves of the tree: it derives from
    `leaf_to_cells` / `all_leaves` and no comprehension with an `if`
    clause (and no other selection) stands in between."""
    db = ctx.db
    n = 0
    for q in ('diff_exp.precompute_from_anndata:'
              'precompute_summary_stats_from_h5ad_and_tree',
              'diff_exp.precompute_from_anndata:'
              'precompute_summary_stats_from_h5ad_list_and_tree'):
        fi = db.fn(q)
        ctx.touch(fi)
        cfg = cfg_of(fi)
        rd = rd_of(fi)
        ex = Expander(fi)
        for node in cfg.nodes:
            if node.id not in rd.live or node.kind != 'stmt' \
                    or not isinstance(node.ast, ast.Assign):
                continue
            v = node.ast.value
            if not (isinstance(v, ast.DictComp) and len(
                    v.generators) == 1 and isinstance(
                        v.generators[0].iter, ast.Call)
                    and getattr(v.generators[0].iter.func, 'id', None)
                    == 'enumerate'):
                continue
            tgt = node.ast.targets[0]
            if not isinstance(tgt, ast.Name):
                continue
            # the table that is handed on as `cluster_to_output_row=` (the
            # callee's parameter name, not the local's, identifies it)
            handed = any(
                isinstance(c, ast.Call) and any(
                    k.arg and 'output_row' in k.arg and isinstance(
                        k.value, ast.Name) and k.value.id == tgt.id
                    for k in c.keywords)
                for c in ast.walk(fi.node))
            if not handed:
                continue
            n += 1
            src = v.generators[0].iter.args[0]
            t = ex.expand(src, node.id)
            filtered = [x for x in T.subterms(t)
                        if isinstance(x, tuple) and x and x[0] == 'comp'
                        and any(g[2] for g in x[3])]
            from_tree = any(isinstance(x, tuple) and x and x[0] == 'attr'
                            and x[2] in ('leaf_to_cells', 'all_leaves')
                            for x in T.subterms(t))
            sliced = [x for x in T.subterms(t)
                      if isinstance(x, tuple) and x and x[0] == 'sub'
                      and isinstance(x[2], tuple) and x[2]
                      and x[2][0] == 'slice']
            ok = from_tree and not filtered and not sliced \
                and not v.generators[0].ifs
            ctx.ob(rule, f'{fi.name}:{tgt.id}', fi.loc(node.ast), ok,
                   'output rows are numbered from all leaves of the tree'
                   if ok else
                   f'`{tgt.id}` is numbered from {fmt_term(t)[:80]}: '
                   'not every leaf of the taxonomy gets a row, while the '
                   'taxonomy stored with the statistics still lists it')
    if n < 2:
        raise AnalysisError(f'only {n} row-numbering tables found in the '
                            'statistics front ends')


def check_row_extent_is_file_length(ctx, rule='R-PROV/row-extent'):
    """the chunks handed to the workers tile rows [0, N) of each file
    (R-TILE); N has to be the number of rows *of the file*: the symbolic
    value of the extent of the chunking loop is the length of the obs index
    as read from that file, not a count of a selection of it (cells named
    by the taxonomy, cells in cell_set).  With a smaller N the trailing
    rows of the file are never handed to a worker."""
    db = ctx.db
    fi = db.fn('diff_exp.precompute_from_anndata:'
               '_precompute_summary_stats_from_h5ad_and_lookup')
    ctx.touch(fi)
    cfg = cfg_of(fi)
    rd = rd_of(fi)
    ex = Expander(fi)
    n = 0
    for node in cfg.nodes:
        if node.kind != 'for' or node.id not in rd.live:
            continue
        it = node.ast.iter
        if not (isinstance(it, ast.Call) and getattr(
                it.func, 'id', None) == 'range' and len(it.args) == 3):
            continue
        step = ex.expand(it.args[2], node.id)
        if not any(isinstance(x, tuple) and x and x[0] == 'param'
                   and 'rows' in x[1] for x in T.subterms(step)):
            continue
        n += 1
        t = ex.expand(it.args[1], node.id)
        # an extent looked up in a per-file table: judge what the table
        # was filled with
        e_ = it.args[1]
        if isinstance(e_, ast.Name):
            ds = [d for d in rd.reaching(e_.id, node.id)
                  if d.kind == 'assign' and d.value is not None]
            if len(ds) == 1:
                e_ = ds[0].value
        if isinstance(e_, ast.Subscript) and isinstance(e_.value, ast.Name):
            stored = []
            for n2 in cfg.nodes:
                if n2.kind == 'stmt' and n2.id in rd.live and isinstance(
                        n2.ast, ast.Assign) and isinstance(
                            n2.ast.targets[0], ast.Subscript) \
                        and isinstance(n2.ast.targets[0].value, ast.Name) \
                        and n2.ast.targets[0].value.id == e_.value.id:
                    stored.append(ex.expand(n2.ast.value, n2.id))
            if stored:
                t = stored[0] if len(stored) == 1 else (
                    'phi', frozenset(stored))
        subs = list(T.subterms(t))
        reads_obs = any(isinstance(x, tuple) and x and x[0] == 'call'
                        and T.call_name(x) == 'read_df_from_h5ad'
                        for x in subs)
        is_len = any(isinstance(x, tuple) and x and x[0] == 'call'
                     and T.call_name(x) == 'len' for x in subs)
        selects = sorted({T.call_name(x) for x in subs
                          if isinstance(x, tuple) and x and x[0] == 'call'
                          and T.call_name(x) in (
                              'intersection', 'difference', 'isin', 'in1d',
                              'where', 'sum', 'count_nonzero', 'unique',
                              'set', 'min', 'max')})
        filtered = any(isinstance(x, tuple) and x and x[0] == 'comp'
                       and any(g[2] for g in x[3]) for x in subs)
        ok = reads_obs and is_len and not selects and not filtered
        ctx.ob(rule, f'{fi.name}:range#{n - 1}', fi.loc(node.ast), ok,
               'the rows chunked are all rows of the file' if ok else
               f'the extent of the chunking loop is {fmt_term(t)[:90]}, '
               'not the number of rows of the file: rows beyond that '
               'count are never handed to a worker, although labelled '
               'cells can be anywhere in the file')
    if n == 0:
        raise AnalysisError('the chunking loop of the statistics stage was '
                            'not found')


def check_truncation_rows_through_file_table(
        ctx, rule='R-PROV/rows-through-file-table'):
    """a statistics file says where each cluster's row is: its
    `cluster_to_row` table.  When the file is collapsed to a coarser
    taxonomy, the rows that are added up for a new leaf are looked up in
    that table -- on every path the `old_leaf_to_row` handed to
    _convert_to_new_leaves is read from 'cluster_to_row' of the input file,
    never re-created from an ordering of the leaves (files written by a
    previous collapse, or with a caller's row map, are not in name
    order)."""
    from ..rules.roles import _selection_atoms
    fi = ctx.db.fn('diff_exp.truncate_precompute:'
                   'truncate_precomputed_stats_file')
    cfg = cfg_of(fi)
    rd = rd_of(fi)
    ex = Expander(fi)
    n = 0
    for node in cfg.nodes:
        if node.id not in rd.live:
            continue
        for c in cfg.calls_in(node):
            t = resolve_callee(ctx.db, fi, c)
            if not isinstance(t, FunctionInfo):
                continue
            m, _ = bind_args(t, c)
            for pname, a in m.items():
                if a is None or not (pname.endswith('_to_row')
                                     and pname.startswith(('old', 'src',
                                                           'cluster'))):
                    continue
                n += 1
                term = ex.expand(a, node.id)
                ok = True
                why = ''
                for alt in term_alts(term):
                    reads, _p = _selection_atoms(alt)
                    if 'cluster_to_row' not in reads:
                        ok = False
                        why = fmt_term(alt)[:70]
                ctx.touch(fi)
                ctx.ob(rule, f'{fi.qual}:{t.name}.{pname}', fi.loc(c), ok,
                       'rows of the input are found through its own '
                       'cluster_to_row' if ok else
                       f'`{pname}` can be {why}, which is not read from '
                       'the input file\'s cluster_to_row: rows of a file '
                       'whose clusters are not stored in that order are '
                       'added to the wrong node')
    ctx.floor(rule, 1)
    return n


def check_rows_addressed_through_tables(
        ctx, rule='R-PROV/rows-through-row-tables'):
    """in the code that re-arranges the rows of a statistics file, a
    function that is handed leaf -> row tables (`*_to_row` parameters)
    addresses rows only through them: the row index of every subscript of
    the array it reads and of the array it builds is looked up in one of
    the tables.  The position of a leaf in some loop is not its row --
    the caller writes `new_leaf_to_row` out as the file's cluster_to_row,
    so the sums have to sit where that table says."""
    from ..rules.roles import _selection_atoms
    db = ctx.db
    n = 0
    for fi in db.iter_functions():
        if fi.module.short != 'diff_exp.truncate_precompute':
            continue
        tables = {p for p in fi.params if p.endswith('_to_row')}
        if not tables:
            continue
        cfg = cfg_of(fi)
        rd = rd_of(fi)
        ex = Expander(fi)
        arrays = {p for p in fi.params if 'array' in p or p == 'data'}
        for st in ast.walk(fi.node):
            if isinstance(st, ast.Assign) and isinstance(
                    st.targets[0], ast.Name) and isinstance(
                        st.value, ast.Call) and getattr(
                            st.value.func, 'attr', None) in (
                                'zeros', 'empty', 'ones', 'zeros_like',
                                'empty_like', 'full'):
                arrays.add(st.targets[0].id)
        for node in cfg.nodes:
            if node.id not in rd.live or node.ast is None:
                continue
            roots = list(node.exprs)
            if node.kind == 'stmt' and isinstance(
                    node.ast, (ast.Assign, ast.AugAssign)):
                roots += (node.ast.targets if isinstance(
                    node.ast, ast.Assign) else [node.ast.target])
            for root in roots:
                if root is None:
                    continue
                for s_ in ast.walk(root):
                    if not (isinstance(s_, ast.Subscript) and isinstance(
                            s_.value, ast.Name)
                            and s_.value.id in arrays):
                        continue
                    idx = s_.slice
                    if isinstance(idx, ast.Tuple) and idx.elts:
                        idx = idx.elts[0]
                    if isinstance(idx, (ast.Slice, ast.Constant)):
                        continue
                    n += 1
                    _r, params = _selection_atoms(
                        ex.expand(idx, node.id))
                    ok = bool(params & tables)
                    ctx.touch(fi)
                    ctx.ob(rule, f'{fi.qual}:{unparse(s_)[:40]}',
                           fi.loc(s_), ok,
                           'the row is looked up in a row table' if ok else
                           f'`{unparse(s_)[:50]}` addresses a row by '
                           f'`{unparse(idx)[:30]}`, which is not looked up '
                           f'in {sorted(tables)}: the statistics of a node '
                           'end up in a row the file\'s cluster_to_row '
                           'assigns to another node')
    ctx.floor(rule, 4)
    return n
