"""
C15 -- JSON, CSV and HDF5 outputs tell the same story and round-trip.

Decided (DESIGN.md section 5, C15):
 1. R-SCHEMA on record keys: every per-level key read by the dataframe /
    CSV / HDF5 writers is produced by the election, the runner or the
    back-fill; the two confidence-key choices name produced keys.
 2. the HDF5 codec: datasets the reader requires are written; the field
    maps dataset <-> record key of writer and reader are mutually inverse;
    the padding value the writer uses is one the reader stops on (and no
    valid index is); runner-up fields are emitted exactly for directly
    assigned levels.
 3. the three runner-up lists of a record are built under one filter.
 4. the runner-up width read from the config and the n_assignments given
    to the election differ by exactly the constant 1.
 5. CSV: the data rows are written after the comment lines carrying the
    metadata file name, the hierarchy and the version; four decimals; the
    confidence key follows the single-iteration rule.
 (embedded tree / marker table: C01 item 4 and C08 item 1.)
"""
import ast

from ..core.cfg import cfg_of
from ..core.constprop import feasible, UNKNOWN, eval_expr
from ..core.defuse import rd_of, Expander, fmt_term, term_alts
from ..core import terms as T
from ..core.loader import unparse, FunctionInfo, AnalysisError
from ..core.resolve import resolve_callee, bind_args
from ..rules import records as R
from ..rules.effects import PathAnalysis
from ..rules.schema import H5Schema, const_strings

ID = 'C15'

EXPLANATION = (
    "Static analysis. Record keys are extracted from the producers "
    "(dict literal stored per cell and level in run_type_assignment, the "
    "aggregate_probability / directly_assigned stores, the back-fill) and "
    "from the consumers (blob_to_df, blob_to_csv, _blob_to_hdf5_results) "
    "and compared as sets. For the HDF5 codec the extractor recovers, from "
    "the writer, dataset name -> array variable (unrolling the zip of "
    "constant names and arrays) -> record keys whose values are stored in "
    "that array (through symbolic expansion of the stored expression), "
    "and from the reader, record key -> array variables -> dataset names; "
    "the two maps must be mutually inverse, every dataset the reader "
    "requires must be written, the writer's padding constant must satisfy "
    "the reader's stop test while 0 must not, and the reader must emit "
    "runner-up lists under its directly-assigned test. The three "
    "runner-up comprehensions in run_type_assignment must have identical "
    "generator terms; n_assignments must be config n_runners_up + 1; in "
    "blob_to_csv the to_csv call is dominated by header writes whose "
    "terms carry the metadata name, the hierarchy and the package "
    "version, float_format is '%.4f', and constant folding of the "
    "bootstrap_iteration == 1 test yields the documented confidence key. "
    "Formatting beyond that, CSV quoting and float round-trip equality "
    "are not decided.")

EXPLANATION += (
    ' Added after the seeded rounds: the confidence-column rename '
    'spells names as blob_to_df builds them; every cell gets a CSV row '
    '(R-COVER).'
)

EXPLANATION += (
    ' Round 3: name lookups are keyed by (level, label).'
)

EXPLANATION += (
    ' Round 5: no per-level table is built from one shared mutable object (R-IDIOM/shared-mutable).'
)

EXPLANATION += (
    ' Round 6: readable names memoised on the tree object are keyed by level too (R-MEMO/key-complete on attribute-held caches).'
)

EXPLANATION += (
    ' Round 7: the embedded marker table is enumerated from the tree searched (R-PROV/marker-table-follows-tree).'
)

EXPLANATION += (
    ' Round 8: directly_assigned is written only by the front end (True) and the back-fill (False), unconditionally (R-SAMEVAL/flag-per-level).'
)

EXPLANATION += (
    ' Round 9: the keys blob_to_hdf5 requires before writing results are stored by the mapping step and never removed before the writer is called (R-AGREE/hdf5-results-condition); a record key restored from a dataset the writer fills from no record key is reported (R-SCHEMA/hdf5-field-map).'
)

EXPLANATION += (
    ' Round 10: the live configuration is not edited after its copy for the record was taken (R-SAMEVAL/config-as-recorded).'
)

EXPLANATION += (
    ' Round 11: the writers do not edit the records (R-ALIAS/records-read-only); the re-order rule of C01 is shared.'
)

EXPLANATION += (
    ' Round 13: the election keeps exactly the configured number of candidates (rules of C03), which is what the HDF5 writer sizes its arrays from.'
)

EXPLANATION += (
    ' Round 16: to_str serialises every top-level table the class consults (R-AGREE/serialised-tree-complete).'
)

EXPLANATION += (
    ' Round 17: the deserialisers hand the constructor every table the class consults (R-AGREE/serialised-tree-complete).'
)

RULE_TEXT = (
    "one obligation per consumed record key, per dataset, per record key "
    "of the codec, per constant relation; non-trivial when the key / "
    "dataset exists on both sides")

ASSUMPTIONS = [
    "records are dicts keyed by constant strings; dynamic keys are not "
    "tracked (blob_to_df copies every key it finds)",
    "necessary conditions only",
]

PRODUCERS = ['type_assignment.election:run_type_assignment',
             'type_assignment.election_runner:run_type_assignment_on_h5ad',
             'taxonomy.taxonomy_tree:TaxonomyTree.backfill_assignments',
             'type_assignment.election:_run_type_assignment_on_h5ad_worker']
CONSUMERS = ['utils.output_utils:blob_to_df',
             'utils.output_utils:blob_to_csv',
             'utils.output_utils:_blob_to_hdf5_results']


def check(ctx):
    produced = check_record_keys(ctx)
    check_hdf5_codec(ctx, produced)
    check_runner_up_filter(ctx)
    check_width(ctx)
    check_csv(ctx, produced)
    check_hdf5_results_condition(ctx)
    check_config_not_edited(ctx)
    # the three outputs list the cells in the order of the query file: the
    # collated results are re-ordered by the obs index on every path
    # before any writer sees them (rule of C01)
    from .C01 import check_reorder
    check_reorder(ctx)
    # the HDF5 writer sizes its runner-up arrays from the configured
    # number; the records hold at most that many only if the election is
    # handed that number unchanged (rule of C03)
    from .C03 import (check_candidates_forwarded_unchanged,
                      check_runners_up_as_requested)
    check_runners_up_as_requested(ctx)
    check_candidates_forwarded_unchanged(ctx)
    # the writers read the records; they do not edit what the next writer
    # (and the JSON output) will be given (sa/rules/escape.py)
    from ..rules.escape import check_param_records_not_edited
    n_ro = 0
    for fi_ in ctx.db.iter_functions():
        if fi_.module.short == 'utils.output_utils':
            n_ro += check_param_records_not_edited(
                ctx, fi_, ('results_blob', 'output_blob', 'results',
                           'blob'))
    if n_ro < 4:
        raise AnalysisError(f'only {n_ro} record parameters found among '
                            'the output writers')
    from .C10 import check_node_identity
    check_node_identity(ctx, ('utils.output_utils', 'taxonomy.taxonomy_tree'), floor=1)
    check_serialised_tree_carries_every_table(ctx)


# ----------------------------------------------------------------------

def check_record_keys(ctx):
    db = ctx.db
    rule = 'R-SCHEMA/record-keys'
    produced = dict()
    for q in PRODUCERS:
        fi = db.fn(q)
        ctx.touch(fi)
        for k, site in R.level_record_writes(fi).items():
            produced.setdefault(k, (fi, site))
        for k, site in R.cell_record_keys_written(fi).items():
            produced.setdefault(k, (fi, site))
    if len(produced) < 8:
        raise AnalysisError(f'only {len(produced)} produced record keys '
                            'recognised')
    ctx.note('produced record keys: ' + ', '.join(sorted(produced)))
    for q in CONSUMERS:
        fi = db.fn(q)
        ctx.touch(fi)
        reads = R.level_record_reads(fi)
        for k, site in sorted(reads.items()):
            ok = k in produced
            ctx.ob(rule, f'{fi.qual}:{k}', fi.loc(site), ok,
                   f"'{k}' is produced by {produced[k][0].qual}" if ok else
                   f"{fi.name} reads the per-level key '{k}', which no "
                   'producer (election, runner, back-fill) writes: KeyError '
                   'or a silently empty column')
    return produced


# ----------------------------------------------------------------------

def _writer_maps(ctx, fi):
    """dataset -> set(record keys) for _blob_to_hdf5_results"""
    cfg = cfg_of(fi)
    rd = rd_of(fi)
    ex = Expander(fi)
    # array var -> record keys stored into it
    var_keys = dict()
    var_fill = dict()
    for node in cfg.nodes:
        if node.kind != 'stmt' or node.id not in rd.live:
            continue
        s = node.ast
        if isinstance(s, ast.Assign):
            for t in s.targets:
                if isinstance(t, ast.Subscript) and isinstance(
                        t.value, ast.Name):
                    term = ex.expand(s.value, node.id)
                    ks = R.record_keys_in_term(term)
                    if ks:
                        var_keys.setdefault(t.value.id, set()).update(ks)
                elif isinstance(t, ast.Name):
                    # initial fill value: bad_val * np.ones(...)
                    term = ex.expand(s.value, node.id)
                    var_fill.setdefault(t.id, []).append(term)
    # dataset -> var
    ds_var = dict()
    for node in cfg.nodes:
        if node.id not in rd.live:
            continue
        for c in cfg.calls_in(node):
            if not (isinstance(c.func, ast.Attribute)
                    and c.func.attr == 'create_dataset' and c.args):
                continue
            data = None
            for kw in c.keywords:
                if kw.arg == 'data':
                    data = kw.value
            if data is None and len(c.args) > 1:
                data = c.args[1]
            names = const_strings(ex, c.args[0], node.id)
            if names is None or data is None:
                continue
            tdata = ex.expand(data, node.id)
            if len(names) == 1:
                vs = {x.id for x in ast.walk(data)
                      if isinstance(x, ast.Name)}
                ds_var[next(iter(names))] = vs
            else:
                # zip of constant names and variables
                pairs = _zip_pairs(c, data)
                for (nm, v) in pairs:
                    ds_var[nm] = {v}
    ds_keys = dict()
    for ds, vs in ds_var.items():
        ks = set()
        for v in vs:
            ks |= var_keys.get(v, set())
        ds_keys[ds] = ks
    return ds_keys, ds_var, var_fill


def _zip_pairs(call, data_expr):
    """create_dataset(name, data=data) inside
    `for name, data in zip((consts...), (vars...))`"""
    p = getattr(call, '_parent', None)
    while p is not None and not isinstance(p, ast.For):
        p = getattr(p, '_parent', None)
    if p is None or not isinstance(p.iter, ast.Call):
        return []
    it = p.iter
    if not (isinstance(it.func, ast.Name) and it.func.id == 'zip'
            and len(it.args) == 2):
        return []
    a, b = it.args
    if not (isinstance(a, ast.Tuple) and isinstance(b, ast.Tuple)
            and len(a.elts) == len(b.elts)):
        return []
    out = []
    for x, y in zip(a.elts, b.elts):
        if isinstance(x, ast.Constant) and isinstance(y, ast.Name):
            out.append((x.value, y.id))
    return out


def _reader_maps(ctx, fi):
    """record key -> set(datasets) for hdf5_to_blob"""
    cfg = cfg_of(fi)
    rd = rd_of(fi)
    ex = Expander(fi)
    handle = None
    for n in ast.walk(fi.node):
        if isinstance(n, ast.With):
            for it in n.items:
                if isinstance(it.context_expr, ast.Call) and unparse(
                        it.context_expr.func) == 'h5py.File' \
                        and isinstance(it.optional_vars, ast.Name):
                    handle = it.optional_vars.id
    if handle is None:
        raise AnalysisError('hdf5_to_blob: file handle not found')

    def datasets_of(term):
        out = set()
        for x in R.subterms_no_counters(term):
            if x[0] == 'sub' and x[2][0] == 'const' and x[2][1].startswith(
                    "'") and x[1][0] == 'ctx':
                out.add(x[2][1].strip("'"))
        return out
    key_ds = dict()
    key_sites = dict()

    def record(k, value, nid, site):
        term = ex.expand(value, nid)
        key_ds.setdefault(k, set()).update(datasets_of(term))
        key_sites.setdefault(k, site)
    for node in cfg.nodes:
        if node.id not in rd.live:
            continue
        s = node.ast
        if node.kind == 'stmt' and isinstance(s, ast.Assign):
            # this = {'k': expr, ...}
            if isinstance(s.value, ast.Dict):
                for k, v in zip(s.value.keys, s.value.values):
                    if isinstance(k, ast.Constant) and isinstance(
                            k.value, str):
                        record(k.value, v, node.id, s)
            for t in s.targets:
                if isinstance(t, ast.Subscript) and isinstance(
                        t.slice, ast.Constant) and isinstance(
                            t.slice.value, str) and isinstance(
                                t.value, ast.Name):
                    record(t.slice.value, s.value, node.id, s)
        for c in cfg.calls_in(node):
            f = c.func
            # this['k'].append(expr)
            if isinstance(f, ast.Attribute) and f.attr == 'append' \
                    and isinstance(f.value, ast.Subscript) and isinstance(
                        f.value.slice, ast.Constant) and c.args:
                record(f.value.slice.value, c.args[0], node.id, c)
            # this.update({...})
            if isinstance(f, ast.Attribute) and f.attr == 'update' \
                    and c.args and isinstance(c.args[0], ast.Dict):
                for k, v in zip(c.args[0].keys, c.args[0].values):
                    if isinstance(k, ast.Constant):
                        record(k.value, v, node.id, c)
    return key_ds, key_sites


def check_hdf5_codec(ctx, produced):
    db = ctx.db
    wr = db.fn('utils.output_utils:_blob_to_hdf5_results')
    outer = db.fn('utils.output_utils:blob_to_hdf5')
    rdr = db.fn('utils.output_utils:hdf5_to_blob')
    ctx.touch(wr)
    ctx.touch(rdr)
    pa = PathAnalysis(db, ctx.cg)
    sc = H5Schema(db, ctx.cg, pa)
    # (a) required reads are written
    rule = 'R-SCHEMA/hdf5-datasets'
    written = sc.written(outer, 'dst_path')
    reads = sc.all_reads(rdr, 'src_path')
    if len(written) < 8 or len(reads) < 8:
        raise AnalysisError('HDF5 result codec: datasets not recognised '
                            f'(written={len(written)}, read={len(reads)})')
    for k, acc in sorted(reads.items()):
        if '*' in k:
            continue
        ok = k in written
        ctx.ob(rule, f'hdf5_to_blob:{k}', acc.where(), ok,
               f"dataset '{k}' is written by blob_to_hdf5" if ok else
               f"hdf5_to_blob reads dataset '{k}', which blob_to_hdf5 "
               'never writes')
    # (b) field maps mutually inverse
    rule = 'R-SCHEMA/hdf5-field-map'
    ds_keys, ds_var, var_fill = _writer_maps(ctx, wr)
    key_ds, key_sites = _reader_maps(ctx, rdr)
    neutral = {d for d, ks in ds_keys.items() if not ks}
    neutral |= {'metadata'}
    n = 0
    for k in sorted(key_ds):
        if k in ('cell_id',):
            continue
        want = {d for d, ks in ds_keys.items() if k in ks}
        got = key_ds[k] - neutral
        if not want and not got and not key_ds[k]:
            continue
        n += 1
        # a key restored only from datasets the writer fills from no
        # record key at all (recomputed, constant) is not reproduced
        # either: want is empty, got is what the reader uses
        if not want and not got:
            got = set(key_ds[k]) - {'metadata', 'cell_id'}
        ok = (want == got)
        ctx.ob(rule, f'hdf5_to_blob:{k}', rdr.loc(key_sites[k]), ok,
               f"record key '{k}' is restored from {sorted(got)}, the "
               'dataset(s) it was written to' if ok else
               f"record key '{k}' is written to {sorted(want)} but "
               f'restored from {sorted(got)}: the HDF5 output does not '
               'reproduce the JSON output')
    for d, ks in sorted(ds_keys.items()):
        for k in sorted(ks):
            if k not in key_ds:
                ctx.fail(rule, f'_blob_to_hdf5_results:{d}:{k}', wr.loc(),
                         f"record key '{k}' is written to dataset '{d}' "
                         'but never restored by hdf5_to_blob')
    if n < 7:
        raise AnalysisError(f'HDF5 field map: only {n} keys related')
    # (c) padding value vs stop test
    rule = 'R-CONST/hdf5-padding'
    pad = None
    for v, terms_ in var_fill.items():
        if v not in {x for vs in ds_var.values() for x in vs}:
            continue
        for t in terms_:
            for alt in term_alts(t):
                if alt[0] == 'binop' and alt[1] == 'Mult' and any(
                        T.call_name(x) == 'ones' for x in alt[2:]):
                    c = [x for x in alt[2:] if T.call_name(x) != 'ones'][0]
                    pad = (v, _const_value(c))
                if T.call_name(alt) == 'full' and len(alt[2]) >= 2:
                    pad = (v, _const_value(alt[2][1]))
    stop = _reader_stop_test(rdr)
    if pad is None or pad[1] is None or stop is None:
        ctx.fail(rule, 'runner-up-padding', wr.loc(),
                 'padding constant of the runner-up array or the stop test '
                 f'of the reader not recognised (pad={pad}, stop={stop})')
    else:
        (op, const, site) = stop
        v = pad[1]
        stops_on_pad = _cmp(v, op, const)
        stops_on_valid = _cmp(0, op, const)
        ok = stops_on_pad and not stops_on_valid
        ctx.ob(rule, 'runner-up-padding', rdr.loc(site), ok,
               f'padding {v} satisfies the stop test `x {op} {const}` and '
               'index 0 does not' if ok else
               f'the writer pads runner-up arrays with {v} but the reader '
               f'stops on `x {op} {const}`'
               + (' which index 0 also satisfies' if stops_on_valid else
                  ' which the padding does not satisfy'))
    # (d) runner-up lists only where directly assigned
    rule = 'R-GUARD/hdf5-runner-up-where-direct'
    cfg = cfg_of(rdr)
    rd_ = rd_of(rdr)
    guards = []
    for node in cfg.nodes:
        if node.kind == 'if' and node.id in rd_.live:
            t = node.ast.test
            # a test of the value read from the 'directly_assigned'
            # dataset (recognised by the dataset key it derives from)
            if isinstance(t, ast.Subscript) and isinstance(
                    t.value, ast.Name):
                from ..core.slicing import backward_slice
                if 'directly_assigned' in backward_slice(
                        rdr, t, node.id).consts:
                    guards.append(node)
    ok = False
    for g in guards:
        for (t_, lab) in cfg.succ[g.id]:
            if lab == 'true':
                for node in cfg.nodes:
                    if node.id in rd_.live and (
                            t_ == node.id or cfg.dominates(t_, node.id)):
                        for c in cfg.calls_in(node):
                            if isinstance(c.func, ast.Attribute) \
                                    and c.func.attr == 'update' \
                                    and 'runner_up' in unparse(c):
                                ok = True
    unguarded = False
    for node in cfg.nodes:
        if node.id not in rd_.live:
            continue
        txt = node.text()
        stores_ru = False
        for c in cfg.calls_in(node):
            if isinstance(c.func, ast.Attribute) and c.func.attr in (
                    'update', 'append', 'setdefault') \
                    and "'runner_up" in unparse(c):
                stores_ru = True
        if node.kind == 'stmt' and isinstance(node.ast, ast.Assign):
            for tg in node.ast.targets:
                if isinstance(tg, ast.Subscript) and isinstance(
                        tg.slice, ast.Constant) and str(
                            tg.slice.value).startswith('runner_up'):
                    stores_ru = True
            if isinstance(node.ast.value, ast.Dict) and any(
                    isinstance(k, ast.Constant) and str(
                        k.value).startswith('runner_up')
                    for k in node.ast.value.keys):
                stores_ru = True
        if stores_ru:
            dom = any(
                any(lab == 'true' and (t_ == node.id
                                       or cfg.dominates(t_, node.id))
                    for (t_, lab) in cfg.succ[g.id]) for g in guards)
            if not dom:
                unguarded = True
    ctx.ob(rule, 'hdf5_to_blob:runner_up', rdr.loc(), ok and not unguarded,
           'runner-up lists are created under the directly-assigned test'
           if ok and not unguarded else
           'hdf5_to_blob creates runner-up fields outside the '
           'directly-assigned test (inferred levels would gain them)')


def _const_value(t):
    if t[0] == 'const':
        try:
            return ast.literal_eval(t[1])
        except Exception:
            return None
    if t[0] == 'unop' and t[1] == 'USub' and t[2][0] == 'const':
        try:
            return -ast.literal_eval(t[2][1])
        except Exception:
            return None
    return None


def _cmp(v, op, c):
    return {'<': v < c, '<=': v <= c, '==': v == c, '>': v > c,
            '>=': v >= c, '!=': v != c}[op]


def _reader_stop_test(fi):
    """(op, const, site) of `if r_assignment[...] < 0: break`"""
    ops = {ast.Lt: '<', ast.LtE: '<=', ast.Eq: '==', ast.Gt: '>',
           ast.GtE: '>=', ast.NotEq: '!='}
    for n in ast.walk(fi.node):
        if isinstance(n, ast.If) and any(isinstance(x, ast.Break)
                                         for x in n.body):
            t = n.test
            if isinstance(t, ast.Compare) and len(t.ops) == 1 \
                    and isinstance(t.left, ast.Subscript):
                c = t.comparators[0]
                v = None
                if isinstance(c, ast.Constant):
                    v = c.value
                elif isinstance(c, ast.UnaryOp) and isinstance(
                        c.op, ast.USub) and isinstance(c.operand,
                                                       ast.Constant):
                    v = -c.operand.value
                if v is not None:
                    return (ops[type(t.ops[0])], v, n)
    return None


# ----------------------------------------------------------------------

def check_runner_up_filter(ctx):
    db = ctx.db
    fi = db.fn('type_assignment.election:run_type_assignment')
    cfg = cfg_of(fi)
    rd = rd_of(fi)
    ex = Expander(fi)
    rule = 'R-SAMEVAL/runner-up-filter'
    found = False
    for node in cfg.nodes:
        if node.kind != 'stmt' or node.id not in rd.live:
            continue
        s = node.ast
        if isinstance(s, ast.Assign) and isinstance(s.value, ast.Dict):
            items = {k.value: v for k, v in zip(s.value.keys,
                                                s.value.values)
                     if isinstance(k, ast.Constant)}
            ru = {k: v for k, v in items.items()
                  if str(k).startswith('runner_up')}
            if len(ru) < 2:
                continue
            found = True
            gens = dict()
            for k, v in ru.items():
                t = ex.expand(v, node.id)
                gsets = set()
                for alt in term_alts(t):
                    if alt[0] == 'comp':
                        gsets.add(alt[3])
                    elif alt[0] == 'list' and not alt[1]:
                        gsets.add('empty')
                    else:
                        gsets.add(('other', alt))
                gens[k] = frozenset(gsets)
            vals = list(gens.values())
            ok = all(v == vals[0] for v in vals) and len(ru) == 3
            ctx.ob(rule, 'run_type_assignment:runner_up_lists',
                   fi.loc(s), ok,
                   'the three runner-up lists iterate the same source '
                   'under the same filter (equal length by construction)'
                   if ok else
                   'the runner-up lists of a record are built with '
                   'different sources / filters; their lengths can differ '
                   'and the HDF5 writer indexes them with one counter')
    if not found:
        ctx.fail(rule, 'run_type_assignment:runner_up_lists', fi.loc(),
                 'record literal with runner_up_* lists not found')


def check_width(ctx):
    db = ctx.db
    fi = db.fn('cli.from_specified_markers:_run_mapping')
    cfg = cfg_of(fi)
    rd = rd_of(fi)
    ex = Expander(fi)
    rule = 'R-CONST/runner-up-width'
    tgt = db.fn('type_assignment.election_runner:'
                'run_type_assignment_on_h5ad')
    found = False
    for node in cfg.nodes:
        if node.id not in rd.live:
            continue
        for c in cfg.calls_in(node):
            if resolve_callee(db, fi, c) is not tgt:
                continue
            found = True
            mapping, _ = bind_args(tgt, c)
            a = mapping.get('n_assignments')
            t = ex.expand(a, node.id) if a is not None else None
            ok = False
            if t is not None and t[0] == 'binop' and t[1] == 'Add':
                parts = t[2:]
                one = [p for p in parts if p == ('const', '1')]
                cfgk = [p for p in parts if any(
                    x == ('const', "'n_runners_up'")
                    for x in T.subterms(p))]
                ok = len(one) == 1 and len(cfgk) == 1
            ctx.ob(rule, '_run_mapping:n_assignments', fi.loc(c), ok,
                   'n_assignments = config n_runners_up + 1 (winner plus '
                   'runners-up)' if ok else
                   f'n_assignments is {fmt_term(t)[:100]}: the HDF5 writer '
                   'sizes its runner-up arrays with config n_runners_up, '
                   'so the two must differ by exactly 1')
    if not found:
        ctx.fail(rule, '_run_mapping:n_assignments', fi.loc(),
                 'call of run_type_assignment_on_h5ad not found')
    # the writer sizes with that very config key
    wr = db.fn('utils.output_utils:_blob_to_hdf5_results')
    ok = any(isinstance(n, ast.Constant) and n.value == 'n_runners_up'
             for n in ast.walk(wr.node))
    ctx.ob(rule, '_blob_to_hdf5_results:n_runners_up', wr.loc(), ok,
           'runner-up arrays are sized with config n_runners_up' if ok else
           'the HDF5 writer no longer sizes its runner-up arrays with '
           'config n_runners_up')
    # and the election lists n_assignments-1 runners-up: range(1, n, 1)
    cn = db.fn('type_assignment.election:choose_node')
    ex2 = Expander(cn)
    cfg2 = cfg_of(cn)
    ok = False
    for n in ast.walk(cn.node):
        if isinstance(n, ast.comprehension) and isinstance(
                n.iter, ast.Call) and isinstance(n.iter.func, ast.Name) \
                and n.iter.func.id == 'range' and len(n.iter.args) >= 2:
            a0, a1 = n.iter.args[0], n.iter.args[1]
            if isinstance(a0, ast.Constant) and a0.value == 1 \
                    and isinstance(a1, ast.Name) \
                    and a1.id == 'n_assignments':
                ok = True
    ctx.ob(rule, 'choose_node:runner-up-range', cn.loc(), ok,
           'runners-up are columns 1 .. n_assignments-1 of the ranking'
           if ok else
           'choose_node does not list runners-up as range(1, '
           'n_assignments)')


# ----------------------------------------------------------------------

def check_csv(ctx, produced):
    db = ctx.db
    fi = db.fn('utils.output_utils:blob_to_csv')
    ctx.touch(fi)
    cfg = cfg_of(fi)
    rd = rd_of(fi)
    ex = Expander(fi)
    rule = 'R-MUST/csv-header'
    to_csv = []
    writes = []
    for node in cfg.nodes:
        if node.id not in rd.live:
            continue
        for c in cfg.calls_in(node):
            if isinstance(c.func, ast.Attribute):
                if c.func.attr == 'to_csv':
                    to_csv.append((node, c))
                elif c.func.attr == 'write' and c.args:
                    writes.append((node, c, ex.expand(c.args[0], node.id)))
    if len(to_csv) != 1:
        ctx.fail(rule, 'blob_to_csv:to_csv', fi.loc(),
                 f'expected one to_csv call, found {len(to_csv)}')
        return
    tnode, tcall = to_csv[0]

    def header_has(pred, unconditional=True):
        for (n, c, t) in writes:
            if pred(t):
                if cfg.dominates(n.id, tnode.id):
                    return 'dominates'
                if n.id in cfg.reachable(cfg.entry) and tnode.id in \
                        cfg.reachable(n.id):
                    return 'before'
        return None
    h = header_has(lambda t: any(x[0] == 'attr' and x[2] == 'hierarchy'
                                 for x in T.subterms(t)))
    ctx.ob(rule, 'blob_to_csv:hierarchy-line', fi.loc(tcall),
           h == 'dominates',
           'a comment line with the hierarchy precedes the rows'
           if h == 'dominates' else
           'no header line carrying taxonomy_tree.hierarchy dominates the '
           'to_csv call')
    v = header_has(lambda t: any(x[0] == 'attr' and x[2] == '__version__'
                                 for x in T.subterms(t)))
    ctx.ob(rule, 'blob_to_csv:version-line', fi.loc(tcall),
           v == 'dominates',
           'a comment line with the software version precedes the rows'
           if v == 'dominates' else
           'no header line carrying the package version dominates the '
           'to_csv call')
    m = header_has(lambda t: any(x == ('param', 'metadata_path')
                                 for x in T.subterms(t)))
    ctx.ob(rule, 'blob_to_csv:metadata-line', fi.loc(tcall),
           m in ('dominates', 'before'),
           'the metadata file name is written before the rows (when given)'
           if m else 'no header line names the metadata file')
    # header lines are comments
    for (n, c, t) in writes:
        starts = None
        for x in T.subterms(t):
            if x[0] == 'const' and x[1].startswith(("'#", '"#')):
                starts = True
        first = t
        ok = _starts_with_hash(t)
        ctx.ob(rule + '/comment', f'blob_to_csv:{unparse(c)[:40]}',
               fi.loc(c), ok,
               'header line starts with #' if ok else
               f'`{unparse(c)[:60]}` writes a line that does not start '
               'with the comment character before the CSV rows')
    # four decimals
    ff = None
    for kw in tcall.keywords:
        if kw.arg == 'float_format' and isinstance(kw.value, ast.Constant):
            ff = kw.value.value
    ctx.ob('R-CONST/csv-format', 'blob_to_csv:float_format', fi.loc(tcall),
           ff == '%.4f',
           'confidence values are written to four decimals' if ff == '%.4f'
           else f'float_format is {ff!r}, not four decimals')
    idx = None
    for kw in tcall.keywords:
        if kw.arg == 'index' and isinstance(kw.value, ast.Constant):
            idx = kw.value.value
    ctx.ob('R-CONST/csv-format', 'blob_to_csv:index', fi.loc(tcall),
           idx is False, 'no spurious index column' if idx is False else
           'to_csv writes the dataframe index as an extra column')
    # the rows are the dataframe of the records given
    bd = db.fn('utils.output_utils:blob_to_df')
    tr = ex.expand(tcall.func.value, tnode.id)
    calls = T.calls(tr, 'blob_to_df')
    ok = any(T.contains(c, ('param', 'results_blob')) for c in calls)
    ctx.ob('R-PROV/csv-rows', 'blob_to_csv:rows', fi.loc(tcall), ok,
           'the rows are blob_to_df(results_blob)' if ok else
           'the CSV rows do not derive from blob_to_df(results_blob): '
           + fmt_term(tr)[:100])
    # blob_to_df keeps the order of the blob and labels rows by cell_id
    cfg3 = cfg_of(bd)
    rd3 = rd_of(bd)
    ex3 = Expander(bd)
    ok_order = False
    for n in cfg3.nodes:
        if n.kind == 'for' and n.id in rd3.live:
            t = ex3.expand(n.ast.iter, n.id)
            if t == ('param', 'results_blob'):
                ok_order = True
    ctx.ob('R-PROV/csv-rows', 'blob_to_df:order', bd.loc(), ok_order,
           'one dataframe row per record, in the order of the blob'
           if ok_order else
           'blob_to_df does not iterate results_blob in order')
    check_column_names(ctx, fi, bd)
    check_every_cell_has_row(ctx, bd)
    check_csv_tree_version(ctx)
    check_marker_table_follows_tree(ctx)
    check_flag_is_per_level(ctx)
    from ..rules.idioms import check_shared_mutable
    n_sm = 0
    for fi_ in ctx.db.iter_functions():
        if fi_.module.short in ('utils.output_utils',
                                'type_assignment.election'):
            n_sm += check_shared_mutable(ctx, fi_)
    ctx.ok('R-IDIOM/shared-mutable', 'writers', 'package',
           'no per-level table of the output writers is built from one '
           'shared mutable object', nontrivial=False)
    # confidence key choice in _run_mapping
    rm = db.fn('cli.from_specified_markers:_run_mapping')
    cfgm = cfg_of(rm)
    rdm = rd_of(rm)
    csv_calls = []
    for node in cfgm.nodes:
        if node.id not in rdm.live:
            continue
        for c in cfgm.calls_in(node):
            if resolve_callee(db, rm, c) is fi:
                csv_calls.append((node, c))
    rule = 'R-CONST/confidence-key'
    for (node, c) in csv_calls:
        mapping, _ = bind_args(fi, c)
        for single, want in ((True, 'avg_correlation'),
                             (False, 'bootstrapping_probability')):
            def assume(e, env, _s=single):
                if isinstance(e, ast.Compare) and len(e.ops) == 1 \
                        and isinstance(e.ops[0], ast.Eq) \
                        and 'bootstrap_iteration' in unparse(e.left) \
                        and isinstance(e.comparators[0], ast.Constant) \
                        and e.comparators[0].value == 1:
                    return _s
                return UNKNOWN
            feas = feasible(rm, assume, follow_exc=False)
            env = feas.envs.get(node.id, {})
            a = mapping.get('confidence_key')
            got = eval_expr(a, env) if a is not None else UNKNOWN
            ok = (got == want) and want in produced
            ctx.ob(rule, f'_run_mapping:single_iteration={single}',
                   rm.loc(c), ok,
                   f"confidence column is '{want}'" if ok else
                   f'with bootstrap_iteration {"== 1" if single else "> 1"}'
                   f' the CSV confidence column is taken from '
                   f'{got if got is not UNKNOWN else "an unknown key"!r}, '
                   f"not '{want}'")
    if not csv_calls:
        ctx.fail(rule, '_run_mapping:blob_to_csv', rm.loc(),
                 'blob_to_csv is not called from _run_mapping')


def _starts_with_hash(t):
    """does the string term start with '#'?"""
    if t[0] == 'const':
        return t[1].strip('"\'').startswith('#') or t[1][1:2] == '#'
    if t[0] == 'fstr' and t[1]:
        return _starts_with_hash(t[1][0])
    if t[0] == 'aug' and t[1] == 'Add':
        return _starts_with_hash(t[2])
    if t[0] == 'binop' and t[1] == 'Add':
        return _starts_with_hash(t[2])
    if t[0] == 'phi':
        return all(_starts_with_hash(a) for a in t[1])
    return False


def _string_parts(fi, expr, at, depth=0):
    """flatten a string-building expression -- f-strings, `+`, str(), and
    locals with a single definition -- into a list of ('lit', text) and
    ('val', expression, node id where it is evaluated); None if the
    expression is not of that shape"""
    rd = rd_of(fi)
    e = expr
    if depth > 6:
        return None
    if isinstance(e, ast.Constant) and isinstance(e.value, str):
        return [('lit', e.value)]
    if isinstance(e, ast.JoinedStr):
        out = []
        for p in e.values:
            if isinstance(p, ast.Constant):
                out.append(('lit', str(p.value)))
            else:
                sub = _string_parts(fi, p.value, at, depth + 1)
                # an interpolated local that is itself a built string is
                # flattened; anything else is a value
                if sub is not None and isinstance(p.value, ast.Name) \
                        and any(k == 'lit' for (k, *_r) in sub):
                    out += sub
                else:
                    out.append(('val', p.value, at))
        return out
    if isinstance(e, ast.BinOp) and isinstance(e.op, ast.Add):
        l = _string_parts(fi, e.left, at, depth + 1)
        r = _string_parts(fi, e.right, at, depth + 1)
        if l is None and r is None:
            return None
        return (l if l is not None else [('val', e.left, at)]) + (
            r if r is not None else [('val', e.right, at)])
    if isinstance(e, ast.Call) and isinstance(e.func, ast.Name) \
            and e.func.id == 'str' and len(e.args) == 1:
        return [('val', e.args[0], at)]
    if isinstance(e, ast.Name):
        ds = [d for d in rd.reaching(e.id, at)]
        if len(ds) == 1 and getattr(ds[0], 'value', None) is not None \
                and ds[0].kind == 'assign' and not ds[0].path:
            return _string_parts(fi, ds[0].value, ds[0].node, depth + 1)
    return None


def _fstring_parts(fi, expr, at):
    """the interpolated values of a built string, as (expression, node)"""
    parts = _string_parts(fi, expr, at)
    if parts is None or not any(k == 'lit' for (k, *_r) in parts):
        return None
    return [(p[1], p[2]) for p in parts if p[0] == 'val']


def check_column_names(ctx, csv_fn, df_fn):
    """the CSV header is built in two places: blob_to_df names the columns
    `<level name>_<field>` and blob_to_csv renames the confidence column by
    spelling that name again.  Both must build the level part in the same
    way (level_to_name of the level) and the old name must end in the key
    of the record field (confidence_key), the new one in the label."""
    rule = 'R-SAMEVAL/csv-column-names'
    # columns produced
    cfg = cfg_of(df_fn)
    rd = rd_of(df_fn)
    ex = Expander(df_fn)
    n_cols = 0
    for node in cfg.nodes:
        if node.kind != 'stmt' or node.id not in rd.live or not isinstance(
                node.ast, ast.Assign):
            continue
        tg = node.ast.targets[0]
        if not isinstance(tg, ast.Subscript):
            continue
        parts = _fstring_parts(df_fn, tg.slice, node.id)
        if not parts:
            continue
        n_cols += 1
        t = ex.expand(parts[0][0], parts[0][1])
        ok = T.call_name(t) == 'level_to_name'
        ctx.ob(rule, f'blob_to_df:{_lit(tg.slice, df_fn, node.id)}',
               df_fn.loc(node.ast), ok,
               'column named after the readable level name' if ok else
               f'column name starts with {fmt_term(t)[:60]}, not with '
               'level_to_name(level): the columns of one level get '
               'different prefixes')
    if n_cols < 3:
        raise AnalysisError('blob_to_df: only {n_cols} column names found')
    # the rename
    cfg = cfg_of(csv_fn)
    rd = rd_of(csv_fn)
    ex = Expander(csv_fn)
    mapper = None
    for n in ast.walk(csv_fn.node):
        if isinstance(n, ast.Call) and isinstance(n.func, ast.Attribute) \
                and n.func.attr == 'rename':
            for kw in n.keywords:
                if kw.arg in ('mapper', 'columns') and isinstance(
                        kw.value, ast.Name):
                    mapper = kw.value.id
            if mapper is None and n.args and isinstance(
                    n.args[0], ast.Name):
                mapper = n.args[0].id
    found = False
    for node in cfg.nodes:
        if node.kind != 'stmt' or node.id not in rd.live or not isinstance(
                node.ast, ast.Assign):
            continue
        tg = node.ast.targets[0]
        if not (isinstance(tg, ast.Subscript) and isinstance(
                tg.value, ast.Name) and tg.value.id == mapper):
            continue
        found = True
        for what, expr, suffix in (('old', tg.slice, 'confidence_key'),
                                   ('new', node.ast.value,
                                    'confidence_label')):
            parts = _fstring_parts(csv_fn, expr, node.id)
            ok = False
            detail = 'is not a string built as `<level name>_<key>`'
            if parts and len(parts) == 2:
                t0 = ex.expand(parts[0][0], parts[0][1])
                t1 = ex.expand(parts[1][0], parts[1][1])
                ok = T.call_name(t0) == 'level_to_name' \
                    and t1 == ('param', suffix)
                detail = (f'is built from {fmt_term(t0)[:50]} and '
                          f'{fmt_term(t1)[:40]}')
            ctx.ob(rule, f'blob_to_csv:rename:{what}', csv_fn.loc(node.ast),
                   ok,
                   f'the {what} column name is <level_to_name(level)>_'
                   f'<{suffix}>, the way blob_to_df spells it' if ok else
                   f'the {what} name of the renamed confidence column '
                   f'{detail}; blob_to_df names the column '
                   f'<level_to_name(level)>_<field>, so the rename misses '
                   'it (and the filter that follows drops the column) '
                   'whenever the two spellings differ')
    if not found:
        ctx.fail(rule, 'blob_to_csv:rename', csv_fn.loc(),
                 'the renaming of the confidence column was not found')


def _lit(expr, fi, at):
    parts = _string_parts(fi, expr, at)
    if parts is None:
        return type(expr).__name__
    return ''.join(p[1] if p[0] == 'lit' else '{}' for p in parts)


def check_every_cell_has_row(ctx, df_fn):
    """blob_to_df appends one record per cell of the blob on every path"""
    from ..rules import coverage as CV
    rule = 'R-COVER/csv-row-per-cell'
    cfg = cfg_of(df_fn)
    loop = None
    for n in ast.walk(df_fn.node):
        if isinstance(n, ast.For):
            t = Expander(df_fn).expand(
                n.iter, [x for x in cfg.nodes_of(n) if x.kind == 'for'][0].id)
            if t == ('param', 'results_blob'):
                loop = n
    if loop is None:
        ctx.fail(rule, 'blob_to_df', df_fn.loc(),
                 'no loop over results_blob found')
        return

    def act(node):
        for c in cfg.calls_in(node):
            if isinstance(c.func, ast.Attribute) and c.func.attr == 'append' \
                    and CV.innermost_loop(c) is loop:
                return True
        return False
    CV.check_cover(ctx, df_fn, rule, 'blob_to_df:rows', loop, act,
                   what='cell', consequence='that cell has a JSON record '
                   'but no CSV row')


def check_csv_tree_version(ctx):
    """the records handed to the CSV writer carry every level of the stored
    taxonomy (levels dropped for the run are back-filled), so the writer
    must be given the stored tree -- the same one that is embedded in the
    JSON / HDF5 output -- not the tree as reduced by drop_level / flatten:
    with the reduced tree the header and the per-level columns of the
    back-filled levels are missing from the CSV only."""
    from .C01 import tree_version_facts, reduced
    fi, cfg, rd, ex, facts = tree_version_facts(ctx)
    rule = 'R-PROV/csv-tree-version'
    got = facts.get(('arg', 'utils.output_utils:blob_to_csv'), [])
    if not got:
        ctx.fail(rule, '_run_mapping:blob_to_csv', fi.loc(),
                 'blob_to_csv is not given a taxonomy_tree in _run_mapping')
        return
    for k, (c, t) in enumerate(got):
        stored = (T.has_call(t, 'from_str')
                  or T.has_call(t, 'from_precomputed_stats'))
        ok = stored and not reduced(t)
        ctx.ob(rule, f'_run_mapping:blob_to_csv#{k}', fi.loc(c), ok,
               'the CSV is written with the stored taxonomy' if ok else
               'the CSV is written with a tree that '
               + ('was reduced by drop_level / flatten' if reduced(t)
                  else 'is not the stored taxonomy')
               + f' ({fmt_term(t)[:100]}): levels that were back-filled '
               'into the records do not appear in the CSV')


def check_marker_table_follows_tree(ctx):
    """the marker table embedded in the output lists what was used: one
    entry per parent of the tree the run searched (and the root).  It is
    assembled from the marker cache, which may hold groups for parents the
    run never searched (a level dropped for the run keeps its groups in the
    cache): the parents listed therefore have to be enumerated from the
    tree handed in, not from what the cache happens to contain."""
    from ..core.defuse import Expander
    from ..core import terms as T
    db = ctx.db
    rule = 'R-PROV/marker-table-follows-tree'
    fi = db.fn('type_assignment.marker_cache_v2:serialize_markers')
    ctx.touch(fi)
    cfg = cfg_of(fi)
    rd = rd_of(fi)
    ex = Expander(fi)
    rets = [n for n in cfg.nodes if n.kind == 'return' and n.id in rd.live
            and isinstance(n.ast.value, ast.Name)]
    if not rets:
        raise AnalysisError('serialize_markers: returned table not found')
    table = rets[0].ast.value.id
    k = 0
    for n in cfg.nodes:
        st = n.ast
        if not (n.id in rd.live and isinstance(st, ast.Assign)
                and isinstance(st.targets[0], ast.Subscript)
                and isinstance(st.targets[0].value, ast.Name)
                and st.targets[0].value.id == table):
            continue
        key = ex.expand(st.targets[0].slice, n.id)
        ok = True
        why = ''
        for alt in term_alts(key):
            if alt[0] == 'const':
                continue
            from_tree = any(
                x[0] == 'iterelem' and any(
                    y == ('param', 'taxonomy_tree')
                    for y in T.subterms(x[1]))
                for x in T.subterms(alt))
            from_cache = any(
                x[0] == 'iterelem' and any(
                    T.call_name(y) in ('File', 'loads')
                    for y in T.subterms(x[1]) if y[0] == 'call')
                and not any(y == ('param', 'taxonomy_tree')
                            for y in T.subterms(x[1]))
                for x in T.subterms(alt))
            if from_cache or not from_tree:
                ok = False
                why = fmt_term(alt)[:70]
        ctx.ob(rule, f'serialize_markers:entry#{k}', fi.loc(st), ok,
               'entries are listed for the parents of the tree (and the '
               'root)' if ok else
               f'an entry of the embedded marker table is keyed by {why}: '
               'not enumerated from the tree the run searched, so parents '
               'the run never visited (a dropped level) are listed with '
               'markers')
        k += 1
    if k == 0:
        raise AnalysisError('serialize_markers: no entry of the table is '
                            'stored')


FLAG_WRITERS = {
    'type_assignment.election_runner:run_type_assignment_on_h5ad':
        ('voted', True),
    'taxonomy.taxonomy_tree:TaxonomyTree.backfill_assignments':
        ('inferred', False),
    'utils.output_utils:hdf5_to_blob': ('read back', None),
}


def check_flag_is_per_level(ctx):
    """the HDF5 output keeps ONE `directly_assigned` flag per level, taken
    from the first cell, while JSON and CSV keep it per cell.  The formats
    agree only if the flag cannot differ between the cells of a level: it
    is written for every cell alike by the mapping front end (True for the
    levels voted on) and by the back-fill (False for the inferred ones),
    unconditionally, and by nobody else.  A further writer, or a
    conditional / `setdefault` write, makes the flag a per-cell quantity
    that the HDF5 file cannot represent."""
    from ..core.guards import facts_at
    db = ctx.db
    rule = 'R-SAMEVAL/flag-per-level'
    n = 0
    for fi in db.iter_functions():
        if fi.module.short.startswith(('gpu_utils',)):
            continue
        sites = []
        for x in ast.walk(fi.node):
            # record['directly_assigned'] = v
            if isinstance(x, ast.Assign):
                for tg in x.targets:
                    if isinstance(tg, ast.Subscript) and isinstance(
                            tg.slice, ast.Constant) \
                            and tg.slice.value == 'directly_assigned':
                        sites.append((x, x.value, 'store'))
            # {'directly_assigned': v, ...}
            if isinstance(x, ast.Dict):
                for k, v in zip(x.keys, x.values):
                    if isinstance(k, ast.Constant) \
                            and k.value == 'directly_assigned':
                        sites.append((x, v, 'literal'))
            # record.setdefault('directly_assigned', v) / update(...)
            if isinstance(x, ast.Call) and isinstance(
                    x.func, ast.Attribute) and x.func.attr in (
                        'setdefault',) and x.args and isinstance(
                            x.args[0], ast.Constant) \
                    and x.args[0].value == 'directly_assigned':
                sites.append((x, x.args[1] if len(x.args) > 1 else None,
                              'setdefault'))
        for (node, val, how) in sites:
            n += 1
            known = FLAG_WRITERS.get(fi.qual)
            ok = known is not None and how != 'setdefault'
            why = ''
            if known is None:
                why = (f'{fi.qual} writes the flag; the only writers the '
                       'per-level representation allows are the mapping '
                       'front end (True) and the back-fill (False)')
            elif how == 'setdefault':
                why = ('the flag is written with setdefault: cells that '
                       'already carry a value keep it, so the flag can '
                       'differ between the cells of a level')
            elif known[1] is not None:
                const = isinstance(val, ast.Constant) \
                    and val.value is known[1]
                if not const:
                    ok = False
                    why = (f'the {known[0]} levels are not flagged with '
                           f'the constant {known[1]}')
                else:
                    # not under a per-cell condition
                    cfg = cfg_of(fi)
                    rd = rd_of(fi)
                    st = node
                    while st is not None and not isinstance(st, ast.stmt):
                        st = getattr(st, '_parent', None)
                    ns = [q for q in cfg.nodes_of(st) if q.id in rd.live] \
                        if st is not None else []
                    if ns and known[0] == 'voted' and any(
                            g.kind == 'if' for (g, _t, _tr) in facts_at(
                                cfg, rd, ns[0].id)
                            if _inside_loop_of(g.ast, st)):
                        ok = False
                        why = ('the voted levels are flagged under a '
                               'condition inside the loop over the cells')
            ctx.touch(fi)
            ctx.ob(rule, f'{fi.qual}:{how}#{n - 1}', fi.loc(node), ok,
                   'the flag is the same for every cell of a level' if ok
                   else f'{why}: the HDF5 output, which stores one flag '
                   'per level, then disagrees with the JSON output')
    if n < 3:
        raise AnalysisError(f'only {n} writers of directly_assigned found')


def _inside_loop_of(test_stmt, st):
    """the `if` sits inside the innermost loop that also contains st"""
    p = getattr(st, '_parent', None)
    while p is not None and not isinstance(p, (ast.For, ast.While)):
        p = getattr(p, '_parent', None)
    if p is None:
        return False
    return any(x is test_stmt for x in ast.walk(p))


def _membership_keys(fi, param):
    """string constants whose membership in the parameter is tested
    (directly, or through a loop variable over a display of constants)"""
    out = dict()
    rd = rd_of(fi)
    for c in ast.walk(fi.node):
        if not (isinstance(c, ast.Compare) and len(c.ops) == 1
                and isinstance(c.ops[0], (ast.In, ast.NotIn))
                and isinstance(c.comparators[0], ast.Name)
                and c.comparators[0].id == param):
            continue
        lhs = c.left
        if isinstance(lhs, ast.Constant) and isinstance(lhs.value, str):
            out.setdefault(lhs.value, c)
        elif isinstance(lhs, ast.Name):
            for d in rd.defs:
                if d.name != lhs.id:
                    continue
                v = getattr(d, 'value', None)
                if d.kind == 'for' and isinstance(v, (ast.Tuple, ast.List,
                                                      ast.Set)):
                    for e in v.elts:
                        if isinstance(e, ast.Constant) and isinstance(
                                e.value, str):
                            out.setdefault(e.value, c)
                elif d.kind == 'assign' and isinstance(
                        v, ast.Constant) and isinstance(v.value, str):
                    out.setdefault(v.value, c)
    return out


def check_hdf5_results_condition(ctx, rule='R-AGREE/hdf5-results-condition'):
    """blob_to_hdf5 writes the per-cell results only when the blob holds
    the keys it tests for; run_mapping hands it the same blob it has just
    written as JSON.  For the two files to hold the same results, every
    key whose absence suppresses the HDF5 results must be one the mapping
    step stores in the blob and that run_mapping does not remove from it
    on any path before the HDF5 writer is called."""
    db = ctx.db
    w = db.fn('utils.output_utils:blob_to_hdf5')
    ctx.touch(w)
    need = _membership_keys(w, 'output_blob')
    if not need:
        raise AnalysisError('blob_to_hdf5: no membership test on the blob '
                            'found')
    inner = db.fn('cli.from_specified_markers:_run_mapping')
    outer = db.fn('cli.from_specified_markers:run_mapping')
    ctx.touch(inner)
    ctx.touch(outer)
    # removals in run_mapping from which the HDF5 writer is reachable
    cfg = cfg_of(outer)
    rd = rd_of(outer)
    calls = []
    for node in cfg.nodes:
        if node.id not in rd.live:
            continue
        for c in cfg.calls_in(node):
            t = resolve_callee(db, outer, c)
            if isinstance(t, FunctionInfo) and t.qual == w.qual:
                m, _ = bind_args(t, c)
                a = m.get('output_blob')
                if isinstance(a, ast.Name):
                    calls.append((node, a.id))
    if not calls:
        raise AnalysisError('run_mapping: call of blob_to_hdf5 not found')
    # what is stored in the blob: constant-key stores into the local the
    # writer is handed, here and in the function whose result it is (the
    # locals are found by flow, not by name)
    stored = set()

    def const_stores(fn, names):
        for st in ast.walk(fn.node):
            if isinstance(st, ast.Assign) and isinstance(
                    st.targets[0], ast.Subscript) and isinstance(
                        st.targets[0].value, ast.Name) \
                    and st.targets[0].value.id in names \
                    and isinstance(st.targets[0].slice, ast.Constant):
                stored.add(st.targets[0].slice.value)
    blobs = {b for (_n, b) in calls}
    const_stores(outer, blobs)
    for d in rd.defs:
        v = getattr(d, 'value', None)
        if d.name in blobs and isinstance(v, ast.Call):
            t = resolve_callee(db, outer, v)
            if isinstance(t, FunctionInfo):
                ctx.touch(t)
                rets = {r.value.id for r in ast.walk(t.node)
                        if isinstance(r, ast.Return)
                        and isinstance(r.value, ast.Name)}
                const_stores(t, rets)
    removed = dict()
    for node in cfg.nodes:
        if node.id not in rd.live or node.ast is None:
            continue
        for (cn, blob) in calls:
            for x in ast.walk(node.ast) if node.kind in (
                    'stmt', 'return') else []:
                k = None
                if isinstance(x, ast.Call) and isinstance(
                        x.func, ast.Attribute) and x.func.attr == 'pop' \
                        and isinstance(x.func.value, ast.Name) \
                        and x.func.value.id == blob and x.args \
                        and isinstance(x.args[0], ast.Constant):
                    k = x.args[0].value
                if isinstance(x, ast.Delete):
                    for tg in x.targets:
                        if isinstance(tg, ast.Subscript) and isinstance(
                                tg.value, ast.Name) and tg.value.id == blob \
                                and isinstance(tg.slice, ast.Constant):
                            k = tg.slice.value
                if k is not None and cfg.path(node.id, {cn.id}) is not None:
                    removed.setdefault(k, node)
    for k in sorted(need):
        ok = k in stored and k not in removed
        ctx.ob(rule, f'blob_to_hdf5:{k}', w.loc(need[k]), ok,
               f"'{k}' is stored by the mapping step and still in the blob "
               'when the HDF5 file is written' if ok else
               f"blob_to_hdf5 writes the results only if '{k}' is in the "
               'blob, but ' + (
                   f"run_mapping removes it "
                   f"(`{unparse(removed[k].ast)[:50]}`, "
                   f"{outer.loc(removed[k].ast)}) before the HDF5 file is "
                   'written' if k in removed else
                   'no step of the mapping stores that key')
               + ': the HDF5 output of a successful run carries no results '
               'while the JSON output does')


def check_config_not_edited(ctx, rule='R-SAMEVAL/config-as-recorded'):
    """the configuration written into every output is a copy taken when
    run_mapping starts; the run itself reads the live `config`.  For the
    record to describe the run (and for the outputs, whose layout follows
    settings such as the iteration count, to agree with it), the live
    configuration must not be edited afterwards: in run_mapping and
    _run_mapping nothing is stored into, deleted from or popped off
    `config` or a local that is one of its sub-dictionaries."""
    db = ctx.db
    from ..rules.escape import MUTATORS
    n = 0
    for q in ('cli.from_specified_markers:run_mapping',
              'cli.from_specified_markers:_run_mapping'):
        fi = db.fn(q)
        ctx.touch(fi)
        if 'config' not in fi.params:
            raise AnalysisError(f'{q}: no `config` parameter')
        aliases = {'config'}
        grew = True
        while grew:
            grew = False
            for st in ast.walk(fi.node):
                if isinstance(st, ast.Assign) and len(st.targets) == 1 \
                        and isinstance(st.targets[0], ast.Name) \
                        and st.targets[0].id not in aliases:
                    v = st.value
                    while isinstance(v, ast.Subscript):
                        v = v.value
                    if isinstance(v, ast.Name) and v.id in aliases \
                            and isinstance(st.value, (ast.Subscript,
                                                      ast.Name)):
                        aliases.add(st.targets[0].id)
                        grew = True

        def root(e):
            while isinstance(e, ast.Subscript):
                e = e.value
            return e.id if isinstance(e, ast.Name) else None
        edits = []
        for st in ast.walk(fi.node):
            tgs = []
            if isinstance(st, ast.Assign):
                tgs = st.targets
            elif isinstance(st, ast.AugAssign):
                tgs = [st.target]
            elif isinstance(st, ast.Delete):
                tgs = st.targets
            for tg in tgs:
                if isinstance(tg, ast.Subscript) and root(tg) in aliases:
                    edits.append(st)
            if isinstance(st, ast.Call) and isinstance(
                    st.func, ast.Attribute) and st.func.attr in MUTATORS \
                    and root(st.func.value) in aliases:
                edits.append(st)
        n += 1
        ok = not edits
        ctx.ob(rule, f'{fi.qual}:config', fi.loc(edits[0]) if edits
               else fi.loc(), ok,
               f'`config` ({len(aliases)} name(s)) is only read' if ok else
               f'`{unparse(edits[0])[:70]}` edits the live configuration '
               'after its copy for the record was taken: the run uses a '
               'setting the recorded configuration (and the outputs whose '
               'layout follows it) do not show')


def check_serialised_tree_carries_every_table(
        ctx, rule='R-AGREE/serialised-tree-complete'):
    """the taxonomy written into the outputs (`to_str`, also with
    drop_cells) is the tree the CSV writer and any later reader translate
    labels with.  Whatever top-level table of the tree data the class
    itself consults (`self._data['name_mapper']`, `'hierarchy_mapper' in
    self._data`, ...) has to be in what to_str serialises: either the
    whole of `self._data` (or a copy of it) is dumped, or the dict that is
    built names every one of those keys."""
    db = ctx.db
    ci = db.cls('taxonomy.taxonomy_tree:TaxonomyTree')
    consulted = set()
    methods = [f for f in db.iter_functions()
               if f.cls is ci]

    def is_data(e):
        return isinstance(e, ast.Attribute) and e.attr == '_data' \
            and isinstance(e.value, ast.Name) and e.value.id == 'self'

    for f in methods:
        for x in ast.walk(f.node):
            if isinstance(x, ast.Subscript) and is_data(x.value) \
                    and isinstance(x.slice, ast.Constant) \
                    and isinstance(x.slice.value, str):
                consulted.add(x.slice.value)
            elif isinstance(x, ast.Compare) and len(x.ops) == 1 \
                    and isinstance(x.ops[0], (ast.In, ast.NotIn)) \
                    and is_data(x.comparators[0]) and isinstance(
                        x.left, ast.Constant) and isinstance(
                            x.left.value, str):
                consulted.add(x.left.value)
    fi = db.find_method(ci, 'to_str')
    if fi is None or len(consulted) < 3:
        raise AnalysisError('TaxonomyTree.to_str / the tables the class '
                            f'consults were not recognised ({consulted})')
    cfg = cfg_of(fi)
    rd = rd_of(fi)
    n = 0
    for node in cfg.nodes:
        if node.id not in rd.live:
            continue
        for c in cfg.calls_in(node):
            if getattr(c.func, 'attr', getattr(c.func, 'id', None)) \
                    != 'dumps' or not c.args:
                continue
            arg = c.args[0]
            while isinstance(arg, ast.Call) and arg.args:
                arg = arg.args[0]       # clean_for_json(out_dict)
            if not isinstance(arg, ast.Name):
                continue
            for d in rd.reaching(arg.id, node.id):
                n += 1
                v = d.value
                whole = v is not None and (is_data(v) or (
                    isinstance(v, ast.Call) and v.args
                    and is_data(v.args[0]) and getattr(
                        v.func, 'attr', getattr(v.func, 'id', None))
                    in ('deepcopy', 'copy', 'dict')))
                missing = set()
                if not whole:
                    named = set()
                    for x in ast.walk(fi.node):
                        if isinstance(x, ast.Constant) and isinstance(
                                x.value, str):
                            named.add(x.value)
                    missing = consulted - named
                ok = whole or not missing
                ctx.touch(fi)
                ctx.ob(rule, f'{fi.qual}:{arg.id}@{d.node}', fi.loc(c), ok,
                       'the whole tree data is serialised' if whole else (
                           'every table the class consults is named' if ok
                           else f'to_str can serialise a dict built key by '
                           f'key that never names {sorted(missing)}, which '
                           'the class itself consults: the tree written '
                           'into the outputs has lost that table, and the '
                           'CSV / a later reader translate without it'))
    # ... and read back: what the deserialisers hand to the constructor is
    # the parsed text as a whole, or a selection that names every such key
    for name in ('from_str', 'from_json_file'):
        g = db.find_method(ci, name)
        if g is None:
            continue
        gcfg = cfg_of(g)
        grd = rd_of(g)
        gex = Expander(g)
        for node in gcfg.nodes:
            if node.id not in grd.live:
                continue
            for c in gcfg.calls_in(node):
                if not (isinstance(c.func, ast.Name) and c.func.id == 'cls'):
                    continue
                arg = None
                for k in c.keywords:
                    if k.arg == 'data':
                        arg = k.value
                if arg is None and c.args:
                    arg = c.args[0]
                if arg is None:
                    continue
                n += 1
                t = gex.expand(arg, node.id)
                whole = all(isinstance(a, tuple) and a and a[0] == 'call'
                            and T.call_name(a) in ('loads', 'load')
                            for a in term_alts(t))
                named = {x.value for x in ast.walk(g.node)
                         if isinstance(x, ast.Constant)
                         and isinstance(x.value, str)}
                missing = set() if whole else consulted - named
                ok = whole or not missing
                ctx.touch(g)
                ctx.ob(rule, f'{g.qual}:cls(data)', g.loc(c), ok,
                       'the parsed text is handed to the constructor whole'
                       if whole else (
                           'the selection names every table the class '
                           'consults' if ok else
                           f'{name} hands the constructor a selection of '
                           f'the parsed keys that never names '
                           f'{sorted(missing)}: the tree a stage reads back '
                           'has lost a table that was written, and outputs '
                           'labelled through it fall back to raw labels'))
    ctx.floor(rule, 3)
    return n
