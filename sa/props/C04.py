"""
C04 -- results depend only on inputs and seed, never on scheduling.

Decided (DESIGN.md section 5, C04): an information-flow (order / value
taint) analysis shows that no label of class HASH (iteration order of a
set), SCHED (content order of a Manager list / key order of a Manager dict
filled by workers) or FS (directory listing order) reaches a persistent
write or the return value of a stage API function, within the stated
abstraction; plus provenance rules for seeds, for the merge order of
per-worker files, and for the influence of the worker count.
"""
import ast
import json
import pathlib

from ..core.cfg import cfg_of
from ..core.defuse import rd_of, Expander, fmt_term, term_alts
from ..core import terms as T
from ..core.loader import (unparse, AnalysisError, FunctionInfo,
                           ModuleInfo, _set_parents)
from ..core.resolve import resolve_callee, ext_name, bind_args
from ..rules import workers as W
from ..rules.taint import TaintEngine

ID = 'C04'

# the generic data-path rules (sa/rules/closure.py) say nothing about this
# property (scheduling / failure / scratch / path disclosure)
GENERIC_SCAN = False

EXPLANATION = (
    "Static analysis: a flow-sensitive abstract interpretation over the "
    "statement CFG of every pipeline function (fixpoint, summaries for "
    "package callees, worker targets and argschema runners chained through "
    "input_data) tracks, for every value, labels on its iteration order "
    "(ord), on the key order of dicts (kord) and on which value it is "
    "(val). Sources: set construction / set algebra (HASH), "
    "multiprocessing.Manager().list()/dict() (SCHED), iterdir/listdir/glob "
    "(FS). Order is preserved by list(), comprehensions, concatenation, "
    "np.array; loops over an order-tainted iterable taint order-sensitive "
    "accumulators (append, str +=, first-match-break) but not commutative "
    "ones (set.add, keyed store, numeric +=); positional access turns ord "
    "into val; sorted / .sort() / np.sort / np.unique, co-indexing by the "
    "argsort of a lock-step array, len / in / sum / min / max clear it; "
    "dicts with constant string keys are field sensitive; an empty-or-"
    "singleton branch voids order. Sinks: HDF5 dataset writes, json.dump, "
    "file writes, to_csv, and returns of the stage API functions; key "
    "order of a dict is not a sink. Every finding on the tree is a "
    "violation unless its source is listed, with a reason, in "
    "sa/specs/taint_sources.json. Further: every RNG construction is "
    "seeded from configuration or from a draw on a parent generator made "
    "in the dispatching process before the worker starts, no global "
    "sampler is used; per-worker files are merged in program order or "
    "sorted key order; in the mapping dispatcher the worker count "
    "influences only the chunk size and the pool-occupancy test. Floating "
    "point summation order and third-party determinism are not decided.")

EXPLANATION += (
    ' Added after the seeded rounds: a shared random generator is '
    'treated as an order-sensitive accumulator (a draw inside a loop '
    'with a labelled visiting order is a labelled value, label suffix '
    '=>random-stream, not covered by benign-source entries); key order '
    'of nested dicts and of key sequences inserted by loops is tracked.'
)

EXPLANATION += (
    ' Round 3: numeric accumulation in a labelled visiting order (also '
    'inside a callee that accumulates into its argument, also through '
    'lists of lists) yields a labelled value.'
)

EXPLANATION += (
    ' Round 5: settings are forwarded at every call (R-FWD/parameter-forwarded).'
)

EXPLANATION += (
    ' Round 8: the worker count is tested against a constant only at the two confirmed serial-or-parallel sites (R-PROV/worker-count-special-case).'
)

EXPLANATION += (
    ' Round 9: an integer type chosen inside a worker is sized from a bound of the kind of what it stores, values or counts (R-CAP/bound-kind).'
)

EXPLANATION += (
    ' Round 10: the taint engine labels a store into a table that outlives a loop with labelled visiting order when the position is not given by the loop element (order-dependent overwrite); writes through an HDF5 handle opened for writing are sinks.'
)

EXPLANATION += (
    ' Round 11: a list whose order was frozen from a set must be sorted before a TaxonomyTree is built from it (taint: frozen order); n_processors and chunk_size reach the election as configured.'
)

EXPLANATION += (
    ' Round 13: positions returned by a binary search depend on the arrangement of the array searched (taint).'
)

EXPLANATION += (
    ' Round 14: set algebra on dict key views yields a set with a hash-order label in the taint engine.'
)

EXPLANATION += (
    ' Round 15: what winnow_process_dict returns is labelled as timing-dependent; a list collected by membership in it carries the label on its order; integer sums of extents are exact.'
)

EXPLANATION += (
    ' Round 16: the functions that join worker pieces place every piece (cursor rules over the merge functions).'
)

EXPLANATION += (
    ' Round 17: isinstance(x, set) edges make x a set in the taint engine; recursive calls pass the labels of their arguments through.'
)

RULE_TEXT = (
    "one obligation per (sink site, set of source labels) finding, per "
    "benign source used, per RNG construction, per merge loop, per worker "
    "argument; the taint scan itself is one obligation carrying the "
    "numbers of functions, sources and sinks examined")

ASSUMPTIONS = [
    "container nesting is tracked one level (order labels of nested "
    "containers ride on the outer value); flows are cut at files",
    "attribute state is per call, not per object",
    "third-party functions are deterministic given equal inputs",
    "floating point summation order is excluded by the property",
    "necessary conditions only",
]

_SPEC = pathlib.Path(__file__).resolve().parent.parent / 'specs' / \
    'taint_sources.json'

STAGE_API = [
    'type_assignment.election_runner:run_type_assignment_on_h5ad',
    'type_assignment.election:run_type_assignment',
    'type_assignment.marker_cache_v2:create_marker_gene_lookup_from_ref_list',
    'type_assignment.marker_cache_v2:create_raw_marker_gene_lookup',
    'type_assignment.marker_cache_v2:serialize_markers',
    'marker_selection.selection_pipeline:select_all_markers',
    'marker_selection.selection:select_marker_genes_v2',
    'utils.output_utils:re_order_blob',
]


def in_pipeline(m):
    return not m.short.startswith(('gpu_utils', 'corr'))


def check(ctx):
    check_taint(ctx)
    check_seeds(ctx)
    check_merge_order(ctx)
    check_worker_count(ctx)
    check_worker_count_special_cases(ctx)
    check_chunk_local_types(ctx)
    # the settings reach the stages as configured (sa/rules/forwarding.py)
    from ..rules.forwarding import check_config_settings_as_requested
    check_config_settings_as_requested(ctx, {'n_processors', 'chunk_size'})
    # settings this property depends on are handed down every call
    # chain, never left to a callee's default (sa/rules/forwarding.py)
    from ..rules.forwarding import check_forwarding
    check_forwarding(ctx, {'rng', 'rng_seed', 'n_processors'})
    # the pieces the workers leave behind are cut by the worker count; the
    # functions that join them place every piece -- a piece that is
    # skipped still occupies its rows in the joined arrays (cursor rules of
    # sa/rules/cursors.py over the merge functions)
    from ..rules import cursors as CU
    n_cur = 0
    for fi_ in ctx.db.iter_functions():
        if fi_.module.short in ('diff_exp.markers', 'diff_exp.p_value_mask',
                                'diff_exp.p_value_markers',
                                'utils.csc_to_csr_parallel',
                                'diff_exp.precompute_from_anndata') \
                and 'merge' in fi_.name:
            n_cur += CU.check_cursors(ctx, fi_, 'R-CURSOR/used')
            CU.check_advance(ctx, fi_)
    if n_cur < 2:
        raise AnalysisError('merge functions of the worker pieces: only '
                            f'{n_cur} cursor(s) recognised')


# ----------------------------------------------------------------------

def check_taint(ctx):
    db = ctx.db
    spec = json.loads(_SPEC.read_text())
    benign = {b['source']: b for b in spec.get('benign_sources', [])
              if 'source' in b}
    # sinks that are not results: (function, sink description)
    benign_sinks = {(b['function'], b['sink']): b
                    for b in spec.get('benign_sinks', [])}
    eng = TaintEngine(db, ctx.cg, stage_api=STAGE_API)
    findings = eng.analyse_all(in_pipeline)
    rule = 'R-TAINT/order-to-sink'
    n_src = len(eng.source_locs)
    n_sinks = len(eng.sinks_seen)
    if eng.n_functions < 300 or n_src < 40 or n_sinks < 60:
        raise AnalysisError(
            f'taint scan too small: {eng.n_functions} functions, {n_src} '
            f'order sources, {n_sinks} sinks')
    ctx.ok(rule + '/scan', 'pipeline', 'package',
           f'{eng.n_functions} functions analysed; {n_src} order sources '
           f'(set / Manager / directory listing) and {n_sinks} sink sites '
           'examined')
    used = set()
    for f in sorted(findings, key=lambda x: x.key()):
        srcs = sorted({lab[1] for lab in f.labels})
        kinds = sorted({lab[0] for lab in f.labels})
        ctx.touch(f.fi)
        bs = benign_sinks.get((f.fi.qual, f.sink))
        if bs is not None:
            used.add(('sink', f.fi.qual, f.sink))
            ctx.ok(rule + '/benign', f.key(), f.fi.loc(f.site),
                   'this sink is recorded as not being a result: '
                   + bs['reason'], nontrivial=True)
            continue
        if all(s in benign for s in srcs):
            for s in srcs:
                used.add(s)
            ctx.ok(rule + '/benign', f.key(), f.fi.loc(f.site),
                   'reaches this sink only from source(s) recorded as '
                   'benign: ' + '; '.join(
                       f'{s} -- {benign[s]["reason"]}' for s in srcs),
                   nontrivial=True)
            continue
        locs = [f'{s} ({eng.source_locs.get(s, "?")})' for s in srcs
                if s not in benign]
        why = {'HASH': 'the iteration order of a set (varies with '
                       'PYTHONHASHSEED / insertion history)',
               'SCHED': 'the completion order of worker processes',
               'FS': 'directory listing order'}
        ctx.fail(rule, f.key(), f.fi.loc(f.site),
                 f'{f.sink} `{unparse(f.site)[:70]}` depends on '
                 + ' and '.join(why[k] for k in kinds)
                 + ': source ' + '; '.join(locs),
                 witness=[f'source: {x}' for x in locs]
                 + [f'via {cf.qual} L{cs.lineno}: {unparse(cs)[:70]}'
                    for (cf, cs) in f.chain])
    for (fq, sk), b in benign_sinks.items():
        if ('sink', fq, sk) in used:
            ctx.exceptions_used.append(
                {'rule': rule, 'key': f'{fq}|{sk}', 'reason': b['reason']})
        else:
            ctx.note(f'benign sink not encountered (stale?): {fq}|{sk}')
    for s, b in benign.items():
        if s not in used:
            ctx.note(f'benign source not encountered (stale?): {s}')
        else:
            ctx.exceptions_used.append(
                {'rule': rule, 'key': s, 'reason': b['reason']})
    _positive_controls(ctx)


def _fixture(src, name):
    tree = ast.parse(src)
    _set_parents(tree)
    m = ModuleInfo('cell_type_mapper._fixture_taint', None, '<fixture>',
                   tree, src)
    m.imports['json'] = ('module', 'json')
    m.imports['np'] = ('module', 'numpy')
    fis = {}
    for node in tree.body:
        if isinstance(node, ast.FunctionDef):
            fi = FunctionInfo(m, None, node.name, node)
            m.functions[node.name] = fi
            m.all_functions.append(fi)
            fis[node.name] = fi
    return fis[name]


def _positive_controls(ctx):
    """zero-expected rule: fixtures that must / must not be reported"""
    cases = [
        ('bad_list_of_set',
         "def f(names, out):\n"
         "    genes = list(set(names))\n"
         "    out.create_dataset('genes', data=genes)\n", True),
        ('good_sorted',
         "def f(names, out):\n"
         "    genes = list(set(names))\n"
         "    genes.sort()\n"
         "    out.create_dataset('genes', data=genes)\n", False),
        ('bad_loop_append',
         "def f(names, out):\n"
         "    acc = []\n"
         "    for g in set(names):\n"
         "        acc.append(g)\n"
         "    out.create_dataset('genes', data=acc)\n", True),
        ('good_keyed',
         "def f(names, lookup, out):\n"
         "    acc = dict()\n"
         "    for g in set(names):\n"
         "        acc[g] = lookup[g]\n"
         "    out.create_dataset('n', data=len(acc))\n", False),
        ('bad_first_match',
         "def f(names, out):\n"
         "    chosen = None\n"
         "    for g in set(names):\n"
         "        if g.startswith('a'):\n"
         "            chosen = g\n"
         "            break\n"
         "    out.create_dataset('c', data=chosen)\n", True),
        ('bad_listing',
         "def f(d, out):\n"
         "    files = [str(p) for p in d.iterdir()]\n"
         "    out.create_dataset('files', data=files)\n", True),
        # a shared random stream consumed in set order
        ('bad_rng_in_set_order',
         "def f(names, rng, out):\n"
         "    res = dict()\n"
         "    for g in set(names):\n"
         "        res[g] = rng.choice(5, 2)\n"
         "    out.create_dataset('a', data=res['a'])\n", True),
        ('good_rng_in_sorted_order',
         "def f(names, rng, out):\n"
         "    res = dict()\n"
         "    for g in sorted(set(names)):\n"
         "        res[g] = rng.choice(5, 2)\n"
         "    out.create_dataset('a', data=res['a'])\n", False),
        # floating-point accumulation in hash order, through a list of
        # lists and through a callee that accumulates into its argument
        ('bad_accumulation_in_set_order',
         "def f(paths, n, out):\n"
         "    paths = list(set(paths))\n"
         "    work = []\n"
         "    for i in range(n):\n"
         "        work.append([])\n"
         "    j = 0\n"
         "    for p in paths:\n"
         "        work[j].append((p, 0, 1))\n"
         "        j += 1\n"
         "    for spec in work:\n"
         "        buf = np.zeros(3)\n"
         "        for c in spec:\n"
         "            buf[0] += len(c)\n"
         "        out.create_dataset('b', data=buf)\n", True),
        ('good_accumulation_in_sorted_order',
         "def f(paths, out):\n"
         "    paths = sorted(set(paths))\n"
         "    buf = np.zeros(3)\n"
         "    for c in paths:\n"
         "        buf[0] += len(c)\n"
         "    out.create_dataset('b', data=buf)\n", False),
        # key order of a nested dict filled from a hash-ordered list
        ('bad_nested_key_order',
         "def f(names, levels, rng, out):\n"
         "    prev = dict()\n"
         "    order = list(set(names))\n"
         "    for lv in levels:\n"
         "        prev[lv] = dict()\n"
         "        for i in range(len(order)):\n"
         "            prev[lv][order[i]] = i\n"
         "    res = []\n"
         "    for lv in levels:\n"
         "        for k in list(prev[lv].keys()):\n"
         "            res.append(rng.choice(5, 2))\n"
         "    out.create_dataset('r', data=res)\n", True),
        # replace-if-larger into a table that outlives a hash-ordered
        # loop: ties are decided by the visiting order
        ('bad_overwrite_in_set_order',
         "def f(paths, out_path):\n"
         "    with h5py.File(out_path, 'a') as dst:\n"
         "        for p in set(paths):\n"
         "            with h5py.File(p, 'r') as src:\n"
         "                better = np.where(src['n'][()] > dst['n'][()])[0]\n"
         "                dst['n'][better] = src['n'][better]\n", True),
        ('good_overwrite_in_sorted_order',
         "def f(paths, out_path):\n"
         "    with h5py.File(out_path, 'a') as dst:\n"
         "        for p in sorted(set(paths)):\n"
         "            with h5py.File(p, 'r') as src:\n"
         "                better = np.where(src['n'][()] > dst['n'][()])[0]\n"
         "                dst['n'][better] = src['n'][better]\n", False),
        ('good_one_slot_per_element',
         "def f(paths, out_path):\n"
         "    with h5py.File(out_path, 'a') as dst:\n"
         "        for p in set(paths):\n"
         "            with h5py.File(p, 'r') as src:\n"
         "                dst[p][0] = src['n'][0]\n", False),
    ]
    for name, src, expect in cases:
        fi = _fixture(src, 'f')
        eng = TaintEngine(ctx.db, ctx.cg)
        s = eng.summary(fi)
        got = bool(s.findings)
        if got != expect:
            raise AnalysisError(
                f'taint control `{name}` expected '
                f'{"a finding" if expect else "silence"}, got '
                f'{"a finding" if got else "silence"}')
    ctx.note(f'{len(cases)} positive/negative controls of the taint rule '
             'behaved')


# ----------------------------------------------------------------------

GLOBAL_SAMPLERS = {'rand', 'randn', 'randint', 'random', 'choice',
                   'shuffle', 'permutation', 'normal', 'uniform',
                   'random_sample', 'sample', 'randrange', 'seed'}


def check_seeds(ctx):
    db = ctx.db
    rule = 'R-PROV/seed'
    n = 0
    for fi in db.iter_functions(in_pipeline):
        for node in ast.walk(fi.node):
            if not isinstance(node, ast.Call):
                continue
            t = resolve_callee(db, fi, node)
            nm = ext_name(t) or ''
            if nm in ('numpy.random.default_rng', 'numpy.random.RandomState',
                      'numpy.random.Generator', 'random.Random'):
                n += 1
                ctx.touch(fi)
                key = f'{fi.qual}:{unparse(node)[:50]}'
                if not node.args and not node.keywords:
                    ctx.fail(rule, key, fi.loc(node),
                             f'`{unparse(node)}` creates an unseeded '
                             'generator: every run draws different '
                             'bootstrap subsets')
                    continue
                ex = Expander(fi)
                a = node.args[0] if node.args else node.keywords[0].value
                term = ex.expand(a)
                ok = _seed_ok(term)
                ctx.ob(rule, key, fi.loc(node), ok,
                       'seeded from configuration / a parameter / a draw '
                       'on a parent generator' if ok else
                       f'seed `{unparse(a)}` ({fmt_term(term)[:80]}) does '
                       'not derive from the configuration or a parent '
                       'generator')
            elif nm.startswith(('numpy.random.', 'random.')) and \
                    nm.split('.')[-1] in GLOBAL_SAMPLERS:
                n += 1
                ctx.touch(fi)
                ctx.fail(rule + '/global-sampler',
                         f'{fi.qual}:{unparse(node)[:50]}', fi.loc(node),
                         f'`{unparse(node)[:60]}` uses the process-global '
                         'random state, which no seed in the configuration '
                         'controls')
    if n < 1:
        raise AnalysisError('no RNG construction found')
    # per-worker generators are drawn in the parent, inside the dispatch
    # loop, before the worker starts
    fi = db.fn('type_assignment.election:run_type_assignment_on_h5ad_cpu')
    cfg = cfg_of(fi)
    rd = rd_of(fi)
    ex = Expander(fi)
    for s in W.find_spawn_sites(db, lambda m: m is fi.module):
        if s.fi is not fi or s.kwargs is None:
            continue
        a = s.kwargs.get('rng')
        node = [n_ for n_ in cfg.node_of_expr(s.call) if n_.id in rd.live][0]
        if a is None:
            ctx.fail(rule + '/per-worker', 'election:rng', fi.loc(s.call),
                     'workers are not given a generator')
            continue
        t = ex.expand(a, node.id)
        ok = (T.call_name(t) == 'default_rng' and t[2]
              and T.call_name(t[2][0]) in ('integers', 'randint', 'spawn',
                                           'bit_generator')
              and T.call_receiver(t[2][0]) == ('param', 'rng'))
        in_call = any(sub is a for sub in ast.walk(s.call))
        ctx.ob(rule + '/per-worker', 'election:rng', fi.loc(a),
               ok and in_call,
               "each worker's generator is seeded by a draw on the "
               "dispatcher's generator, made in dispatch order before "
               'the worker starts' if ok and in_call else
               f'the generator handed to a worker is {fmt_term(t)[:100]}: '
               'not a fresh generator seeded from the parent generator in '
               'the dispatching process (workers sharing a generator, or '
               'seeding in the child, make the stream depend on '
               'scheduling)')


def _seed_ok(term):
    for alt in term_alts(term):
        ok = False
        for x in T.subterms(alt):
            if x[0] == 'param':
                ok = True
            if x[0] == 'sub' and x[2][0] == 'const' and 'seed' in x[2][1]:
                ok = True
            if T.call_name(x) in ('integers', 'randint') and \
                    T.call_receiver(x) is not None:
                ok = True
        # clock / pid are not seeds
        for x in T.subterms(alt):
            if T.call_name(x) in ('time', 'getpid', 'now', 'urandom',
                                  'perf_counter', 'time_ns'):
                ok = False
        if alt == ('const', 'None'):
            ok = False
        if not ok:
            return False
    return True


# ----------------------------------------------------------------------

def check_merge_order(ctx):
    """per-worker files are merged in program order or sorted key order"""
    db = ctx.db
    rule = 'R-PROV/merge-order'
    specs = [
        'diff_exp.precompute_from_anndata:'
        '_precompute_summary_stats_from_h5ad_and_lookup',
        'utils.csc_to_csr_parallel:_transpose_sparse_matrix_on_disk_v2',
        'diff_exp.markers:_merge_sparse_by_pair_files',
        'diff_exp.p_value_mask:_merge_masks',
        'type_assignment.election:run_type_assignment_on_h5ad_cpu',
    ]
    for q in specs:
        fi = db.fn(q)
        ctx.touch(fi)
        cfg = cfg_of(fi)
        rd = rd_of(fi)
        # a merge loop reads one per-worker file per iteration: its body
        # opens (for reading) a path that depends on the loop variable.
        # The collection it iterates is found by that role, not by name.
        loops = []
        for n in cfg.nodes:
            if n.kind != 'for' or n.id not in rd.live \
                    or not isinstance(n.ast.iter, ast.Name):
                continue
            tv = {x.id for x in ast.walk(n.ast.target)
                  if isinstance(x, ast.Name)}
            grow = True
            while grow:
                grow = False
                for st in ast.walk(n.ast):
                    if isinstance(st, ast.Assign) and len(
                            st.targets) == 1 and isinstance(
                                st.targets[0], ast.Name) \
                            and st.targets[0].id not in tv and any(
                                isinstance(x, ast.Name) and x.id in tv
                                for x in ast.walk(st.value)):
                        tv.add(st.targets[0].id)
                        grow = True
            reads = False
            for c in ast.walk(n.ast):
                if isinstance(c, ast.Call) and unparse(c.func) in (
                        'h5py.File', 'open') and c.args and any(
                            isinstance(x, ast.Name) and x.id in tv
                            for x in ast.walk(c.args[0])):
                    mode = c.args[1] if len(c.args) > 1 else None
                    for kw in c.keywords:
                        if kw.arg == 'mode':
                            mode = kw.value
                    if mode is None or (isinstance(mode, ast.Constant)
                                        and str(mode.value).startswith('r')
                                        and '+' not in str(mode.value)):
                        reads = True
            if reads:
                loops.append(n)
        if not loops:
            ctx.fail(rule, f'{fi.qual}:merge-loop', fi.loc(),
                     'no loop that reads one per-worker file per iteration '
                     'was found: the merge is no longer recognised')
            continue
        for lp in loops:
            name = lp.ast.iter.id
            key = f'{fi.qual}:{unparse(lp.ast.target)} in <{_coll_role(rd, name, lp)}>'
            defs = rd.reaching(name, lp.id)
            muts = rd.mutations(name)
            if all(d.kind == 'param' for d in defs):
                bad = [(n_, a_, h_) for (n_, a_, h_) in muts
                       if h_ not in ('append',)]
                ctx.ob(rule, key, fi.loc(lp.ast), not bad,
                       f'`{name}` is iterated in the order the caller '
                       'built it' if not bad else
                       f'`{name}` is re-ordered before the merge')
                continue
            fresh = all(d.kind == 'assign' and isinstance(
                d.value, ast.List) and not d.value.elts for d in defs)
            if fresh:
                bad = [(n_, a_, h_) for (n_, a_, h_) in muts
                       if h_ not in ('append',)]
                ok = not bad
                ctx.ob(rule, key, fi.loc(lp.ast), ok,
                       f'`{name}` is filled by append in dispatch '
                       '(program) order and iterated as is' if ok else
                       f'`{name}` is re-ordered: ' + ', '.join(
                           unparse(a_)[:40] for (_n, a_, _h) in bad)
                       + '; the merge order can differ between runs')
                continue
            # otherwise: sorted before the loop on every path
            sort_nodes = {n_ for (n_, a_, h_) in muts if h_ == 'sort'
                          and not any(k.arg == 'key'
                                      for k in a_.keywords)}
            ok = True
            for d in defs:
                if d.kind == 'assign' and isinstance(
                        d.value, ast.Call) and isinstance(
                            d.value.func, ast.Name) \
                        and d.value.func.id == 'sorted':
                    continue
                okp, p = cfg.must_pass(
                    d.node, {lp.id}, lambda x: x.id in sort_nodes,
                    edge_ok=lambda a, b, lab: lab != 'exc')
                if not okp:
                    ok = False
            ctx.ob(rule, key, fi.loc(lp.ast), ok,
                   f'`{name}` is sorted before the merge loop' if ok
                   else f'`{name}` reaches the merge loop unsorted: '
                   'the pieces are merged in dict / directory order')


def _coll_role(rd, name, lp):
    defs = rd.reaching(name, lp.id)
    if all(d.kind == 'param' for d in defs):
        return 'param ' + name
    kinds = sorted({type(getattr(d, 'value', None)).__name__ for d in defs})
    return 'local:' + '/'.join(kinds)


# ----------------------------------------------------------------------

CHUNK_ARGS = {'query_cell_chunk', 'query_cell_names', 'r0', 'r1'}


def check_worker_count(ctx):
    db = ctx.db
    rule = 'R-PROV/worker-count-influence'
    fi = db.fn('type_assignment.election:run_type_assignment_on_h5ad_cpu')
    cfg = cfg_of(fi)
    rd = rd_of(fi)
    ex = Expander(fi)
    nproc = ('param', 'n_processors')
    for s in W.find_spawn_sites(db, lambda m: m is fi.module):
        if s.fi is not fi or s.kwargs is None:
            continue
        node = [n for n in cfg.node_of_expr(s.call) if n.id in rd.live][0]
        for k, a in sorted(s.kwargs.items()):
            t = ex.expand(a, node.id)
            dep = T.contains(t, nproc)
            if k in CHUNK_ARGS:
                continue
            ctx.ob(rule, f'election:worker-arg:{k}', fi.loc(a), not dep,
                   'independent of the worker count' if not dep else
                   f'worker argument `{k}` depends on n_processors '
                   f'({fmt_term(t)[:80]}): two worker counts that induce '
                   'the same chunks would map differently')
    # n_processors is used only for the chunk-size bound and for the
    # pool-occupancy comparison
    uses = []
    for n in cfg.nodes:
        if n.id not in rd.live:
            continue
        for root in n.exprs:
            if root is None:
                continue
            for sub in ast.walk(root):
                if isinstance(sub, ast.Name) and sub.id == 'n_processors' \
                        and isinstance(sub.ctx, ast.Load):
                    uses.append((n, sub))
    for (n, sub) in uses:
        ok = False
        why = n.text()[:60]
        if n.kind == 'while' and isinstance(n.ast.test, ast.Compare):
            ok = True          # pool occupancy
        elif n.kind == 'stmt' and isinstance(n.ast, ast.Assign) \
                and isinstance(n.ast.targets[0], ast.Name):
            # must flow only into chunk_size
            tgt = n.ast.targets[0].id
            ok = _flows_only_to_chunk_size(rd, cfg, tgt, n)
        ctx.ob(rule, f'election:use:{why}', fi.loc(sub), ok,
               'bounds the chunk size / tests pool occupancy' if ok else
               f'`{why}` lets the worker count influence something other '
               'than the chunk size and the pool-occupancy test')
    if not uses:
        raise AnalysisError('n_processors is not used in the dispatcher')


def _flows_only_to_chunk_size(rd, cfg, var, node, depth=0):
    """every use of `var` (defined at node) is in an assignment whose
    target is again only used so, ending in the row_chunk_size argument
    of the row iterator or the timing display"""
    if depth > 4:
        return False
    ds = [d for d in rd.defs if d.node == node.id and d.name == var]
    for d in ds:
        for (un, name_node) in rd.uses_of(d):
            s = un.ast
            # the row-chunk-size argument of the row iterator
            is_chunk_arg = False
            for c in cfg.calls_in(un):
                for kw in c.keywords:
                    if kw.arg == 'row_chunk_size' and any(
                            x is name_node for x in ast.walk(kw.value)):
                        is_chunk_arg = True
            if is_chunk_arg:
                continue
            if un.kind == 'stmt' and isinstance(s, ast.AugAssign):
                continue          # progress counter for the timing display
            if un.kind == 'stmt' and isinstance(s, ast.Assign) \
                    and isinstance(s.targets[0], ast.Name) \
                    and isinstance(s.value, ast.Call) and isinstance(
                        s.value.func, ast.Name) \
                    and s.value.func.id in ('min', 'max'):
                if not _flows_only_to_chunk_size(rd, cfg, s.targets[0].id,
                                                 un, depth+1):
                    return False
                continue
            return False
    return True


# tests of the worker count against a constant that were read and
# confirmed: both arms perform the same step, serially or in processes
SERIAL_OR_PARALLEL = {
    'diff_exp.precompute_from_anndata:'
    '_precompute_summary_stats_from_h5ad_and_lookup':
        'n_processors <= 1 runs _process_chunk_spec in-process with the '
        'very arguments the Process branch hands to it',
    'diff_exp.markers:add_sparse_by_gene_markers_to_file':
        'n_processors == 1 uses the serial on-disk transposition, '
        'otherwise the parallel one, on the same datasets (their '
        'equivalence is C13\'s subject)',
}


def check_worker_count_special_cases(ctx):
    """results may not depend on the number of workers.  The worker count
    legitimately bounds chunk sizes and pool occupancy; a *test* of it
    against a constant (`n_processors == 1`) singles out one worker count
    for another code path, and is acceptable only where both paths do the
    same step serially or in processes.  The two such tests on the tree
    were read and are listed; each must have both arms calling the same
    routine (or its declared parallel sibling).  Any other test of a
    worker-count parameter against a constant is reported."""
    db = ctx.db
    rule = 'R-PROV/worker-count-special-case'
    n = 0
    for fi in db.iter_functions():
        if fi.module.short.startswith(('gpu_utils', 'corr.')):
            continue
        if 'n_processors' not in fi.params:
            continue
        for node in ast.walk(fi.node):
            if not isinstance(node, (ast.If, ast.IfExp, ast.While)):
                continue
            hit = None
            for c in ast.walk(node.test):
                if isinstance(c, ast.Compare) and len(c.ops) == 1:
                    sides = [c.left, c.comparators[0]]
                    if any(isinstance(x, ast.Name)
                           and x.id == 'n_processors' for x in sides) \
                            and any(isinstance(x, ast.Constant)
                                    and isinstance(x.value, int)
                                    for x in sides):
                        hit = c
            if hit is None:
                continue
            n += 1
            known = SERIAL_OR_PARALLEL.get(fi.qual)
            ok = False
            why = ('the worker count is compared with a constant to choose '
                   'another code path')
            core_test = node.test
            while isinstance(core_test, ast.UnaryOp) and isinstance(
                    core_test.op, ast.Not):
                core_test = core_test.operand
            if known is not None and isinstance(node, ast.If) \
                    and isinstance(core_test, ast.Compare):
                # both arms call the same routine / its parallel sibling
                def callees(stmts):
                    out = set()
                    for st in stmts:
                        for x in ast.walk(st):
                            if isinstance(x, ast.Call):
                                t = resolve_callee(db, fi, x)
                                if isinstance(t, FunctionInfo):
                                    out.add(t.name)
                            if isinstance(x, ast.keyword) \
                                    and x.arg == 'target' and isinstance(
                                        x.value, ast.Name):
                                out.add(x.value.id)
                    return out
                a, b = callees(node.body), callees(node.orelse)
                stem = {x.rstrip('_v2').lstrip('_') for x in a} & {
                    x.rstrip('_v2').lstrip('_') for x in b}
                ok = bool(stem)
                why = ('the two arms no longer call the same routine '
                       f'({sorted(a)} / {sorted(b)})')
            ctx.touch(fi)
            ctx.ob(rule, f'{fi.qual}:{unparse(hit)}', fi.loc(node), ok,
                   'serial / parallel variants of one step' if ok else
                   f'`{unparse(node.test)[:60]}` in {fi.name}: {why}; a '
                   'run with that many workers takes a path no other run '
                   'takes, and its results can differ')
    if n < 2:
        raise AnalysisError('the confirmed serial-or-parallel tests of the '
                            'worker count were not found')


def check_chunk_local_types(ctx):
    """a worker sees one chunk of the pairs, and how the pairs are cut into
    chunks follows from n_processors.  An integer type a worker chooses
    from what it sees must be wide enough whatever the chunk: sized from
    the largest value it stores when it stores values, from the number of
    entries when it stores running counts (R-CAP/bound-kind,
    sa/rules/capacity.py).  A type sized from the wrong one of the two
    wraps the stored numbers for some chunkings and not for others."""
    from ..rules.capacity import check_bound_kind
    n = 0
    for fi in ctx.db.iter_functions():
        if fi.module.short in ('diff_exp.markers', 'diff_exp.p_value_mask',
                               'diff_exp.p_value_markers',
                               'diff_exp.score_utils',
                               'utils.csc_to_csr_parallel'):
            n += check_bound_kind(ctx, fi)
    if n < 2:
        raise AnalysisError(f'only {n} arrays with a chosen integer type '
                            'found in the worker code of the marker stages')
