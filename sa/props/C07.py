"""
C07 -- mapping is invariant to count scale, declared normalisation and
gene order (structural part).

Decided (DESIGN.md section 5, C07):
 1. raw input containing a negative value is rejected: with
    normalization == 'raw' the dispatch is preceded, on every path, by the
    non-negativity probe of the same file, and a negative minimum raises
    with or without a log.
 2. normalise on the full gene set before down-selecting: no path on which
    a CellByGeneMatrix is down-selected by gene before it is converted to
    log2(CPM+1); the class keeps its own guard; every chunk is
    down-selected to the marker genes before it leaves the dispatcher.
 3. gene order: query columns are selected through the name -> position
    map of the query's own gene list, and the marker cache is written and
    read in matching index spaces (role typing, shared with C08).
"""
import ast

from ..core.cfg import cfg_of
from ..core.constprop import feasible, UNKNOWN
from ..core.defuse import rd_of, Expander, fmt_term
from ..core import terms as T
from ..core.loader import unparse, AnalysisError, FunctionInfo
from ..core.resolve import resolve_callee, bind_args
from ..core.slicing import backward_slice
from ..rules import arms as A
from ..rules import roles as R
from ..rules import workers as W

ID = 'C07'

EXPLANATION = (
    "Static analysis. Constant propagation over "
    "run_type_assignment_on_h5ad under the assumption normalization == "
    "'raw' shows that every feasible path to the CPU/GPU dispatch passes "
    "the call is_data_ge_zero(h5ad_path=<own query path>), that the branch "
    "taken for a negative minimum raises on both arms of its log "
    "conditional, and is_data_ge_zero is shown to return a False verdict "
    "under a `< 0` test of the measured minimum. A typestate check on the "
    "CellByGeneMatrix variables of the dispatcher and of the statistics "
    "worker shows that no to_log2CPM* call is reachable from a "
    "downsample_genes* call on the same variable, that the conversion is "
    "attempted (under the normalization test) before the down-selection, "
    "and that the down-selection to the cache's all_query_markers "
    "dominates the spawn; in the class, both conversions are dominated by "
    "the false edge of the `_genes_downsampled` test whose true edge "
    "raises, and both down-selections set the flag. The column selection "
    "is shown to go through gene_to_col built from the matrix's own gene "
    "identifiers. Scale invariance and raw == pre-normalised are algebraic "
    "facts and are not decided.")

EXPLANATION += (
    ' Added after the seeded rounds: no ordering step towards the '
    "marker cache's per-parent arrays has a key depending on query "
    'positions; the array normalised in the chunk loops has not been '
    'cut by column.'
)

EXPLANATION += (
    ' Round 3: the CPM divisor replaces zero totals only (never a clamp '
    'from below).'
)

EXPLANATION += (
    ' Round 5: the declared normalization and the other settings are forwarded at every call (R-FWD/parameter-forwarded).'
)

EXPLANATION += (
    ' Round 6: computed values are not cast to, or stored in place into, the element type of the raw data (R-DTYPE).'
)

EXPLANATION += (
    ' Round 7: validation chooses its integer type from the np.round-ed extremes against both bounds (R-ARITH/int-width, rule of C16); gene columns are selected by a name-derived fancy index.'
)

EXPLANATION += (
    ' Round 8: sparse rows are densified by column index, not by position (R-SAMEVAL/placed-by-index, rule of C05).'
)

EXPLANATION += (
    ' convert_to_cpm returns 10^6 * data / row total on every path and both conversions take log2 of 1 + that (R-ARITH/cpm).'
)

EXPLANATION += (
    ' Round 10: the chunk size handed to the row readers does not depend on the number of gene columns (R-PROV/chunking-independent-of-genes).'
)

EXPLANATION += (
    ' Round 11: the declared normalization reaches the election exactly as configured (R-FWD/config-as-requested); row totals are accumulated in a widened type (R-CAP/row-total-accumulator).'
)

EXPLANATION += (
    ' Round 13: rounding quotients count whole windows only (R-TILE/whole-axis).'
)

EXPLANATION += (
    ' Round 14: arrays cut by one window are never reordered separately (R-PERM/parallel-windows-in-step).'
)

EXPLANATION += (
    ' Round 15: columns gathered by position and their names come from one selection (R-ROLE/columns-and-names-together).'
)

RULE_TEXT = (
    "one obligation per dominance / typestate / provenance relation named "
    "above")

ASSUMPTIONS = [
    "the non-negativity probe inspects the layer the mapper reads (X)",
    "necessary conditions only",
]


def check(ctx):
    check_negative_rejected(ctx)
    check_probe(ctx)
    check_typestate(ctx)
    check_class_guard(ctx)
    check_columns_by_name(ctx)
    db = ctx.db
    # index spaces of the cache: shared rule with C08
    for q in ('type_assignment.election:run_type_assignment_on_h5ad_cpu',
              'type_assignment.matching:assemble_query_data'):
        R.check_reader_roles(ctx, db.fn(q))
    w = db.fn('type_assignment.marker_cache_v2:write_query_markers_to_h5')
    R.check_writer_roles(ctx, w)
    R.check_cosort(ctx, w)
    check_cpm_denominator(ctx)
    check_cpm_formula(ctx)
    check_chunking_ignores_gene_axis(ctx)
    # the declared normalisation reaches the election as declared
    from ..rules.forwarding import check_config_settings_as_requested
    if check_config_settings_as_requested(ctx, {'normalization'}) < 1:
        raise AnalysisError('_run_mapping: normalization is not handed to '
                            'the election by keyword')
    # the non-negativity probe scans the whole matrix: its chunked loops
    # tile both axes exactly (shared with C05 / C16)
    from .C05 import check_tiles
    check_tiles(ctx, ('validation.utils',), floor=8)
    # settings this property depends on are handed down every call
    # chain, never left to a callee's default (sa/rules/forwarding.py)
    # negative values survive validation as negative values: the integer
    # type is chosen from the rounded extremes (rule of C16)
    # gene order invariance for sparse queries: stored values are placed
    # by their column index (rule of C05)
    from .C05 import check_placed_by_column_index
    check_placed_by_column_index(ctx)
    from .C16 import check_int_width
    check_int_width(ctx)
    # computed values are not forced back into the element type of the
    # raw data (sa/rules/idioms.py, R-DTYPE)
    from ..rules.idioms import (check_narrowing_cast,
                                check_inplace_float_store)
    n_dt = 0
    for fi_ in ctx.db.iter_functions():
        if fi_.module.short.startswith(('cell_by_gene.', 'type_assignment.matching', 'type_assignment.election')):
            n_dt += check_narrowing_cast(ctx, fi_)
            n_dt += check_inplace_float_store(ctx, fi_)
    ctx.ok('R-DTYPE/scan', 'normalisation and statistics modules', 'package',
           'no computed value is cast to, or stored in place into, the '
           'element type of the raw data', nontrivial=False)
    from ..rules.forwarding import check_forwarding
    check_forwarding(ctx, {'normalization'})


def check_negative_rejected(ctx):
    db = ctx.db
    fi = db.fn('type_assignment.election_runner:run_type_assignment_on_h5ad')
    ctx.touch(fi)
    cfg = cfg_of(fi)
    rd = rd_of(fi)
    ex = Expander(fi)
    rule = 'R-MUST/negative-raw-rejected'

    def assume(e, env):
        if isinstance(e, ast.Compare) and len(e.ops) == 1 and isinstance(
                e.left, ast.Name) and e.left.id == 'normalization' \
                and isinstance(e.comparators[0], ast.Constant):
            v = e.comparators[0].value
            if isinstance(e.ops[0], ast.Eq):
                return v == 'raw'
            if isinstance(e.ops[0], ast.NotEq):
                return v != 'raw'
        if isinstance(e, ast.Compare) and len(e.ops) == 1 and isinstance(
                e.left, ast.Name) and e.left.id == 'normalization' \
                and isinstance(e.ops[0], (ast.In, ast.NotIn)):
            return isinstance(e.ops[0], ast.In)
        return UNKNOWN
    feas = feasible(fi, assume, follow_exc=False)
    probe = db.fn('validation.utils:is_data_ge_zero')
    probes = []
    dispatch = []
    for nid in feas.nodes:
        node = cfg.nodes[nid]
        for c in cfg.calls_in(node):
            t = resolve_callee(db, fi, c)
            if t is probe:
                probes.append((node, c))
            if isinstance(t, FunctionInfo) and t.name.startswith(
                    'run_type_assignment_on_h5ad_'):
                dispatch.append((node, c))
            elif isinstance(c.func, ast.Name) and c.func.id.startswith(
                    'run_type_assignment_on_h5ad_'):
                dispatch.append((node, c))
    if not dispatch:
        raise AnalysisError('dispatch to the CPU/GPU election not found')
    if not probes:
        ctx.fail(rule, 'runner:probe', fi.loc(),
                 "with normalization == 'raw' the data is never checked "
                 'for negative values before logarithms are taken')
        return
    pn = {n.id for (n, c) in probes}
    for (dn, dc) in dispatch:
        p = cfg.path(cfg.entry, {dn.id}, avoid=lambda n: n.id in pn,
                     edge_ok=lambda a, b, lab: (a, b, lab) in feas.edges)
        ctx.ob(rule, f'runner:{unparse(dc.func)}', fi.loc(dc), p is None,
               'every raw-input path to the dispatch passes the '
               'non-negativity probe' if p is None else
               "a path with normalization == 'raw' reaches the election "
               'without the non-negativity probe',
               witness=cfg.fmt_path(p) if p else None)
    for (n, c) in probes:
        mapping, _ = bind_args(probe, c)
        t = ex.expand(mapping.get('h5ad_path'), n.id)
        ok = t == ('param', 'query_h5ad_path')
        ctx.ob(rule, 'runner:probe-file', fi.loc(c), ok,
               'the probe reads the query file that is mapped' if ok else
               f'the probe reads {fmt_term(t)[:60]}, not the query file')
        lay = mapping.get('layer')
        okl = lay is None or (isinstance(lay, ast.Constant)
                              and lay.value == 'X')
        ctx.ob(rule, 'runner:probe-layer', fi.loc(c), okl,
               'the probe inspects X, the layer that is mapped' if okl
               else f'the probe inspects layer {unparse(lay)}')
    # the verdict is acted upon: a test of position 0 of the verdict whose
    # failing branch raises on both arms
    A.check_error_raises(ctx)
    n = A.check_arms(ctx, fi)
    acted = False
    for node in cfg.nodes:
        if node.kind == 'if' and node.id in feas.nodes:
            tt = ex.expand(node.ast.test, node.id)
            if T.has_call(tt, 'is_data_ge_zero'):
                neg_edge = 'true' if tt[0] == 'unop' else 'false'
                for (t_, lab) in cfg.succ[node.id]:
                    if lab == neg_edge:
                        okp, _p = cfg.must_pass(
                            t_, {cfg.exit},
                            lambda x: x.kind == 'raise' or any(
                                isinstance(c.func, ast.Attribute)
                                and c.func.attr == 'error'
                                for c in cfg.calls_in(x)),
                            edge_ok=lambda a, b, lab2: lab2 != 'exc')
                        acted = acted or okp
    ctx.ob(rule, 'runner:verdict-raises', fi.loc(), acted,
           'a negative verdict raises' if acted else
           'the verdict of the non-negativity probe is not turned into an '
           'error')


def check_probe(ctx):
    """is_data_ge_zero says False when the measured minimum is negative"""
    db = ctx.db
    fi = db.fn('validation.utils:is_data_ge_zero')
    ctx.touch(fi)
    cfg = cfg_of(fi)
    rd = rd_of(fi)
    rule = 'R-MUST/probe-verdict'
    ok = False
    for n in cfg.nodes:
        if n.kind == 'if' and n.id in rd.live:
            t = n.ast.test
            if isinstance(t, ast.Compare) and len(t.ops) == 1 \
                    and isinstance(t.ops[0], ast.Lt) and isinstance(
                        t.comparators[0], ast.Constant) \
                    and t.comparators[0].value == 0:
                sl = backward_slice(fi, t.left, n.id)
                if not sl.has_call('get_minmax_x_from_h5ad'):
                    continue
                for (tt, lab) in cfg.succ[n.id]:
                    if lab == 'true' and cfg.nodes[tt].kind == 'return':
                        v = cfg.nodes[tt].ast.value
                        if isinstance(v, ast.Tuple) and isinstance(
                                v.elts[0], ast.Constant) \
                                and v.elts[0].value is False:
                            ok = True
    ctx.ob(rule, 'is_data_ge_zero:negative', fi.loc(), ok,
           'a negative minimum yields the verdict False' if ok else
           'is_data_ge_zero no longer returns False for a negative '
           'minimum of the measured data')
    # shortcuts may only say True for unsigned integer storage
    for n in cfg.nodes:
        if n.kind == 'return' and n.id in rd.live and isinstance(
                n.ast.value, ast.Tuple) and isinstance(
                    n.ast.value.elts[0], ast.Constant) \
                and n.ast.value.elts[0].value is True:
            # a True verdict: either after the `< 0` test failed, or
            # under an iinfo.min >= 0 guard
            guarded = False
            for g in cfg.nodes:
                if g.kind == 'if' and g.id in rd.live:
                    txt = unparse(g.ast.test)
                    if ('iinfo' in txt or '.min' in txt) and '>= 0' in txt:
                        for (tt, lab) in cfg.succ[g.id]:
                            if lab == 'true' and (tt == n.id or
                                                  cfg.dominates(tt, n.id)):
                                guarded = True
                    if isinstance(g.ast.test, ast.Compare) and isinstance(
                            g.ast.test.ops[0], ast.Lt):
                        for (tt, lab) in cfg.succ[g.id]:
                            if lab == 'false' and (
                                    tt == n.id or cfg.dominates(tt, n.id)):
                                guarded = True
            ctx.ob(rule, f'is_data_ge_zero:true@{unparse(n.ast)[:30]}',
                   fi.loc(n.ast), guarded,
                   'a True verdict is justified by the integer type or by '
                   'the measured minimum' if guarded else
                   '`return True, ...` is reachable without a test of the '
                   'minimum or of the unsigned integer type')


# ----------------------------------------------------------------------

SITES = [('type_assignment.election:run_type_assignment_on_h5ad_cpu',
          True),
         ('diff_exp.precompute_from_anndata:_process_chunk', False)]


def _method_calls(cfg, rd, var, names):
    out = []
    for n in cfg.nodes:
        if n.id not in rd.live:
            continue
        for c in cfg.calls_in(n):
            f = c.func
            if isinstance(f, ast.Attribute) and f.attr in names \
                    and isinstance(f.value, ast.Name) and f.value.id == var:
                out.append((n, c))
    return out


def _column_gather(t):
    """a sub-term `X[rows, cols]` whose column part is not the full
    slice, anywhere in t; None if there is none"""
    full = ('slice', ('const', 'None'), ('const', 'None'),
            ('const', 'None'))
    stack = [t]
    seen = 0
    while stack and seen < 20000:
        x = stack.pop()
        seen += 1
        if not isinstance(x, (tuple, frozenset)):
            continue
        if isinstance(x, tuple) and len(x) == 3 and x[0] == 'sub' \
                and isinstance(x[2], tuple) and x[2] and x[2][0] == 'tuple' \
                and len(x[2][1]) == 2 and x[2][1][1] != full:
            return x[2][1][1]
        for y in x:
            if isinstance(y, (tuple, frozenset)):
                stack.append(y)
    return None


def check_typestate(ctx):
    db = ctx.db
    rule = 'R-TYPESTATE/normalise-before-select'
    for (q, is_dispatcher) in SITES:
        fi = db.fn(q)
        ctx.touch(fi)
        cfg = cfg_of(fi)
        rd = rd_of(fi)
        ex = Expander(fi)
        # variables bound to CellByGeneMatrix(...)
        vars_ = set()
        for d in rd.defs:
            if d.kind == 'assign' and isinstance(d.value, ast.Call) \
                    and unparse(d.value.func) == 'CellByGeneMatrix':
                vars_.add(d.name)
        if not vars_:
            raise AnalysisError(f'{q}: no CellByGeneMatrix variable')
        # the matrix that is normalised holds every gene of the cell: the
        # array handed to the constructor is not cut by column first (the
        # CPM denominator is the sum over all genes of the file; the
        # class's own guard only knows about its own down-selection)
        for n_ in cfg.nodes:
            if n_.id not in rd.live:
                continue
            for c_ in cfg.calls_in(n_):
                if unparse(c_.func) != 'CellByGeneMatrix':
                    continue
                for kw in c_.keywords:
                    if kw.arg != 'data':
                        continue
                    t_ = ex.expand(kw.value, n_.id)
                    cut = _column_gather(t_)
                    ctx.ob('R-TYPESTATE/all-genes-normalised',
                           f'{fi.qual}:CellByGeneMatrix(data=)',
                           fi.loc(c_), cut is None,
                           'the array that is normalised keeps every gene '
                           'column of the chunk' if cut is None else
                           'the array handed to CellByGeneMatrix has '
                           f'already lost columns ({fmt_term(cut)[:60]}): '
                           'raw counts are converted to CPM over the '
                           'remaining genes only, so a raw query and its '
                           'log2(CPM+1) form no longer map alike')
        for v in sorted(vars_):
            conv = _method_calls(cfg, rd, v, ('to_log2CPM_in_place',
                                              'to_log2CPM'))
            sel = _method_calls(cfg, rd, v, ('downsample_genes_in_place',
                                             'downsample_genes'))
            key = f'{fi.qual}:{v}'
            bad = None
            for (sn, sc) in sel:
                reach = cfg.reachable(sn.id) - {sn.id}
                # the object must be the same one: no re-construction in
                # between
                ctor_nodes = {d.node for d in rd.defs if d.name == v
                              and d.kind == 'assign' and isinstance(
                                  d.value, ast.Call)
                              and unparse(d.value.func)
                              == 'CellByGeneMatrix'}
                for (cn, cc) in conv:
                    if cn.id in reach:
                        p = cfg.path(sn.id, {cn.id},
                                     avoid=lambda n: n.id in ctor_nodes)
                        if p is not None:
                            bad = (sn, cn, p)
            if bad:
                ctx.fail(rule, key, fi.loc(bad[1].ast),
                         f'`{v}` can be converted to log2(CPM+1) '
                         f'(L{bad[1].lineno}) after it was down-selected '
                         f'by gene (L{bad[0].lineno}): CPM would be '
                         'computed on the marker genes only',
                         witness=cfg.fmt_path(bad[2]))
            else:
                ctx.ok(rule, key, fi.loc(),
                       f'no conversion of `{v}` is reachable from a gene '
                       f'down-selection ({len(conv)} conversion(s), '
                       f'{len(sel)} down-selection(s))',
                       nontrivial=bool(conv))
            if not conv:
                ctx.fail(rule + '/converted', key, fi.loc(),
                         f'`{v}` is never converted to log2(CPM+1): raw '
                         'input would be mapped as if normalised')
            else:
                # the conversion is conditional on the normalization only
                for (cn, cc) in conv:
                    guard_ok = False
                    for g in cfg.nodes:
                        if g.kind == 'if' and g.id in rd.live:
                            txt = unparse(g.ast.test)
                            if 'normalization' in txt and 'log2CPM' in txt:
                                for (tt, lab) in cfg.succ[g.id]:
                                    if lab == 'true' and (
                                            tt == cn.id or cfg.dominates(
                                                tt, cn.id)) and '!=' in txt:
                                        guard_ok = True
                    ctx.ob(rule + '/converted', key + ':guard',
                           fi.loc(cc), guard_ok,
                           'converted whenever the data is not already '
                           'log2CPM' if guard_ok else
                           'the conversion is not guarded by '
                           "`normalization != 'log2CPM'`")
            if is_dispatcher:
                # the down-selection to all query markers dominates the
                # spawn, and its argument comes from the cache
                for s in W.find_spawn_sites(db, lambda m: m is fi.module):
                    if s.fi is not fi:
                        continue
                    sp = [n for n in cfg.node_of_expr(s.call)
                          if n.id in rd.live][0]
                    dom = [x for x in sel if cfg.dominates(x[0].id, sp.id)]
                    ctx.ob(rule + '/selected-before-dispatch', key,
                           fi.loc(s.call), bool(dom),
                           'every chunk is reduced to the marker genes '
                           'before it is handed to a worker' if dom else
                           'chunks reach the workers without being '
                           'reduced to the marker genes (extra genes '
                           'would take part in nothing, but the worker '
                           'indexes by marker position)')
                    for (sn, sc) in dom:
                        a = sc.args[0] if sc.args else sc.keywords[0].value
                        sl = backward_slice(fi, a, sn.id)
                        ok = 'all_query_markers' in sl.consts and \
                            'query_gene_names' in sl.consts
                        ctx.ob(rule + '/selected-before-dispatch',
                               key + ':argument', fi.loc(sc), ok,
                               'the genes kept are the cache\'s query '
                               'markers, by name' if ok else
                               'the genes kept are not the named query '
                               'markers of the cache')


def check_class_guard(ctx):
    db = ctx.db
    ci = db.cls('cell_by_gene.cell_by_gene:CellByGeneMatrix')
    rule = 'R-TYPESTATE/class-guard'
    for mname in ('to_log2CPM', 'to_log2CPM_in_place'):
        m = db.find_method(ci, mname)
        if m is None:
            raise AnalysisError(f'CellByGeneMatrix.{mname} not found')
        ctx.touch(m)
        cfg = cfg_of(m)
        rd = rd_of(m)
        guards = []
        for n in cfg.nodes:
            if n.kind == 'if' and n.id in rd.live and \
                    '_genes_downsampled' in unparse(n.ast.test):
                raises = any(lab == 'true' and cfg.nodes[tt].kind == 'raise'
                             for (tt, lab) in cfg.succ[n.id])
                guards.append((n, raises))
        convs = [n for n in cfg.nodes if n.id in rd.live and any(
            unparse(c.func) == 'convert_to_cpm' for c in cfg.calls_in(n))]
        ok = bool(guards) and all(g[1] for g in guards) and bool(convs) \
            and all(any(lab == 'false' and (tt == c.id or cfg.dominates(
                tt, c.id)) for g in guards
                for (tt, lab) in cfg.succ[g[0].id]) for c in convs)
        ctx.ob(rule, f'CellByGeneMatrix.{mname}', m.loc(), ok,
               'refuses to normalise a matrix already down-selected by '
               'gene' if ok else
               f'{mname} no longer raises for a gene-down-selected matrix '
               'before converting to CPM')
    for mname in ('downsample_genes', 'downsample_genes_in_place'):
        m = db.find_method(ci, mname)
        ctx.touch(m)
        sets = any(isinstance(n, ast.Assign) and any(
            isinstance(t, ast.Attribute) and t.attr == '_genes_downsampled'
            for t in n.targets) and isinstance(n.value, ast.Constant)
            and n.value.value is True for n in ast.walk(m.node))
        ctx.ob(rule, f'CellByGeneMatrix.{mname}', m.loc(), sets,
               'marks the result as gene-down-selected' if sets else
               f'{mname} no longer sets _genes_downsampled: the guard in '
               'to_log2CPM* can never fire')


def check_columns_by_name(ctx):
    db = ctx.db
    ci = db.cls('cell_by_gene.cell_by_gene:CellByGeneMatrix')
    m = db.find_method(ci, '_downsample_genes')
    ctx.touch(m)
    cfg = cfg_of(m)
    rd = rd_of(m)
    rule = 'R-ROLE/columns-by-name'
    for r in [n for n in cfg.nodes if n.kind == 'return'
              and n.id in rd.live]:
        v = r.ast.value
        ok = False
        detail = unparse(v)[:60]
        if isinstance(v, ast.Subscript) and isinstance(v.slice, ast.Tuple) \
                and len(v.slice.elts) == 2 and isinstance(
                    v.slice.elts[0], ast.Slice):
            sl = backward_slice(m, v.slice.elts[1], r.id)
            # a fancy index: the array of columns itself, one per
            # requested name and in the order requested -- not a range
            # between two of its elements
            ok = sl.has_attr('gene_to_col') and 'selected_genes' in \
                sl.params and not isinstance(v.slice.elts[1], ast.Slice)
        ctx.ob(rule, 'CellByGeneMatrix._downsample_genes', m.loc(v), ok,
               'columns are selected through gene_to_col[name] for the '
               'names requested' if ok else
               f'`{detail}` does not select columns through the '
               'name -> column map of this matrix: the selection depends '
               'on the column order of the file')
    g = db.find_method(ci, '_create_gene_to_col')
    ctx.touch(g)
    ok = False
    for n in ast.walk(g.node):
        if isinstance(n, ast.DictComp) and isinstance(
                n.generators[0].iter, ast.Call) and unparse(
                    n.generators[0].iter.func) == 'enumerate':
            it = unparse(n.generators[0].iter.args[0])
            tgt = n.generators[0].target
            if 'gene_identifiers' in it and isinstance(tgt, ast.Tuple) \
                    and unparse(n.key) == unparse(tgt.elts[1]) \
                    and unparse(n.value) == unparse(tgt.elts[0]):
                ok = True
    ctx.ob(rule, 'CellByGeneMatrix._create_gene_to_col', g.loc(), ok,
           'gene_to_col maps each of the matrix\'s own gene identifiers '
           'to its column' if ok else
           'gene_to_col is not {name: position} over the matrix\'s own '
           'gene identifiers')
    # the map is rebuilt after an in-place down-selection
    ip = db.find_method(ci, 'downsample_genes_in_place')
    calls = [unparse(c.func) for c in ast.walk(ip.node)
             if isinstance(c, ast.Call)]
    ok = 'self._create_gene_to_col' in calls
    ctx.ob(rule, 'CellByGeneMatrix.downsample_genes_in_place', ip.loc(),
           ok, 'the name -> column map is rebuilt after the selection'
           if ok else
           'after an in-place down-selection the name -> column map is '
           'stale')


def check_cpm_denominator(ctx):
    """CPM divides every cell by its own total; the only cells whose
    divisor may be replaced are those whose total is zero.  A divisor
    obtained by clamping the totals from below (maximum / clip / clamp)
    leaves every cell with 0 < total < bound un-normalised, so the result
    depends on the scale of the counts."""
    db = ctx.db
    fi = db.fn('cell_by_gene.utils:convert_to_cpm')
    ctx.touch(fi)
    cfg = cfg_of(fi)
    rd = rd_of(fi)
    rule = 'R-IDIOM/cpm-denominator'
    n = 0
    for e in ast.walk(fi.node):
        if not (isinstance(e, ast.BinOp) and isinstance(e.op, ast.Div)):
            continue
        ns = [x for x in cfg.node_of_expr(e) if x.id in rd.live]
        if not ns:
            continue
        sl = backward_slice(fi, e.right, ns[0].id)
        if not sl.has_call('sum'):
            continue
        n += 1
        clamps = sl.call_names() & {'maximum', 'clip', 'clamp', 'fmax',
                                    'max'}
        ok = not clamps
        ctx.ob(rule, f'{fi.qual}:div#{n - 1}', fi.loc(e), ok,
               'cells are divided by their own total; only zero totals '
               'are replaced' if ok else
               f'the divisor of `{unparse(e)[:50]}` is built with '
               f'{sorted(clamps)}: totals '
               'between 0 and the bound are not normalised, so scaling a '
               'raw cell changes its CPM')
    if n == 0:
        raise AnalysisError('convert_to_cpm: no division by the row sums '
                            'found')


def check_cpm_formula(ctx, rule='R-ARITH/cpm'):
    """every return of convert_to_cpm is, as a rational function of the
    data and of its row totals,  10^6 * data / total  (transpositions,
    which only line the totals up with the rows, and the replacement of
    zero totals looked through); both log2(CPM+1) conversions of the
    matrix class take log2 of exactly  1 + convert_to_cpm(data).  Any other
    degree in the data (a total that is squared, a constant that is
    added before dividing) makes the result depend on the scale of the
    counts."""
    from ..core import poly as P
    db = ctx.db
    fi = db.fn('cell_by_gene.utils:convert_to_cpm')
    ctx.touch(fi)
    cfg = cfg_of(fi)
    rd = rd_of(fi)
    ex = Expander(fi)
    DATA = P.atom(('param', 'data'))
    TOT = P.atom(('ROWSUM',))

    def atoms(t):
        if not (isinstance(t, tuple) and t):
            return None
        if t[0] == 'call':
            nm = T.call_name(t)
            if nm in ('transpose', 't'):
                inner = T.call_receiver(t)
                if nm == 't' or inner is None or (
                        isinstance(inner, tuple) and inner[0] == 'name'):
                    inner = t[2][0] if t[2] else inner
                return _poly_or_none(inner)
            if nm == 'sum' and t[2] and t[2][0] == ('param', 'data'):
                return TOT
            if nm == 'sum' and T.call_receiver(t) == ('param', 'data'):
                return TOT
            # np.einsum('ij->i', data) is the row total as well (how it
            # accumulates is judged separately below)
            if nm == 'einsum' and len(t[2]) == 2 and t[2][0] == (
                    'const', "'ij->i'") and t[2][1] == ('param', 'data'):
                return TOT
        return None

    def _poly_or_none(inner):
        try:
            return P.poly(inner, atoms)
        except P.NotPolynomial:
            return None
    want = (P._mul(P.const(10 ** 6), DATA), TOT)
    n = 0
    for r in cfg.nodes:
        if r.kind != 'return' or r.id not in rd.live \
                or r.ast.value is None:
            continue
        t = ex.expand(r.ast.value, r.id)
        n += 1
        try:
            got = _ratio_through(t, atoms, P)
            ok = P.same_ratio(got, want)
        except P.NotPolynomial:
            ok = False
        ctx.ob(rule, f'{fi.qual}:return#{n - 1}', fi.loc(r.ast), ok,
               'counts per million: 10^6 * data / row total' if ok else
               f'convert_to_cpm returns {fmt_term(t)[:100]}, which is not '
               '10^6 * data / (row total)')
    if n < 1:
        raise AnalysisError('convert_to_cpm: no return found')
    # the totals are accumulated wider than the counts: np.sum / x.sum
    # promote narrow integers to the platform integer, einsum and
    # reductions given `dtype=` of the data accumulate in the type of the
    # counts and wrap around for deep cells stored as uint8 / uint16
    k = 0
    for c in ast.walk(fi.node):
        if not isinstance(c, ast.Call):
            continue
        f = c.func
        nm = f.attr if isinstance(f, ast.Attribute) else getattr(
            f, 'id', None)
        reduces = nm in ('sum', 'einsum', 'reduce', 'add', 'nansum',
                         'cumsum') and any(
            isinstance(x, ast.Name) and x.id == 'data'
            for x in ast.walk(c))
        if not reduces:
            continue
        k += 1
        narrow = nm in ('einsum', 'reduce') or any(
            kw.arg == 'dtype' and any(
                isinstance(x, ast.Attribute) and x.attr == 'dtype'
                for x in ast.walk(kw.value)) for kw in c.keywords)
        ctx.ob('R-CAP/row-total-accumulator', f'{fi.qual}:total#{k - 1}',
               fi.loc(c), not narrow,
               'row totals are accumulated by sum() in a widened type'
               if not narrow else
               f'`{unparse(c)[:50]}` accumulates the row totals in the '
               'element type of the counts: for counts stored as uint8 / '
               'uint16 the total of a deep cell wraps around and its CPM '
               'profile is wrong')
    if k < 1:
        raise AnalysisError('convert_to_cpm: no row total found')
    ci = db.cls('cell_by_gene.cell_by_gene:CellByGeneMatrix')
    m = 0
    for mname in ('to_log2CPM', 'to_log2CPM_in_place'):
        f2 = ci.methods.get(mname)
        if f2 is None:
            raise AnalysisError(f'CellByGeneMatrix.{mname} not found')
        ctx.touch(f2)
        for c in ast.walk(f2.node):
            if isinstance(c, ast.Call) and isinstance(
                    c.func, ast.Attribute) and c.func.attr == 'log2':
                m += 1
                a = c.args[0] if c.args else None
                ok = False
                if isinstance(a, ast.BinOp) and isinstance(a.op, ast.Add):
                    sides = [a.left, a.right]
                    one = [x for x in sides if isinstance(
                        x, ast.Constant) and x.value == 1]
                    cpm = [x for x in sides if isinstance(x, ast.Call)
                           and getattr(x.func, 'id', getattr(
                               x.func, 'attr', None)) == 'convert_to_cpm'
                           and len(x.args) == 1 and unparse(
                               x.args[0]) in ('self.data', 'self._data')]
                    ok = len(one) == 1 and len(cpm) == 1
                ctx.ob(rule, f'{f2.qual}:log2#{m - 1}', f2.loc(c), ok,
                       'log2(1 + CPM) of the matrix\'s own data' if ok else
                       f'`{unparse(c)[:70]}` is not log2(1 + '
                       'convert_to_cpm(self.data))')
    if m < 2:
        raise AnalysisError('the log2(CPM+1) conversions were not found')


def _ratio_through(t, atoms, P):
    """ratio() that looks through transpositions at the top as well"""
    while isinstance(t, tuple) and t and t[0] == 'call' and T.call_name(
            t) in ('transpose', 't'):
        rc = T.call_receiver(t)
        if T.call_name(t) == 't' or rc is None or (
                isinstance(rc, tuple) and rc and rc[0] == 'name'):
            t = t[2][0]
        else:
            t = rc
    if isinstance(t, tuple) and t and t[0] == 'binop' and t[1] in (
            'Mult', 'Div'):
        a = _ratio_through(t[2], atoms, P)
        b = _ratio_through(t[3], atoms, P)
        if t[1] == 'Mult':
            return P._mul(a[0], b[0]), P._mul(a[1], b[1])
        return P._mul(a[0], b[1]), P._mul(a[1], b[0])
    t = P.strip_guard(t)
    return P.ratio(t, atoms)


def check_chunking_ignores_gene_axis(
        ctx, rule='R-PROV/chunking-independent-of-genes'):
    """each chunk of query cells gets its own random stream, so which
    cells share a chunk decides their bootstrap draws.  For the result to
    be unchanged when non-marker genes are added or removed, the chunk
    size handed to the row readers (and the one the mapping front end
    derives) must not depend on the number of gene columns: the symbolic
    value of every `row_chunk_size=` / `chunk_size=` argument in the row
    iterator's constructor and in the mapping front end contains no
    element 1 of a shape (`shape[1]`, `attrs['shape'][1]`) and no length
    of a gene list."""
    db = ctx.db
    n = 0
    targets = [
        'anndata_iterator.anndata_iterator:AnnDataRowIterator.__init__',
        'anndata_iterator.anndata_iterator:'
        'AnnDataRowIterator._initialize_as_csc',
        'type_assignment.election:run_type_assignment_on_h5ad_cpu']
    for q in targets:
        fi = db.fn(q)
        ctx.touch(fi)
        cfg = cfg_of(fi)
        rd = rd_of(fi)
        ex = Expander(fi)
        for node in cfg.nodes:
            if node.id not in rd.live:
                continue
            for c in cfg.calls_in(node):
                for kw in c.keywords:
                    if kw.arg not in ('row_chunk_size', 'chunk_size',
                                      'rows_at_a_time'):
                        continue
                    t = ex.expand(kw.value, node.id)
                    bad = None
                    for x in T.subterms(t):
                        if not (isinstance(x, tuple) and x):
                            continue
                        if x[0] == 'sub' and x[2] == ('const', '1'):
                            base = x[1]
                            if any(isinstance(y, tuple) and y and (
                                    (y[0] == 'attr' and y[2] == 'shape')
                                    or y == ('const', "'shape'"))
                                    for y in T.subterms(base)):
                                bad = x
                        if x[0] == 'call' and T.call_name(x) == 'len' \
                                and x[2] and any(
                                    isinstance(y, tuple) and y
                                    and y[0] == 'param' and 'gene' in y[1]
                                    for y in T.subterms(x[2][0])):
                            bad = x
                    n += 1
                    ok = bad is None
                    ctx.ob(rule, f'{fi.qual}:{kw.arg}#{n - 1}', fi.loc(c),
                           ok, f'`{kw.arg}` does not depend on the number '
                           'of gene columns' if ok else
                           f'`{kw.arg}={unparse(kw.value)[:30]}` in '
                           f'`{unparse(c.func)}(...)` depends on '
                           f'{fmt_term(bad)[:60]}, the number of gene '
                           'columns: adding non-marker genes to the query '
                           'moves the chunk boundaries, and with them the '
                           'random stream every cell is mapped with')
    if n < 4:
        raise AnalysisError(f'only {n} chunk-size arguments found in the '
                            'row readers')
