"""
C17 -- flattening or dropping a level equals mapping on the reduced
taxonomy.

Decided (DESIGN.md section 5, C17):
 1. single-version use in _run_mapping: after the tree variable is rebound
    by drop_level / flatten, marker reconciliation, election and marker
    report all receive that (latest) tree, and the statistics are read
    through it; back-fill and output metadata use the stored tree (shared
    with C01).
 2. "dropping a level the taxonomy does not contain changes nothing":
    every call drop_level(<the configured drop_level>) in the pipeline is
    dominated by a membership test of that value in the receiver's
    hierarchy; sibling call sites are cross-checked.
 3. flattening rebinds tree and marker table together: under the flatten
    flag the table handed on has the single key 'None' holding the sorted
    union of all groups.
"""
import ast

from ..core.cfg import cfg_of
from ..core.defuse import rd_of, Expander, fmt_term, term_alts
from ..core import terms as T
from ..core.loader import unparse, FunctionInfo, AnalysisError
from ..core.resolve import resolve_callee, bind_args
from .C01 import tree_version_facts, reduced

ID = 'C17'

EXPLANATION = (
    "Static analysis: symbolic expansion of every taxonomy-tree argument in "
    "_run_mapping over reaching definitions shows that the three consumers "
    "(marker cache creation, election, marker serialisation) receive one "
    "identical term which includes the results of drop_level and flatten "
    "(i.e. the latest version of the rebound variable), that no reducer "
    "call is reachable after a consumer, that the election reads its leaf "
    "means through the tree it was given, and that back-fill / embedded "
    "tree derive from the stored tree only. Every pipeline call "
    "drop_level(x) whose x derives from the configured `drop_level` value "
    "is shown to be dominated by the true edge of `x in <receiver>."
    "hierarchy`; the call sites are cross-checked as siblings. Under the "
    "flatten flag the marker table is rebound, in the same branch as the "
    "tree, to {'None': sorted union of all groups}. Decides these "
    "structural conditions, not the equality of two runs' results.")

EXPLANATION += (
    ' Added after the seeded rounds: the back-fill provenance rules of '
    'C01 are evaluated here as well.'
)

EXPLANATION += (
    ' Round 3: node tables keyed by (level, label); zipped lists in '
    'lock-step.'
)

EXPLANATION += (
    ' Round 5: flatten / drop_level and the other settings are forwarded at every call (R-FWD/parameter-forwarded).'
)

EXPLANATION += (
    ' Round 6: a selection call receives parents listed from the very tree it is given (R-SAMEVAL/tree-and-parents).'
)

EXPLANATION += (
    ' Round 7: per-level options written for the full taxonomy are not rejected for naming a dropped level (R-GUARD/lookup-superset-tolerated).'
)

EXPLANATION += (
    ' Round 8: node identity is checked over all taxonomy modules.'
)

EXPLANATION += (
    ' Round 9: the HDF5 codec field map of C15 is shared: per-level fields are stored as found, not recomputed over the output hierarchy.'
)

EXPLANATION += (
    " Round 11: the run's tree is never asked about a node named by the marker table (R-PROV/tree-asked-about-its-own-nodes)."
)

EXPLANATION += (
    ' Round 12: the flatten union runs over the marker table as loaded (R-COVER/flatten-union).'
)

EXPLANATION += (
    ' Round 13: keys the tree validator inspects are maintained by flatten and drop_level (R-AGREE/validator-vs-reducers).'
)

EXPLANATION += (
    ' Round 14: the loop that hands the shared generator to the elections walks a plainly sorted sequence on every path (R-ORDER/elections-in-name-order).'
)

EXPLANATION += (
    " Round 15: the genes handed to downsample_genes in assemble_query_data come from the parent's own cache entry (R-PROV/genes-of-this-parent)."
)

EXPLANATION += (
    " Round 18: the reconciliation rejects only for a parent of the run's tree that lacks markers (R-MUST/rejects-only-missing-parent, rule of C01)."
)

RULE_TEXT = (
    "one obligation per consumer of the tree, per reducer call, per "
    "drop_level(<config>) call site, per flatten rebinding")

ASSUMPTIONS = [
    "term equality under reaching definitions",
    "the configured level reaches the call under the name `drop_level` "
    "(schema key of DropLevelMixin / parameter of the library functions)",
    "necessary conditions only",
]


def check(ctx):
    check_single_version(ctx)
    check_drop_level_guards(ctx)
    check_flatten_rebinding(ctx)
    check_flatten_union_complete(ctx)
    # with a level dropped, the election consults only lists of nodes
    # the reduced tree has (shared with C08)
    from .C08 import check_lists_consulted_follow_tree
    check_lists_consulted_follow_tree(ctx)
    check_stats_through_tree(ctx)
    check_tree_and_parents_agree(ctx)
    check_lookup_superset_tolerated(ctx)
    check_tree_queried_with_own_nodes(ctx)
    check_validator_keys_maintained(ctx)
    check_election_order_by_name(ctx)
    check_genes_of_this_parent(ctx)
    # a marker table that holds more than the reduced tree is not a
    # reason to refuse the run (rule of C01)
    from .C01 import check_reconcile_one_sided
    check_reconcile_one_sided(ctx)
    # the level that was dropped is filled in from the finer assignment by
    # the parent table of *that* level (shared with C01)
    from .C01 import check_backfill
    check_backfill(ctx)
    from .C10 import check_node_identity
    check_node_identity(ctx, ('taxonomy.', 'cli.from_specified_markers'), floor=1)
    # what the election computed for a kept level (and what back-filling
    # copied into a dropped one) reaches every output unchanged: the HDF5
    # writer stores each record key as it finds it, it does not derive one
    # from the others over the *output* hierarchy (codec rule of C15)
    from .C15 import check_record_keys, check_hdf5_codec
    check_hdf5_codec(ctx, check_record_keys(ctx))
    # settings this property depends on are handed down every call
    # chain, never left to a callee's default (sa/rules/forwarding.py)
    from ..rules.forwarding import check_forwarding
    check_forwarding(ctx, {'drop_level', 'flatten'})


def check_single_version(ctx):
    db = ctx.db
    fi, cfg, rd, ex, facts = tree_version_facts(ctx)
    rule = 'R-PROV/latest-tree'
    consumers = [
        'type_assignment.marker_cache_v2:'
        'create_marker_cache_from_specified_markers',
        'type_assignment.election_runner:run_type_assignment_on_h5ad',
        'type_assignment.marker_cache_v2:serialize_markers']
    # reducer calls in this frame
    reducers = []
    for node in cfg.nodes:
        if node.id not in rd.live:
            continue
        for c in cfg.calls_in(node):
            if isinstance(c.func, ast.Attribute) and c.func.attr in (
                    'drop_level', 'flatten'):
                t = resolve_callee(db, fi, c)
                if isinstance(t, FunctionInfo) and t.cls is not None \
                        and t.cls.name == 'TaxonomyTree':
                    reducers.append((node, c, c.func.attr))
    kinds = {k for (_n, _c, k) in reducers}
    ctx.ob(rule + '/reducers', '_run_mapping:reducers', fi.loc(),
           kinds == {'drop_level', 'flatten'},
           'both reductions (drop_level, flatten) are applied in '
           '_run_mapping' if kinds == {'drop_level', 'flatten'} else
           f'_run_mapping applies only {sorted(kinds)} to the tree')
    ref = None
    for q in consumers:
        got = facts.get(('arg', q), [])
        if not got:
            ctx.fail(rule, f'_run_mapping:{q.split(":")[1]}', fi.loc(),
                     f'{q.split(":")[1]} is not called with a '
                     'taxonomy_tree')
            continue
        for (c, t) in got:
            name = q.split(':')[1]
            has = {k for k in kinds if T.has_call(t, k)}
            node = [n for n in cfg.node_of_expr(c) if n.id in rd.live][0]
            later = [r for r in reducers
                     if r[0].id in cfg.reachable(node.id)
                     and r[0].id != node.id]
            ok = (has == kinds) and not later
            if ref is None:
                ref = t
            same = (t == ref)
            detail = 'receives the tree after every reduction'
            if has != kinds:
                detail = (f'{name} receives a tree that cannot be the '
                          f'result of {sorted(kinds - has)}: '
                          f'{fmt_term(t)[:160]}')
            elif later:
                detail = (f'the tree is reduced again '
                          f'(L{later[0][0].lineno}) after {name} used it')
            elif not same:
                detail = (f'{name} receives a different tree version than '
                          'the other consumers')
            ctx.ob(rule, f'_run_mapping:{name}', fi.loc(c), ok and same,
                   detail)
    # stored tree for back-fill / output (same facts as C01 item 4)
    recv = facts.get(('recv', 'taxonomy.taxonomy_tree:'
                      'TaxonomyTree.backfill_assignments'), [])
    for (c, t) in recv:
        ok = not reduced(t) and (T.has_call(t, 'from_str') or T.has_call(
            t, 'from_precomputed_stats'))
        ctx.ob('R-PROV/stored-tree', '_run_mapping:backfill-receiver',
               fi.loc(c), ok,
               'missing levels are inferred from the stored tree' if ok
               else 'missing levels are inferred from a reduced tree: '
               + fmt_term(t)[:160])
    if not recv:
        ctx.fail('R-PROV/stored-tree', '_run_mapping:backfill-receiver',
                 fi.loc(), 'backfill_assignments is never called')


def _derives_from_drop_level_config(term):
    """the value is config['drop_level'] / self.args['drop_level'] / a
    parameter named drop_level"""
    for x in T.subterms(term):
        if x == ('param', 'drop_level'):
            return True
        if x[0] == 'sub' and x[2] == ('const', "'drop_level'"):
            return True
    return False


def check_drop_level_guards(ctx):
    db = ctx.db
    rule = 'R-GUARD/drop-level-membership'
    ctx.floor(rule, 4)
    sites = []
    for fi in db.iter_functions(
            lambda m: not m.short.startswith(('gpu_utils', 'corr'))):
        for n in ast.walk(fi.node):
            if isinstance(n, ast.Call) and isinstance(
                    n.func, ast.Attribute) and n.func.attr == 'drop_level':
                t = resolve_callee(db, fi, n)
                if isinstance(t, FunctionInfo) and t.cls is not None \
                        and t.cls.name == 'TaxonomyTree' and n.args:
                    sites.append((fi, n))
                elif isinstance(t, tuple) and t[0] == 'method' and n.args:
                    sites.append((fi, n))
    guarded = 0
    results = []
    for fi, call in sites:
        cfg = cfg_of(fi)
        rd = rd_of(fi)
        ex = Expander(fi)
        nodes = [n for n in cfg.node_of_expr(call) if n.id in rd.live]
        if not nodes:
            continue
        node = nodes[0]
        targ = ex.expand(call.args[0], node.id)
        if not _derives_from_drop_level_config(targ):
            continue
        ctx.touch(fi)
        trecv = ex.expand(call.func.value, node.id)
        ok = False
        for n2 in cfg.nodes:
            if n2.kind != 'if' or n2.id not in rd.live:
                continue
            for cmp_ in _membership_tests(n2.ast.test):
                left, right, positive = cmp_
                tl = ex.expand(left, n2.id)
                tr = ex.expand(right, n2.id)
                if tl != targ:
                    continue
                if not (tr[0] == 'attr' and tr[2] == 'hierarchy'
                        and tr[1] == trecv):
                    continue
                edge = 'true' if positive else 'false'
                for (t_, lab) in cfg.succ[n2.id]:
                    if lab == edge and (t_ == node.id
                                        or cfg.dominates(t_, node.id)):
                        ok = True
        results.append((fi, call, ok))
        if ok:
            guarded += 1
    for fi, call, ok in results:
        key = f'{fi.qual}:{unparse(call)}'
        if ok:
            ctx.ok(rule, key, fi.loc(call),
                   'dominated by `<level> in <tree>.hierarchy`')
        else:
            ctx.fail(rule, key, fi.loc(call),
                     f'`{unparse(call)}`: the configured level is dropped '
                     'without first testing that the taxonomy contains it '
                     f'({guarded} of {len(results)} sibling call sites '
                     'make that test); TaxonomyTree._drop_level raises for '
                     'an unknown level, so "dropping a level the taxonomy '
                     'does not contain changes nothing" fails here')


def _membership_tests(test):
    """(left, right, positive) for every `a in b` / `a not in b` that must
    hold for the test to be true (conjuncts only)"""
    out = []
    if isinstance(test, ast.BoolOp) and isinstance(test.op, ast.And):
        for v in test.values:
            out.extend(_membership_tests(v))
    elif isinstance(test, ast.Compare) and len(test.ops) == 1:
        if isinstance(test.ops[0], ast.In):
            out.append((test.left, test.comparators[0], True))
        elif isinstance(test.ops[0], ast.NotIn):
            out.append((test.left, test.comparators[0], False))
    return out


def check_flatten_rebinding(ctx):
    db = ctx.db
    fi = db.fn('cli.from_specified_markers:_run_mapping')
    cfg = cfg_of(fi)
    rd = rd_of(fi)
    ex = Expander(fi)
    rule = 'R-PROV/flatten-markers'
    # the marker_lookup argument of the cache builder
    target = db.fn('type_assignment.marker_cache_v2:'
                   'create_marker_cache_from_specified_markers')
    for node in cfg.nodes:
        if node.id not in rd.live:
            continue
        for c in cfg.calls_in(node):
            if resolve_callee(db, fi, c) is not target:
                continue
            mapping, _ = bind_args(target, c)
            a = mapping.get('marker_lookup')
            tree_a = mapping.get('taxonomy_tree')
            if a is None or tree_a is None:
                ctx.fail(rule, '_run_mapping:marker_lookup', fi.loc(c),
                         'marker cache is built without marker_lookup / '
                         'taxonomy_tree')
                continue
            if not (isinstance(a, ast.Name) and isinstance(tree_a,
                                                           ast.Name)):
                ctx.fail(rule, '_run_mapping:marker_lookup', fi.loc(c),
                         'marker_lookup / taxonomy_tree are not plain '
                         'variables; cannot relate their versions')
                continue
            # definitions reaching here that are made in a flatten branch
            flat_tree = [d for d in rd.reaching(tree_a.id, node.id)
                         if d.kind == 'assign'
                         and isinstance(d.value, ast.Call)
                         and isinstance(d.value.func, ast.Attribute)
                         and d.value.func.attr == 'flatten']
            if not flat_tree:
                ctx.fail(rule, '_run_mapping:flatten', fi.loc(c),
                         'no flattened tree reaches the marker cache '
                         'builder')
                continue
            ok_all = True
            detail = ''
            for dtree in flat_tree:
                # the marker table must be rebound in the same branch
                guard = _controlling_if(dtree.stmt)
                same_branch = [
                    d for d in rd.reaching(a.id, node.id)
                    if d.kind == 'assign' and _controlling_if(
                        d.stmt) is guard and guard is not None]
                if not same_branch:
                    ok_all = False
                    detail = ('the tree is flattened but the marker table '
                              'is not rebound in the same branch')
                    continue
                for dm in same_branch:
                    t = ex.expand(dm.value, dm.node)
                    # {'None': <sorted union>}, as a display or as an
                    # empty table followed by its keyed stores
                    items = _dict_items(dm)
                    shape = (items is not None and len(items) == 1
                             and items[0][0] == 'None')
                    if not shape:
                        ok_all = False
                        detail = ('under flatten the marker table is '
                                  f'{fmt_term(t)[:120]}, not a single '
                                  "'None' group")
                        continue
                    # the value: a list built from a set union over every
                    # key of the table, then sorted
                    vname = items[0][1]
                    sorted_ok = False
                    union_ok = False
                    if isinstance(vname, ast.Name):
                        for (nid, astn, how) in rd.mutations(vname.id):
                            if how == 'sort' and cfg.dominates(nid,
                                                               dm.node):
                                sorted_ok = True
                        tv = ex.expand(vname, dm.node)
                        union_ok = T.has_call(tv, 'union') or T.has_call(
                            tv, 'update')
                        if T.has_call(tv, 'sorted'):
                            sorted_ok = True
                    # (sorting is not required: every consumer turns the
                    # list into a set and the cache writer co-sorts it)
                    if not union_ok:
                        ok_all = False
                        detail = ('the flattened marker list is not the '
                                  'union of all groups')
            ctx.ob(rule, '_run_mapping:flatten', fi.loc(c), ok_all,
                   "under flatten the tree and the marker table are "
                   "rebound together; the table is {'None': union of "
                   "all groups}" if ok_all else detail)


def _dict_items(d):
    """[(constant key, value expression)] of a table defined by a display
    or by an empty creation followed at once by constant-key stores; None
    when it is neither"""
    v = d.value
    if isinstance(v, ast.Dict):
        if all(isinstance(k, ast.Constant) for k in v.keys):
            return [(k.value, x) for k, x in zip(v.keys, v.values)]
        return None
    empty = (isinstance(v, ast.Call) and isinstance(v.func, ast.Name)
             and v.func.id == 'dict' and not v.args and not v.keywords)
    if not empty or d.stmt is None:
        return None
    par = getattr(d.stmt, '_parent', None)
    for field in ('body', 'orelse', 'finalbody'):
        blk = getattr(par, field, None)
        if isinstance(blk, list) and d.stmt in blk:
            out = []
            for st in blk[blk.index(d.stmt) + 1:]:
                if isinstance(st, ast.Assign) and len(st.targets) == 1 \
                        and isinstance(st.targets[0], ast.Subscript) \
                        and isinstance(st.targets[0].value, ast.Name) \
                        and st.targets[0].value.id == d.name \
                        and isinstance(st.targets[0].slice, ast.Constant):
                    out.append((st.targets[0].slice.value, st.value))
                else:
                    break
            return out
    return None


def _controlling_if(stmt):
    p = getattr(stmt, '_parent', None)
    while p is not None and not isinstance(p, (ast.FunctionDef,
                                               ast.AsyncFunctionDef)):
        if isinstance(p, ast.If):
            return p
        p = getattr(p, '_parent', None)
    return None


def check_stats_through_tree(ctx):
    """the election reads leaf statistics through the tree it was given"""
    db = ctx.db
    fi = db.fn('type_assignment.election:run_type_assignment_on_h5ad_cpu')
    ctx.touch(fi)
    cfg = cfg_of(fi)
    rd = rd_of(fi)
    ex = Expander(fi)
    rule = 'R-SAMEVAL/stats-through-tree'
    glm = db.fn('type_assignment.matching:get_leaf_means')
    found = False
    for node in cfg.nodes:
        if node.id not in rd.live:
            continue
        for c in cfg.calls_in(node):
            if resolve_callee(db, fi, c) is glm:
                found = True
                mapping, _ = bind_args(glm, c)
                t = ex.expand(mapping.get('taxonomy_tree'), node.id)
                p = ex.expand(mapping.get('precompute_path'), node.id)
                ok = (t == ('param', 'taxonomy_tree')
                      and p == ('param', 'precomputed_stats_path'))
                ctx.ob(rule, 'election:get_leaf_means', fi.loc(c), ok,
                       'leaf means are read through the tree the election '
                       'was given' if ok else
                       'leaf means are read with '
                       f'taxonomy_tree={fmt_term(t)[:80]}, '
                       f'precompute_path={fmt_term(p)[:80]}')
    if not found:
        ctx.fail(rule, 'election:get_leaf_means', fi.loc(),
                 'get_leaf_means is not called by the dispatcher')
    # and every worker receives that same tree and matrix
    from ..rules import workers as W
    for s in W.find_spawn_sites(db, lambda m: m is fi.module):
        if s.fi is not fi or s.kwargs is None:
            continue
        node = [n for n in cfg.node_of_expr(s.call) if n.id in rd.live][0]
        a = s.kwargs.get('taxonomy_tree')
        t = ex.expand(a, node.id) if a is not None else None
        ok = t == ('param', 'taxonomy_tree')
        ctx.ob(rule, 'election:worker-tree', fi.loc(s.call), ok,
               'workers receive the tree the election was given' if ok
               else f'workers receive taxonomy_tree={fmt_term(t)[:80]}')
        lm = s.kwargs.get('leaf_node_matrix')
        tl = ex.expand(lm, node.id) if lm is not None else ('const', 'None')
        ok = T.call_name(tl) == 'get_leaf_means'
        ctx.ob(rule, 'election:worker-leaf-means', fi.loc(s.call), ok,
               'workers receive the leaf means read through that tree'
               if ok else
               f'workers receive leaf_node_matrix={fmt_term(tl)[:80]}')


def check_flatten_union_complete(ctx):
    """under flatten the single 'None' group is the union of the marker
    lists of *every* parent of the table: the loop that builds the union
    may leave out the bookkeeping keys (compared with string constants:
    'log', 'metadata') and nothing else.  A list that is skipped for any
    other reason loses the genes that only it names, and the flat mapping
    no longer uses the markers the table provides."""
    from ..rules import coverage as CV
    db = ctx.db
    fi = db.fn('cli.from_specified_markers:_run_mapping')
    rule = 'R-COVER/flatten-union'
    cfg = cfg_of(fi)
    loops = []
    for n in ast.walk(fi.node):
        if isinstance(n, ast.For) and isinstance(n.target, ast.Name):
            for c in ast.walk(n):
                if isinstance(c, ast.Call) and isinstance(
                        c.func, ast.Attribute) and c.func.attr in (
                            'union', 'update') and any(
                                isinstance(x, ast.Subscript)
                                and isinstance(x.slice, ast.Name)
                                and x.slice.id == n.target.id
                                for a in c.args for x in ast.walk(a)):
                    loops.append((n, c))
    if not loops:
        ctx.fail(rule, '_run_mapping:flatten', fi.loc(),
                 'the union of the marker lists under flatten was not '
                 'found')
        return
    for (lp, call) in loops:
        v = lp.target.id

        def act(node, _c=call):
            return any(c is _c for c in cfg.calls_in(node))

        def allow(test, edge, _v=v):
            # k not in ('log', 'metadata') / k == 'log' ...
            if not (isinstance(test, ast.Compare) and len(test.ops) == 1
                    and isinstance(test.left, ast.Name)
                    and test.left.id == _v):
                return False
            r = test.comparators[0]
            consts = r.elts if isinstance(r, (ast.Tuple, ast.List,
                                              ast.Set)) else [r]
            if not all(isinstance(x, ast.Constant) and isinstance(
                    x.value, str) for x in consts):
                return False
            op = test.ops[0]
            if isinstance(op, (ast.NotIn, ast.NotEq)):
                return edge == 'false'
            if isinstance(op, (ast.In, ast.Eq)):
                return edge == 'true'
            return False
        CV.check_cover(ctx, fi, rule, '_run_mapping:flatten-union', lp, act,
                       allow=allow, what='parent',
                       consequence='its marker list is left out of the '
                       'flat marker set')
        # ... and the table walked is the table as loaded: the only
        # definition of it that reaches the loop is the read of the file
        # (the bookkeeping keys are popped in place); a table rebuilt with
        # a selection of its groups has already lost lists
        rd = rd_of(fi)
        tbl = lp.iter
        while isinstance(tbl, ast.Call) and tbl.args:
            tbl = tbl.args[0]
        if isinstance(tbl, ast.Call) and isinstance(
                tbl.func, ast.Attribute):
            tbl = tbl.func.value
        if isinstance(tbl, ast.Name):
            ns = [x for x in cfg.nodes_of(lp) if x.kind == 'for'
                  and x.id in rd.live]
            defs = rd.reaching(tbl.id, ns[0].id) if ns else []
            bad = [d for d in defs if not (
                d.kind == 'assign' and isinstance(d.value, ast.Call)
                and getattr(d.value.func, 'attr', getattr(
                    d.value.func, 'id', None)) in ('load', 'loads'))]
            ok = bool(defs) and not bad
            ctx.ob(rule, '_run_mapping:flatten-table', fi.loc(lp), ok,
                   'the union runs over the marker table as loaded' if ok
                   else f'the table the flat marker set is built from is '
                   f'`{unparse(bad[0].value)[:60] if bad and bad[0].value is not None else tbl.id}`, '
                   'not the table as loaded: groups removed before the '
                   'union (those of a dropped level) no longer contribute '
                   'their genes, and flatten + drop_level differs from '
                   'the one-level run with the union of all lists')


def check_tree_and_parents_agree(ctx):
    """the query-marker stage hands the selection a tree and a list of
    parents.  The pairs to discriminate are computed from the tree, the
    parents from the list: with a level dropped, both have to come from
    the *same* (reduced) tree.  A parent of the reduced tree looked up in
    the unreduced tree yields the pairs that cross the dropped level's
    nodes only, and the markers differ from those of the reduced
    taxonomy."""
    from ..core.slicing import backward_slice
    db = ctx.db
    rule = 'R-SAMEVAL/tree-and-parents'
    n = 0
    for fi in db.iter_functions():
        if fi.module.short != 'type_assignment.marker_cache_v2':
            continue
        cfg = None
        for c in ast.walk(fi.node):
            if not isinstance(c, ast.Call):
                continue
            t_ = resolve_callee(db, fi, c)
            if not isinstance(t_, FunctionInfo):
                continue
            mapping, _ = bind_args(t_, c)
            a_tree = mapping.get('taxonomy_tree')
            a_par = mapping.get('parent_list')
            if a_tree is None or a_par is None:
                continue
            if isinstance(a_par, ast.Constant) and a_par.value is None:
                continue
            if cfg is None:
                cfg = cfg_of(fi)
                rd = rd_of(fi)
                ex = Expander(fi)
            ns = [x for x in cfg.node_of_expr(c) if x.id in rd.live]
            if not ns:
                continue
            at = ns[0].id
            t_tree = set(term_alts(ex.expand(a_tree, at)))
            sl = backward_slice(fi, a_par, at)
            recv = set()
            for a in sl.attrs:
                if a.attr in ('all_parents', 'all_leaves', 'as_leaves',
                              'hierarchy'):
                    an = [x for x in cfg.node_of_expr(a) if x.id in rd.live]
                    if an:
                        recv |= set(term_alts(ex.expand(a.value, an[0].id)))
            if not recv:
                # the list is the caller's own parameter: judged at the
                # caller
                if sl.params & {'parent_list'}:
                    continue
            n += 1
            ctx.touch(fi)
            ok = bool(recv) and recv <= t_tree
            ctx.ob(rule, f'{fi.qual}->{t_.name}', fi.loc(c), ok,
                   'the parents handed on were listed from the tree that '
                   'is handed on with them' if ok else
                   f'`{t_.name}` receives the tree '
                   f'{fmt_term(ex.expand(a_tree, at))[:60]} but parents '
                   'listed from '
                   f'{sorted(fmt_term(r)[:40] for r in recv - t_tree)[:2]}: '
                   'with a level dropped the two trees differ, and the '
                   'pairs computed for a parent are not those of the '
                   'reduced taxonomy')
    if n < 1:
        raise AnalysisError('no call handing on both a tree and a parent '
                            'list found in marker_cache_v2')


def check_lookup_superset_tolerated(ctx):
    """per-level options are written for the full taxonomy and handed on
    unchanged when a level is dropped or the tree flattened: the
    bootstrap-factor table then names levels the run's tree no longer
    has.  Its validation may complain about a level of the tree that the
    table lacks, or about a bad value -- not about a key that is not a
    level of the tree, or a run with a level dropped is refused where the
    run on the reduced taxonomy is accepted."""
    from ..core.guards import facts_at
    from ..core.slicing import backward_slice
    db = ctx.db
    rule = 'R-GUARD/lookup-superset-tolerated'
    fi = db.fn('type_assignment.utils:validate_bootstrap_factor_lookup')
    ctx.touch(fi)
    cfg = cfg_of(fi)
    rd = rd_of(fi)
    ex = Expander(fi)
    n_sites = 0
    bad = None
    for n in cfg.nodes:
        if n.id not in rd.live or n.ast is None:
            continue
        st = n.ast
        complaint = isinstance(st, ast.Raise) or (
            isinstance(st, ast.AugAssign) and isinstance(
                st.target, ast.Name))
        if not complaint:
            continue
        n_sites += 1
        for (g, test, truth) in facts_at(cfg, rd, n.id):
            if not (isinstance(test, ast.Compare) and isinstance(
                    test.ops[0], ast.In) and not truth):
                continue
            left = ex.expand(test.left, g.id)
            # a key of the table ...
            key_of_lookup = any(
                x[0] == 'iterelem' and T.contains(
                    x, ('param', 'bootstrap_factor_lookup'))
                for x in T.subterms(left))
            # ... tested against something made from the tree
            sl = backward_slice(fi, test.comparators[0], g.id)
            if key_of_lookup and 'taxonomy_tree' in sl.params:
                bad = (st, test)
    ok = bad is None and n_sites > 0
    ctx.ob(rule, 'validate_bootstrap_factor_lookup', fi.loc(
        bad[0] if bad else None), ok,
           'the table is only required to cover the tree, not to be '
           'limited to it' if ok else
           f'a complaint is raised under `{unparse(bad[1])[:60]}` being '
           'false: a key of the table that is not a level of the run\'s '
           'tree is rejected, which refuses every run that drops a level '
           'or flattens while its per-level table is written for the full '
           'taxonomy')


def check_tree_queried_with_own_nodes(
        ctx, rule='R-PROV/tree-asked-about-its-own-nodes'):
    """the marker table may have been written for the full taxonomy while
    the run works on a reduced tree; its extra groups are tolerated
    (R-GUARD/lookup-superset-tolerated).  That only holds while the tree is
    never asked about a node named by the *table*: in the marker
    reconciliation code every (level, node) handed to `children` /
    `parents` of the run's tree derives from the tree itself (all_parents,
    hierarchy, children), not from a key of the marker table -- the tree
    raises for a level it does not have."""
    from ..core.slicing import backward_slice
    db = ctx.db
    n = 0
    for fi in db.iter_functions():
        if fi.module.short not in ('type_assignment.marker_cache_v2',
                                   'type_assignment.utils'):
            continue
        table_params = [p for p in fi.params if 'marker' in p
                        and 'lookup' in p]
        if not table_params or 'taxonomy_tree' not in fi.params:
            continue
        cfg = cfg_of(fi)
        rd = rd_of(fi)
        for node in cfg.nodes:
            if node.id not in rd.live:
                continue
            for c in cfg.calls_in(node):
                f = c.func
                if not (isinstance(f, ast.Attribute) and f.attr in (
                        'children', 'parents', 'nodes_at_level',
                        'leaves_to_compare')
                        and isinstance(f.value, ast.Name)
                        and f.value.id == 'taxonomy_tree'):
                    continue
                args = list(c.args) + [k.value for k in c.keywords]
                if not args:
                    continue
                n += 1
                from_table = set()
                for a in args:
                    sl = backward_slice(fi, a, node.id)
                    from_table |= set(sl.params) & set(table_params)
                    # a membership test of the key in the tree's own
                    # levels makes the question safe
                ok = not from_table
                ctx.touch(fi)
                ctx.ob(rule, f'{fi.qual}:{f.attr}#{n - 1}', fi.loc(c), ok,
                       'the tree is asked about nodes it listed itself'
                       if ok else
                       f'`{unparse(c)[:60]}` asks the run\'s tree about a '
                       f'node taken from {sorted(from_table)}: a table '
                       'written for the full taxonomy names levels the '
                       'reduced tree does not have, and the run is '
                       'rejected although the reduced taxonomy maps fine')
    if n < 2:
        raise AnalysisError(f'only {n} tree queries found in the marker '
                            'reconciliation code')


def check_validator_keys_maintained(ctx,
                                    rule='R-AGREE/validator-vs-reducers'):
    """flatten() and drop_level() build their result by copying the
    tree's data, rewriting the hierarchy and the level tables, and handing
    the copy to the constructor -- which validates it.  Every other key of
    the data the validator *inspects* (a constant key it subscripts or
    tests for membership) is therefore a key the reducers must keep
    consistent with the new hierarchy: each reducer mentions it (rewrites,
    pops or updates it).  A validator condition on a key the reducers
    carry over untouched rejects the reduced tree, although the same
    taxonomy built directly would be accepted."""
    db = ctx.db
    v = db.fn('taxonomy.utils:validate_taxonomy_tree')
    ctx.touch(v)
    param = v.params[0] if v.params else 'taxonomy_tree'
    inspected = dict()
    for x in ast.walk(v.node):
        if isinstance(x, ast.Subscript) and isinstance(
                x.value, ast.Name) and x.value.id == param \
                and isinstance(x.slice, ast.Constant) and isinstance(
                    x.slice.value, str):
            inspected.setdefault(x.slice.value, x)
        if isinstance(x, ast.Compare) and len(x.ops) == 1 and isinstance(
                x.ops[0], (ast.In, ast.NotIn)) and isinstance(
                    x.left, ast.Constant) and isinstance(
                        x.left.value, str) and isinstance(
                            x.comparators[0], ast.Name) \
                and x.comparators[0].id == param:
            inspected.setdefault(x.left.value, x)
    inspected.pop('hierarchy', None)
    reducers = [db.fn('taxonomy.taxonomy_tree:TaxonomyTree.flatten'),
                db.fn('taxonomy.taxonomy_tree:TaxonomyTree._drop_level')]
    n = 0
    for r in reducers:
        ctx.touch(r)
        consts = {c.value for c in ast.walk(r.node)
                  if isinstance(c, ast.Constant) and isinstance(
                      c.value, str)}
        for k, site in sorted(inspected.items()):
            n += 1
            ok = k in consts
            ctx.ob(rule, f'{r.name}:{k}', v.loc(site), ok,
                   f"'{k}' is maintained by {r.name}" if ok else
                   f"validate_taxonomy_tree inspects '{k}' "
                   f'(`{unparse(site)[:50]}`), which {r.name} copies over '
                   'unchanged while it rewrites the hierarchy: the reduced '
                   'tree can fail a validation that the same taxonomy '
                   'built directly passes')
    ctx.ok(rule, 'validator keys', v.loc(),
           f'{len(inspected)} key(s) besides the hierarchy and the level '
           f'tables inspected by the validator ({sorted(inspected)}); '
           f'{n} reducer obligations', nontrivial=True)


def check_election_order_by_name(ctx, rule='R-ORDER/elections-in-name-order'):
    """all elections of one chunk of cells draw their bootstrap subsets
    from one random generator, so which draws a parent gets depends on how
    many parents were searched before it.  The reduced tree and a reference
    that never had the level agree on the *names* of the nodes of every
    level, not on the order in which they are stored (drop_level appends
    the children of a removed node, a fresh tree lists them sorted).  The
    loop that runs the elections therefore walks a sequence ordered by
    name alone: a literal, `sorted(...)`, or a list that was `.sort()`ed
    after it was last bound -- never a stored child list or the insertion
    order of a table."""
    fi = ctx.db.fn('type_assignment.election:run_type_assignment')
    cfg = cfg_of(fi)
    rd = rd_of(fi)
    doms = cfg.dominators()

    def draws(body):
        for st in body:
            for c in ast.walk(st):
                if isinstance(c, ast.Call) and (
                        any(k.arg == 'rng' for k in c.keywords) or any(
                            isinstance(a, ast.Name) and a.id == 'rng'
                            for a in c.args)):
                    return True
        return False

    loops = []
    for lp in ast.walk(fi.node):
        if isinstance(lp, ast.For) and draws(lp.body) and not any(
                isinstance(inner, ast.For) and inner is not lp
                and draws(inner.body) for inner in ast.walk(lp)):
            loops.append(lp)
    if not loops:
        raise AnalysisError(f'{fi.qual}: no loop hands `rng` to a callee')

    from ..rules.order import plainly_sorted

    def by_name(e, nid):
        return plainly_sorted(fi, e, nid)

    n = 0
    for lp in loops:
        for node in cfg.nodes_of(lp):
            if node.id not in rd.live or node.kind not in ('for', 'loop'):
                continue
            n += 1
            ok = by_name(lp.iter, node.id)
            ctx.touch(fi)
            ctx.ob(rule, f'{fi.qual}:for {unparse(lp.target)}',
                   fi.loc(lp), ok,
                   f'`{unparse(lp.iter)[:50]}` is ordered by name' if ok else
                   f'the elections are run `for {unparse(lp.target)} in '
                   f'{unparse(lp.iter)[:50]}`, which is not ordered by '
                   'node name alone on every path: parents are searched '
                   '(and draw from the shared generator) in an order the '
                   'reduced tree and a tree that never had the level need '
                   'not share')
            break
    ctx.floor(rule, 1)
    return n


def check_genes_of_this_parent(ctx, rule='R-PROV/genes-of-this-parent'):
    """the genes an election is held over are the parent's own entry of
    the marker cache: in assemble_query_data every list of names handed to
    downsample_genes / downsample_genes_in_place is computed, on every
    path, from the 'reference' / 'query' positions of the parent's group
    and the two name tables -- from no other dataset of the file.  The
    cache's union of all markers still lists the genes of the groups a
    dropped level had; a fallback on it makes the run differ from a run on
    the reduced taxonomy with its own table."""
    from ..rules.roles import _selection_atoms
    fi = ctx.db.fn('type_assignment.matching:assemble_query_data')
    cfg = cfg_of(fi)
    rd = rd_of(fi)
    ex = Expander(fi)
    allowed = {'reference', 'query', 'reference_gene_names',
               'query_gene_names'}
    n = 0
    for node in cfg.nodes:
        if node.id not in rd.live:
            continue
        for c in cfg.calls_in(node):
            nm = getattr(c.func, 'attr', getattr(c.func, 'id', None))
            if nm not in ('downsample_genes', 'downsample_genes_in_place'):
                continue
            arg = None
            for k in c.keywords:
                if k.arg == 'selected_genes':
                    arg = k.value
            if arg is None and c.args:
                arg = c.args[0]
            if arg is None:
                continue
            n += 1
            reads, _ = _selection_atoms(ex.expand(arg, node.id))
            extra = sorted(reads - allowed)
            ok = not extra and bool(reads & {'reference', 'query'})
            ctx.touch(fi)
            ctx.ob(rule, f'{fi.qual}:{nm}#{n - 1}', fi.loc(c), ok,
                   'the genes are the parent\'s own entry' if ok else
                   f'`{unparse(arg)[:40]}` is computed from '
                   f'{sorted(reads)}: ' + (
                       f'{extra} is not the entry of this parent'
                       if extra else 'not from the entry of this parent'))
    ctx.floor(rule, 2)
    return n
