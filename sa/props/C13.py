"""
C13 -- on-disk sparse transposition and reshaping preserve the matrix.

Decided (DESIGN.md section 5, C13):
 1. R-POS / chunk-vs-shape for range steps and HDF5 chunk extents in
    csc_to_csr.py, csc_to_csr_parallel.py, sparse_utils.py,
    anndata_utils.py, h5_utils.py (the exhaustive 4x4 domain includes the
    empty matrix and matrices with fewer stored entries than rows).
 2. parallel pieces are disjoint and ordered: each worker of the parallel
    transposition gets its own fresh output file, the sub-ranges are the
    consecutive (i0, min(max, i0 + step)) of one range, and the join
    iterates, unsorted, the list the dispatch loop appended to.
 3. R-EXH for the two encoding dispatchers in anndata_utils.py.
"""
import ast

from ..core.cfg import cfg_of
from ..core.defuse import rd_of, Expander, fmt_term, term_alts
from ..core import terms as T
from ..core.loader import unparse, AnalysisError
from ..rules import workers as W
from ..rules.effects import PathAnalysis
from .C05 import check_unsort, check_tiles, check_cursor_use, check_signs, check_dispatch
from .C19 import _loop_fresh, _enclosing_loop

ID = 'C13'

EXPLANATION = (
    "Static analysis. (1) The sign analysis of C05 (POS/MAYZERO/UNK over "
    "reaching definitions with zero-test refinement) is applied to every "
    "range step, slice stride and HDF5 chunk extent in the five anchored "
    "files, together with the rule that a chunk extent min(x, K) is "
    "bounded by its own axis of the dataset's shape. (2) In the parallel "
    "transposition the dispatch loop is shown to be `for i0 in range(0, "
    "MAX, STEP)` with the upper bound min(MAX, i0 + STEP) built from that "
    "same MAX and STEP, the slice handed to the worker is (i0, i1), each "
    "worker's output file is created by mkstemp inside the loop body, the "
    "list of pieces only ever grows by append inside that loop, and the "
    "join loop iterates that very list (no sort / set / directory "
    "listing). (3) Encoding dispatch of copy_layer_to_x and "
    "_amalgamate_h5ad is total. The pointer arithmetic of the fill pass "
    "and of the merges is not decided.")

EXPLANATION += (
    ' Added after the seeded rounds: cursor discipline (R-CURSOR), '
    'index-space typing (R-SPACE) and exact tiling (R-TILE) of the '
    'anchored modules.'
)

EXPLANATION += (
    ' Round 5: a sorted row request is un-sorted before every return (R-PERM/unsort-before-return).'
)

EXPLANATION += (
    ' Round 6: cached readers are keyed by all they were built from (R-MEMO/key-complete); no HDF5 name is created twice in a group (R-TYPESTATE/h5-name-once, finding F8).'
)

EXPLANATION += (
    ' Round 7: a slice store in a loop whose source changes moves with the loop (R-CURSOR/store-advances).'
)

EXPLANATION += (
    ' Round 9: every return after the sorting of a request passes through a use of the permutation or its inverse (R-PERM/unsort-before-return, generalised).'
)

EXPLANATION += (
    ' Round 10: index arrays are widened before they are multiplied by a size (R-CAP/index-arithmetic-widened); batch searches record before they stop (R-COVER/batch-search).'
)

EXPLANATION += (
    ' Round 13: pointer windows are re-based when copied (R-SAMEVAL/pointer-window-rebased).'
)

EXPLANATION += (
    ' Round 14: contiguity shortcuts decided from end points and length apply to sorted, distinct sequences only (R-ARITH/span-contiguity).'
)

EXPLANATION += (
    ' Round 15: no worker count takes a code path of its own (R-PROV/worker-count-special-case, rule of C04).'
)

EXPLANATION += (
    ' Round 16: a candidate unsigned type is admitted at most up to its capacity (R-CAP/fits-predicate).'
)

EXPLANATION += (
    ' Round 17: windows taken at a re-ordered row have constant length (R-PERM/permuted-row-window).'
)

RULE_TEXT = (
    "one obligation per step / chunk-extent site, per range relation of "
    "the dispatch loop, per piece-list mutation, per dispatcher x member")

ASSUMPTIONS = [
    "h5py rejects zero chunk extents and chunks larger than a fixed shape",
    "parameters are not judged by the sign analysis",
    "necessary conditions only",
]

ANCHOR_MODULES = ('utils.csc_to_csr', 'utils.csc_to_csr_parallel',
                  'utils.sparse_utils', 'utils.anndata_utils',
                  'utils.h5_utils')

DISPATCHERS = ['utils.anndata_utils:copy_layer_to_x',
               'utils.anndata_utils:_amalgamate_h5ad']


def check(ctx):
    check_signs(ctx, ANCHOR_MODULES, advisory_rest=True)
    check_dispatch(ctx, DISPATCHERS)
    check_parallel_pieces(ctx)
    check_cursor_use(ctx, ANCHOR_MODULES, floor=6)
    check_index_spaces(ctx)
    check_unsort(ctx)
    check_tiles(ctx, ANCHOR_MODULES, floor=8)
    # readers / iterators that are kept for re-use are keyed by all they
    # were built from (sa/rules/nodekeys.py, R-MEMO/key-complete)
    from ..rules.nodekeys import check_memo_keys
    n_memo = 0
    for fi_ in ctx.db.iter_functions():
        if fi_.module.short.startswith(tuple(ANCHOR_MODULES)):
            n_memo += check_memo_keys(ctx, fi_)
    ctx.ok('R-MEMO/key-complete', 'reshaping modules', 'package',
           f'{n_memo} memoised store(s) in the reshaping modules examined',
           nontrivial=False)
    from ..rules.h5names import check_h5_names_created_once
    n_h5 = 0
    for fi_ in ctx.db.iter_functions():
        if fi_.module.short.startswith(tuple(ANCHOR_MODULES)):
            n_h5 += check_h5_names_created_once(ctx, fi_)
    ctx.ok('R-TYPESTATE/h5-name-once', 'reshaping modules', 'package',
           f'{n_h5} creations of HDF5 names followed along the control '
           'flow', nontrivial=n_h5 > 0)
    from .C05 import sweep_generic_rules
    sweep_generic_rules(ctx, ANCHOR_MODULES)
    # the matrix is preserved for every worker count: no worker count is
    # singled out for a code path of its own (rule of C04)
    from .C04 import check_worker_count_special_cases
    check_worker_count_special_cases(ctx)


def check_parallel_pieces(ctx):
    db = ctx.db
    fi = db.fn('utils.csc_to_csr_parallel:'
               '_transpose_sparse_matrix_on_disk_v2')
    ctx.touch(fi)
    cfg = cfg_of(fi)
    rd = rd_of(fi)
    ex = Expander(fi)
    pa = PathAnalysis(db, ctx.cg)
    rule = 'R-SAMEVAL/parallel-pieces'
    sites = [s for s in W.find_spawn_sites(db, lambda m: m is fi.module)
             if s.fi is fi]
    if len(sites) != 1 or sites[0].kwargs is None:
        ctx.fail(rule, 'dispatch', fi.loc(),
                 'the dispatch of the transposition workers was not found')
        return
    s = sites[0]
    loop = _enclosing_loop(s.call)
    if not isinstance(loop, ast.For):
        ctx.fail(rule, 'dispatch:loop', fi.loc(s.call),
                 'workers are not dispatched from a for loop over a range')
        return
    node = [n for n in cfg.node_of_expr(s.call) if n.id in rd.live][0]
    hdr = [n for n in cfg.nodes_of(loop) if n.kind == 'for'
           and n.id in rd.live][0]
    t_iter = ex.expand(loop.iter, hdr.id)
    ok_range = (T.call_name(t_iter) == 'range' and len(t_iter[2]) == 3
                and t_iter[2][0] == ('const', '0'))
    ctx.ob(rule, 'dispatch:range', fi.loc(loop), ok_range,
           'pieces are enumerated by range(0, MAX, STEP)' if ok_range else
           f'dispatch loop iterates {fmt_term(t_iter)[:100]}')
    if not ok_range:
        return
    t_max, t_step = t_iter[2][1], t_iter[2][2]
    sl = s.kwargs.get('indices_slice')
    if sl is None:
        ctx.fail(rule, 'dispatch:slice', fi.loc(s.call),
                 'workers are not given an indices_slice')
        return
    t_sl = ex.expand(sl, node.id)
    lo_want = ('iterelem', t_iter)
    ok = (t_sl[0] == 'tuple' and len(t_sl[1]) == 2
          and t_sl[1][0] == lo_want)
    hi_ok = False
    if ok:
        hi = t_sl[1][1]
        if T.call_name(hi) == 'min' and len(hi[2]) == 2:
            args = set(hi[2])
            hi_ok = (t_max in args and (
                ('binop', 'Add', lo_want, t_step) in args
                or ('binop', 'Add', t_step, lo_want) in args))
    ctx.ob(rule, 'dispatch:slice', fi.loc(sl), ok and hi_ok,
           'each worker transposes (i0, min(MAX, i0+STEP)) of the one '
           'range: consecutive, disjoint, covering' if ok and hi_ok else
           f'the slice handed to the worker is {fmt_term(t_sl)[:140]}: '
           'not the consecutive sub-range (i0, min(MAX, i0+STEP)) of the '
           'dispatch range')
    # fresh output file per worker
    outp = s.kwargs.get('output_path')
    if outp is None:
        ctx.fail(rule, 'dispatch:output', fi.loc(s.call),
                 'workers are not given an output path')
    else:
        okf, why = _loop_fresh(pa, fi, outp, loop, rd, cfg)
        ctx.ob(rule, 'dispatch:fresh-output', fi.loc(outp), okf,
               f'worker output `{unparse(outp)}`: {why}' if okf else
               f'every worker writes to the same file `{unparse(outp)}` '
               f'({why})')
    # the piece list: appended in the loop, iterated by the join
    if outp is not None and isinstance(outp, ast.Name):
        lists = []
        for (name, muts) in rd.muts.items():
            for (nid, astn, how) in muts:
                if how == 'append' and isinstance(astn, ast.Call) \
                        and astn.args and isinstance(
                            astn.args[0], ast.Name) \
                        and astn.args[0].id == outp.id:
                    lists.append((name, nid, astn))
        if not lists:
            ctx.fail(rule, 'join:list', fi.loc(),
                     'the per-worker files are not collected in a list')
        for (name, nid, astn) in lists:
            inside = any(sub is astn for b in loop.body
                         for sub in ast.walk(b))
            bad = [(n2, a2, h2) for (n2, a2, h2) in rd.mutations(name)
                   if h2 not in ('append',)]
            ctx.ob(rule, f'join:{name}:append-order', fi.loc(astn),
                   inside and not bad,
                   f'`{name}` grows by append in dispatch order only'
                   if inside and not bad else
                   f'`{name}` is re-ordered or filled outside the '
                   'dispatch loop: ' + ', '.join(
                       unparse(a2)[:40] for (_n, a2, _h) in bad))
            # every loop that opens piece files iterates that list
            readers = []
            for n2 in cfg.nodes:
                if n2.kind != 'for' or n2.id not in rd.live:
                    continue
                tnames = {x.id for x in ast.walk(n2.ast.target)
                          if isinstance(x, ast.Name)}
                opens = False
                for b in n2.ast.body:
                    for sub in ast.walk(b):
                        if isinstance(sub, ast.Call) and unparse(
                                sub.func) == 'h5py.File' and sub.args \
                                and isinstance(sub.args[0], ast.Name) \
                                and sub.args[0].id in tnames:
                            opens = True
                if opens:
                    readers.append(n2)
            ok_join = bool(readers)
            detail = (f'{len(readers)} loop(s) read the pieces, each '
                      f'iterating `{name}` in dispatch order')
            if not readers:
                detail = 'no loop reads the per-worker files'
            for n2 in readers:
                it = n2.ast.iter
                if not (isinstance(it, ast.Name) and it.id == name):
                    ok_join = False
                    detail = (f'the pieces are read in the order of '
                              f'`{unparse(it)[:60]}` (L{n2.lineno}), not '
                              f'in the dispatch order held by `{name}`')
            ctx.ob(rule, f'join:{name}:iteration', fi.loc(), ok_join,
                   detail)


def check_index_spaces(ctx, rule='R-SPACE/positions'):
    """index-space typing of the transposition and sparse helpers
    (sa/rules/spaces.py): arrays sliced by the same positions were filtered
    and permuted identically; run starts are positions of the array they
    slice"""
    from ..rules.spaces import check_spaces
    db = ctx.db
    n = 0
    main = 0
    for fi in db.iter_functions():
        if fi.module.short in ANCHOR_MODULES:
            k = check_spaces(ctx, db, fi, rule)
            n += k
            if fi.qual == 'utils.csc_to_csr:transpose_sparse_matrix_on_disk':
                main = k
    failed = any(o.rule == rule and not o.ok for o in ctx.obligations)
    if main < 10 and not failed:
        raise AnalysisError('index-space typing of '
                            'transpose_sparse_matrix_on_disk covered only '
                            f'{main} gathers / slices')
