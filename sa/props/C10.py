"""
C10 -- the taxonomy stays a strict tree under construction and
transformation.

Decided (DESIGN.md section 5, C10):
 1. no unvalidated tree exists: TaxonomyTree.__init__ validates the data it
    stores on every path before deriving the child->parent table; the class
    has no other way of coming into being; every method that returns a tree
    builds it with the constructor.
 2. trees are immutable after construction: only __init__ assigns the
    internal state; no method, and no helper it hands the state to, mutates
    it; no accessor returns an alias of internal mutable state that some
    caller in the package mutates.
 3. validator discipline: every branch of validate_taxonomy_tree that
    builds an error message raises; the mandated checks (one parent, child
    exists, no second parent, no cell in two leaves) are each present as a
    raising guard.
"""
import ast

from ..core.cfg import cfg_of
from ..core.defuse import rd_of, Expander, fmt_term, term_alts, \
    MUTATING_METHODS
from ..core import terms as T
from ..core.loader import unparse, FunctionInfo, ClassInfo, AnalysisError
from ..core.resolve import resolve_callee, bind_args, local_types

ID = 'C10'

EXPLANATION = (
    "Static analysis of TaxonomyTree and taxonomy/utils.py: a must-pass-"
    "through query on the CFG of __init__ shows that validate_taxonomy_tree "
    "is called on the stored data on every path before _child_to_parent is "
    "derived; an encapsulation analysis shows that _data and "
    "_child_to_parent are assigned only in __init__, that no method "
    "mutates them directly, through a local alias (symbolic expansion "
    "decides whether a local denotes internal state or a copy), or through "
    "a helper that mutates the parameter it receives them in (purity "
    "summaries, transitive); an escape analysis lists the accessors that "
    "return an alias of internal containers and shows that no caller in "
    "the package mutates what it gets from any accessor; all tree-returning "
    "methods go through the constructor. In the validator every message-"
    "building branch raises and each mandated structural check is present "
    "as a guard that raises. Whether the validator's checks are sufficient "
    "(value-level reasoning) is not decided.")

EXPLANATION += (
    ' Added after the seeded rounds: the tree builder records every '
    'parent-child link of every row (R-COVER, no early exit).'
)

EXPLANATION += (
    ' Round 3: node tables are keyed by (level, label), memo keys are '
    'complete, zipped lists are in lock-step (sa/rules/nodekeys.py).'
)

EXPLANATION += (
    " Round 5: leaves_to_compare answers through get_all_leaf_pairs or a short-cut tested on the parent's own children (R-MUST/pairs-from-the-tree)."
)

EXPLANATION += (
    ' Round 6: the rows numbered when a tree is built from an h5ad file are the obs rows as read (R-PROV/rows-are-file-positions); memo keys are compared by access path.'
)

EXPLANATION += (
    ' Round 7: every cell entered into the data-release cell table was first found absent from the whole table (R-GUARD/unique-insert).'
)

EXPLANATION += (
    ' Round 9: module-level memo tables are keyed by every parameter their values are computed from (R-MEMO/key-complete).'
)

EXPLANATION += (
    ' Round 10: gathers by pandas category codes are masked on the sign of the codes (R-IDIOM/sentinel-code-gather).'
)

EXPLANATION += (
    ' Round 11: a column number fetched with .get() is not tested for truth (R-IDIOM/truthy-position).'
)

EXPLANATION += (
    ' Round 12: the validator compares names as stored, without coercion (R-EXH/validator-checks).'
)

EXPLANATION += (
    ' Round 13: what is put into a local that is then cached belongs to the cached value (R-MEMO/key-complete).'
)

EXPLANATION += (
    ' Round 14: no function memoised for the life of the process reads a file (R-MEMO/outside-state-not-in-key).'
)

EXPLANATION += (
    ' Round 15: merged statistics files are compared tree against tree (R-GUARD/one-tree-per-merge).'
)

RULE_TEXT = (
    "one obligation per constructor path, per attribute-assignment site, "
    "per mutation candidate, per helper parameter, per accessor x caller, "
    "per message-building branch and per mandated check")

ASSUMPTIONS = [
    "no dynamic attribute access (setattr/__dict__) in scope -- checked",
    "callers outside the package are outside the analysis",
    "necessary conditions only",
]

TREE = 'taxonomy.taxonomy_tree:TaxonomyTree'
STATE = ('_data', '_child_to_parent')
COPIERS = {'deepcopy', 'copy', 'list', 'dict', 'sorted', 'set', 'tuple',
           'loads', 'dumps', 'array', 'keys', 'len', 'str', 'frozenset',
           'clean_for_json', 'join', 'sum', 'any', 'all', 'min', 'max',
           'isinstance', 'type', 'enumerate', 'zip', 'range'}


def check(ctx):
    db = ctx.db
    ci = db.cls(TREE)
    check_constructor(ctx, ci)
    check_only_ctor_assigns(ctx, ci)
    check_no_mutation(ctx, ci)
    check_escape(ctx, ci)
    check_factories(ctx, ci)
    check_validator(ctx)
    check_builder_records_all(ctx)
    check_release_reader_records_all(ctx)
    check_node_identity(ctx, ('taxonomy.',), floor=3)
    check_pairs_from_tree(ctx)
    check_rows_are_file_positions(ctx)
    # ... and the labels in those rows are the labels of the file: a
    # missing value of a categorical column is not turned into a label
    # (sa/rules/idioms.py)
    from ..rules.idioms import check_sentinel_codes_gather
    n_sc = 0
    for fi_ in db.iter_functions():
        if fi_.module.short in ('utils.anndata_utils', 'taxonomy.utils',
                                'taxonomy.taxonomy_tree',
                                'taxonomy.data_release_utils'):
            n_sc += check_sentinel_codes_gather(ctx, fi_)
    ctx.ok('R-IDIOM/sentinel-code-gather', 'obs readers and tree builders',
           'package', f'{n_sc} gather(s) by category codes found',
           nontrivial=False)
    check_release_cells_unique(ctx)
    from .C05 import sweep_generic_rules
    sweep_generic_rules(ctx, ('taxonomy.',))
    check_merged_files_share_one_tree(ctx)


# ----------------------------------------------------------------------

def aliases_internal(t, roots):
    """does the term denote (part of) the internal state, uncopied?
    roots: set of terms that are the state (self._data, ...)"""
    if not isinstance(t, tuple) or not t:
        return False
    if t in roots:
        return True
    k = t[0]
    if k == 'sub':
        return aliases_internal(t[1], roots)
    if k == 'phi':
        return any(aliases_internal(a, roots) for a in t[1])
    if k == 'iterelem':
        it = t[1]
        # iterating a dict yields its (immutable) keys; .values()/.items()
        # yield the stored objects
        if T.call_name(it) in ('values', 'items'):
            return aliases_internal(T.call_receiver(it), roots)
        return False
    if k == 'call':
        nm = T.call_name(t)
        if nm in ('get', 'setdefault', 'pop') and T.call_receiver(t):
            return aliases_internal(T.call_receiver(t), roots)
        return False
    if k == 'ifexp':
        return aliases_internal(t[2], roots) or aliases_internal(t[3],
                                                                 roots)
    return False


def state_roots():
    return {('attr', ('param', 'self'), a) for a in STATE}


def mutation_sites(fi, roots):
    """(ast node, description) for every statement of fi that mutates a
    value denoting one of `roots` (uncopied)"""
    cfg = cfg_of(fi)
    rd = rd_of(fi)
    ex = Expander(fi)
    out = []
    for node in cfg.nodes:
        if node.id not in rd.live:
            continue
        s = node.ast
        targets = []
        if node.kind == 'stmt':
            if isinstance(s, ast.Assign):
                targets = list(s.targets)
            elif isinstance(s, ast.AugAssign):
                targets = [s.target]
            elif isinstance(s, ast.Delete):
                targets = list(s.targets)
        flat = []
        for t in targets:
            if isinstance(t, (ast.Tuple, ast.List)):
                flat.extend(t.elts)
            else:
                flat.append(t)
        for t in flat:
            if isinstance(t, ast.Subscript):
                tb = ex.expand(t.value, node.id)
                if aliases_internal(tb, roots):
                    out.append((s, f'item store/delete `{unparse(t)}`'))
            elif isinstance(t, ast.Attribute):
                tb = ex.expand(t.value, node.id)
                if aliases_internal(tb, roots) and tb not in roots:
                    out.append((s, f'attribute store `{unparse(t)}`'))
            elif isinstance(t, ast.Name) and isinstance(s, ast.AugAssign):
                tb = ex.expand(t, node.id)
                if aliases_internal(tb, roots):
                    out.append((s, f'in-place `{unparse(s)}`'))
        for c in cfg.calls_in(node):
            f = c.func
            if isinstance(f, ast.Attribute) and f.attr in MUTATING_METHODS:
                tb = ex.expand(f.value, node.id)
                if aliases_internal(tb, roots):
                    out.append((c, f'`{unparse(c)[:70]}`'))
    return out


from ..core.resolve import register_cache  # noqa: E402
_PURITY = register_cache(dict())


def mutates_param(db, fi, param, depth=0):
    """does fi (with callees) mutate the object passed as `param`?
    returns list of (fi, ast, description)"""
    key = (fi.qual, param)
    if key in _PURITY:
        return _PURITY[key]
    _PURITY[key] = []
    roots = {('param', param)}
    found = [(fi, a, d) for (a, d) in mutation_sites(fi, roots)]
    if depth < 4:
        cfg = cfg_of(fi)
        rd = rd_of(fi)
        ex = Expander(fi)
        for node in cfg.nodes:
            if node.id not in rd.live:
                continue
            for c in cfg.calls_in(node):
                t = resolve_callee(db, fi, c)
                callee = t if isinstance(t, FunctionInfo) else None
                if callee is None:
                    continue
                mapping, _ = bind_args(callee, c)
                for pn, a in mapping.items():
                    ta = ex.expand(a, node.id)
                    if aliases_internal(ta, roots):
                        found.extend(mutates_param(db, callee, pn,
                                                   depth+1))
    _PURITY[key] = found
    return found


# ----------------------------------------------------------------------

def check_constructor(ctx, ci):
    db = ctx.db
    init = db.find_method(ci, '__init__')
    if init is None:
        raise AnalysisError('TaxonomyTree has no __init__')
    ctx.touch(init)
    cfg = cfg_of(init)
    rd = rd_of(init)
    ex = Expander(init)
    rule = 'R-MUST/validated-on-construction'
    validator = db.fn('taxonomy.utils:validate_taxonomy_tree')
    vnodes = []
    for node in cfg.nodes:
        if node.id not in rd.live:
            continue
        for c in cfg.calls_in(node):
            if resolve_callee(db, init, c) is validator:
                a = c.args[0] if c.args else (c.keywords[0].value
                                              if c.keywords else None)
                ta = ex.expand(a, node.id) if a is not None else None
                vnodes.append((node, c, ta))
    # the argument is the stored data
    data_term = ('attr', ('param', 'self'), '_data')
    good_v = {n.id for (n, c, ta) in vnodes if ta == data_term}
    stores = []
    for node in cfg.nodes:
        if node.kind == 'stmt' and node.id in rd.live and isinstance(
                node.ast, ast.Assign):
            for tg in node.ast.targets:
                if isinstance(tg, ast.Attribute) and isinstance(
                        tg.value, ast.Name) and tg.value.id == 'self':
                    stores.append((node, tg.attr))
    data_stores = [n for (n, a) in stores if a == '_data']
    ok = bool(good_v) and bool(data_stores)
    wit = None
    if ok:
        # every path from the (last) store of _data to a normal return
        # passes a validator call on self._data
        for ds in data_stores:
            okp, p = cfg.must_pass(ds.id, {cfg.exit},
                                   lambda n: n.id in good_v,
                                   edge_ok=lambda a, b, lab: lab != 'exc')
            if not okp:
                ok = False
                wit = cfg.fmt_path(p)
        # and nothing re-binds or mutates _data after validation
        for v in good_v:
            after = cfg.reachable(v) - {v}
            for ds in data_stores:
                if ds.id in after:
                    ok = False
                    wit = [f'self._data is assigned again at '
                           f'L{ds.lineno} after it was validated']
    ctx.ob(rule, 'TaxonomyTree.__init__:validate', init.loc(), ok,
           'every normal path through __init__ validates self._data after '
           'storing it' if ok else
           'a TaxonomyTree can be constructed without its stored data '
           'passing validate_taxonomy_tree', witness=wit)
    # the validator raises are not swallowed in __init__
    from ..rules.workers import swallowing_handlers_for
    for v in good_v:
        sw = swallowing_handlers_for(cfg, v)
        ctx.ob(rule + '/not-swallowed', 'TaxonomyTree.__init__:handlers',
               init.loc(), not sw,
               'validation errors propagate' if not sw else
               'a handler in __init__ swallows validation errors')
    # child_to_parent derived after validation, from the same data
    c2p = [n for (n, a) in stores if a == '_child_to_parent']
    for n in c2p:
        dom = any(cfg.dominates(v, n.id) for v in good_v)
        t = ex.expand(n.ast.value, n.id)
        src_ok = T.call_name(t) == 'get_child_to_parent' and t[2] and \
            t[2][0] == data_term
        ctx.ob(rule + '/derived-after', 'TaxonomyTree.__init__:c2p',
               init.loc(n.ast), dom and src_ok,
               'child->parent table derived from the validated data'
               if dom and src_ok else
               'the child->parent table is derived before validation or '
               f'from other data: {fmt_term(t)[:100]}')
    # stored data is a private copy of the argument
    for ds in data_stores:
        t = ex.expand(ds.ast.value, ds.id)
        cp = T.call_name(t) in ('deepcopy',)
        ctx.ob('R-ENCAPS/private-copy', 'TaxonomyTree.__init__:_data',
               init.loc(ds.ast), cp,
               'the tree keeps a deep copy of the dict it was given'
               if cp else
               f'the tree stores {fmt_term(t)[:80]}: the caller keeps a '
               'handle on the internal state and can change a validated '
               'tree')
    # no other way of coming into being
    odd = [m for m in ('__new__', '__setstate__', '__reduce__',
                       '__setattr__', '__getattr__')
           if m in ci.methods]
    ctx.ob(rule + '/no-backdoor', 'TaxonomyTree:special-methods',
           ci.module.relpath, not odd,
           'no __new__/__setstate__/__setattr__ back door' if not odd
           else f'class defines {odd}: objects can exist without __init__')


def check_only_ctor_assigns(ctx, ci):
    db = ctx.db
    rule = 'R-ENCAPS/assigned-only-in-init'
    bad = []
    n = 0
    for fi in db.iter_functions():
        for node in ast.walk(fi.node):
            tgts = []
            if isinstance(node, ast.Assign):
                tgts = node.targets
            elif isinstance(node, (ast.AugAssign, ast.AnnAssign)):
                tgts = [node.target]
            for tg in tgts:
                for sub in ast.walk(tg):
                    if isinstance(sub, ast.Attribute) and sub.attr in STATE \
                            and isinstance(sub.ctx, ast.Store):
                        recv = sub.value
                        if isinstance(recv, ast.Name) \
                                and recv.id == 'self':
                            if fi.cls is not ci:
                                continue      # another class's own _data
                        else:
                            rc = local_types(db, fi).class_of_expr(recv)
                            if rc is not None and rc is not ci:
                                continue
                            if rc is None and not _looks_like_tree(recv):
                                continue
                        n += 1
                        if not (fi.cls is ci and fi.name == '__init__'
                                and isinstance(sub.value, ast.Name)
                                and sub.value.id == 'self'):
                            bad.append((fi, node))
            if isinstance(node, ast.Call) and isinstance(
                    node.func, ast.Name) and node.func.id == 'setattr':
                if node.args and len(node.args) >= 2 and isinstance(
                        node.args[1], ast.Constant) \
                        and node.args[1].value in STATE:
                    bad.append((fi, node))
    for fi, node in bad:
        ctx.fail(rule, f'{fi.qual}:{unparse(node)[:60]}', fi.loc(node),
                 f'`{unparse(node)[:80]}` re-binds the internal state of a '
                 'TaxonomyTree outside __init__ (the result is not '
                 'validated)')
    if not bad:
        ctx.ok(rule, 'package', ci.module.relpath,
               f'{n} assignment(s) to _data/_child_to_parent, all in '
               'TaxonomyTree.__init__')


def check_no_mutation(ctx, ci):
    db = ctx.db
    rule = 'R-ENCAPS/no-mutation'
    roots = state_roots()
    n_methods = 0
    for name, m in sorted(ci.methods.items()):
        if name == '__init__':
            continue
        ctx.touch(m)
        n_methods += 1
        sites = mutation_sites(m, roots)
        for (a, d) in sites:
            ctx.fail(rule, f'TaxonomyTree.{name}:{unparse(a)[:50]}',
                     m.loc(a),
                     f'TaxonomyTree.{name} mutates the internal state of '
                     f'the tree: {d} (a validated tree must not change; '
                     'transforms work on a deep copy)')
        if not sites:
            ctx.ok(rule, f'TaxonomyTree.{name}', m.loc(),
                   'no store / in-place operation on internal state or an '
                   'uncopied part of it', nontrivial=True)
        # helpers that receive internal state
        cfg = cfg_of(m)
        rd = rd_of(m)
        ex = Expander(m)
        for node in cfg.nodes:
            if node.id not in rd.live:
                continue
            for c in cfg.calls_in(node):
                t = resolve_callee(db, m, c)
                if not isinstance(t, FunctionInfo):
                    continue
                mapping, _ = bind_args(t, c)
                for pn, a in mapping.items():
                    ta = ex.expand(a, node.id)
                    if not aliases_internal(ta, roots):
                        continue
                    ctx.touch(t)
                    found = mutates_param(db, t, pn)
                    key = f'TaxonomyTree.{name}->{t.qual}({pn})'
                    if found:
                        (ffi, fa, fd) = found[0]
                        ctx.fail(rule + '/helper', key, ffi.loc(fa),
                                 f'{t.name} receives internal state of the '
                                 f'tree as `{pn}` and mutates it: {fd} in '
                                 f'{ffi.qual}')
                    else:
                        ctx.ok(rule + '/helper', key, m.loc(c),
                               f'{t.name} is pure in `{pn}`')
    # __init__'s own helpers (validate, get_child_to_parent) are covered
    init = ci.methods['__init__']
    for q, pn in (('taxonomy.utils:validate_taxonomy_tree', None),
                  ('taxonomy.utils:get_child_to_parent', None)):
        f = db.fn(q)
        p = f.params[0]
        found = mutates_param(db, f, p)
        key = f'TaxonomyTree.__init__->{q}({p})'
        if found:
            (ffi, fa, fd) = found[0]
            ctx.fail(rule + '/helper', key, ffi.loc(fa),
                     f'{f.name} mutates the data it validates / reads: '
                     f'{fd}')
        else:
            ctx.ok(rule + '/helper', key, f.loc(), f'{f.name} is pure in '
                   f'`{p}`')


def check_escape(ctx, ci):
    """accessors that hand out an alias of internal containers, and
    callers that mutate what an accessor returns"""
    db = ctx.db
    rule = 'R-ENCAPS/escape'
    roots = state_roots()
    escaping = dict()
    accessors = dict()
    for name, m in sorted(ci.methods.items()):
        if name.startswith('__') or name in ('to_str',):
            continue
        cfg = cfg_of(m)
        rd = rd_of(m)
        ex = Expander(m)
        is_prop = any(isinstance(d, ast.Name) and d.id == 'property'
                      for d in m.node.decorator_list)
        accessors[name] = is_prop
        for r in [n for n in cfg.nodes if n.kind == 'return'
                  and n.id in rd.live and n.ast.value is not None]:
            t = ex.expand(r.ast.value, r.id)
            if aliases_internal(t, roots):
                escaping[name] = (m, r.ast, t)
    # callers in the package that mutate the result of an accessor
    mutating_callers = []
    for fi in db.iter_functions(
            lambda mm: not mm.short.startswith(('gpu_utils',))):
        rd = None
        for node in ast.walk(fi.node):
            nm = None
            if isinstance(node, ast.Call) and isinstance(
                    node.func, ast.Attribute) \
                    and node.func.attr in accessors \
                    and not accessors[node.func.attr]:
                nm = node.func.attr
                expr = node
            elif isinstance(node, ast.Attribute) \
                    and node.attr in accessors and accessors[node.attr] \
                    and isinstance(node.ctx, ast.Load):
                nm = node.attr
                expr = node
            if nm is None:
                continue
            # receiver must plausibly be a tree
            recv = expr.func.value if isinstance(expr, ast.Call) \
                else expr.value
            lt = local_types(db, fi)
            rc = lt.class_of_expr(recv)
            if rc is not None and rc is not ci:
                continue
            if rc is None and not _looks_like_tree(recv):
                continue
            par = getattr(expr, '_parent', None)
            # direct mutation: tree.children(x).sort()
            if isinstance(par, ast.Attribute) and par.attr in \
                    MUTATING_METHODS and isinstance(
                        getattr(par, '_parent', None), ast.Call):
                mutating_callers.append((fi, par._parent, nm))
            if isinstance(par, ast.Subscript) and isinstance(
                    par.ctx, (ast.Store, ast.Del)):
                mutating_callers.append((fi, par, nm))
            # bound to a local that is later mutated
            if isinstance(par, ast.Assign) and par.value is expr \
                    and len(par.targets) == 1 and isinstance(
                        par.targets[0], ast.Name):
                v = par.targets[0].id
                rd = rd_of(fi)
                dids = {d.id for d in rd.defs if d.stmt is par}
                for (nid, astn, how) in rd.mutations(v):
                    if any(d.id in dids for d in rd.reaching(v, nid)):
                        mutating_callers.append((fi, astn, nm))
    by_acc = dict()
    for (fi, astn, nm) in mutating_callers:
        by_acc.setdefault(nm, []).append((fi, astn))
    for name in sorted(accessors):
        key = f'TaxonomyTree.{name}'
        m = ci.methods[name]
        callers = by_acc.get(name, [])
        if name in escaping:
            (mm, rast, t) = escaping[name]
            if callers:
                (cfi, cast) = callers[0]
                ctx.fail(rule, key, mm.loc(rast),
                         f'TaxonomyTree.{name} returns an alias of '
                         f'internal state ({fmt_term(t)[:60]}) and '
                         f'{cfi.qual} mutates what it gets '
                         f'(`{unparse(cast)[:60]}` at {cfi.loc(cast)}): a '
                         'validated tree is changed behind its back',
                         witness=[f'{c[0].qual}: {unparse(c[1])[:70]}'
                                  for c in callers[:6]])
            else:
                ctx.ok(rule, key, mm.loc(rast),
                       f'returns an alias of internal state, but no '
                       'caller in the package mutates the result')
        else:
            ctx.ok(rule, key, m.loc(),
                   f'returns fresh objects ({len(callers)} caller(s) '
                   'mutate their own copy)', nontrivial=bool(callers))


def _contains(outer, inner):
    for sub in ast.walk(outer):
        if sub is inner and sub is not outer:
            return True
    return False


def _looks_like_tree(e):
    s = unparse(e)
    return 'tree' in s or s == 'self'


def check_factories(ctx, ci):
    """every method / function that returns a TaxonomyTree builds it with
    the constructor"""
    db = ctx.db
    rule = 'R-MUST/constructed'
    n = 0
    for name, m in sorted(ci.methods.items()):
        cfg = cfg_of(m)
        rd = rd_of(m)
        for r in [x for x in cfg.nodes if x.kind == 'return'
                  and x.id in rd.live and x.ast.value is not None]:
            v = r.ast.value
            # returns of copy.copy(self) / self.__class__.__new__ ...
            for sub in ast.walk(v):
                if isinstance(sub, ast.Call):
                    fn = unparse(sub.func)
                    if fn in ('copy.copy', 'copy.deepcopy') and sub.args \
                            and unparse(sub.args[0]) == 'self':
                        ctx.ok(rule, f'TaxonomyTree.{name}:copy',
                               m.loc(v), 'copy of a validated tree')
                    if '__new__' in fn or fn.endswith('__class__'):
                        ctx.fail(rule, f'TaxonomyTree.{name}:new',
                                 m.loc(v), f'`{unparse(v)[:60]}` creates '
                                 'a tree without running __init__')
            if isinstance(v, ast.Call):
                t = resolve_callee(db, m, v)
                if t is ci:
                    n += 1
                    ctx.ok(rule, f'TaxonomyTree.{name}', m.loc(v),
                           'returns TaxonomyTree(...) / cls(...)')
    ctx.floor(rule, 6)


# ----------------------------------------------------------------------

def check_validator(ctx):
    db = ctx.db
    fi = db.fn('taxonomy.utils:validate_taxonomy_tree')
    ctx.touch(fi)
    cfg = cfg_of(fi)
    rd = rd_of(fi)
    ex = Expander(fi)
    rule = 'R-ARMS/validator-raises'
    # (a) a branch that builds a message ends in a raise
    msg_vars = set()
    for node in ast.walk(fi.node):
        if isinstance(node, (ast.Assign, ast.AugAssign)):
            v = node.value
            if isinstance(v, (ast.JoinedStr,)) or (
                    isinstance(v, ast.Constant)
                    and isinstance(v.value, str)):
                tg = node.targets[0] if isinstance(node, ast.Assign) \
                    else node.target
                if isinstance(tg, ast.Name):
                    msg_vars.add(tg.id)
    for node in cfg.nodes:
        if node.kind != 'stmt' or node.id not in rd.live:
            continue
        s = node.ast
        if isinstance(s, ast.Assign) and isinstance(
                s.targets[0], ast.Name) and s.targets[0].id in msg_vars:
            okp, p = cfg.must_pass(
                node.id, {cfg.exit},
                lambda n: n.kind == 'raise',
                edge_ok=lambda a, b, lab: lab != 'exc')
            ctx.ob(rule, f'validate_taxonomy_tree:{unparse(s)[:50]}',
                   fi.loc(s), okp,
                   'the branch that builds this message raises' if okp
                   else 'an error message is built but the function can '
                   'return normally afterwards (the malformed tree is '
                   'accepted)',
                   witness=cfg.fmt_path(p) if p else None)
    # (b) the mandated checks, each as a guard whose taken branch raises
    guards = []
    for node in cfg.nodes:
        if node.kind != 'if' or node.id not in rd.live:
            continue
        raises = {}
        for (t, lab) in cfg.succ[node.id]:
            if lab in ('true', 'false'):
                enclosing = {n.id for n in cfg.nodes
                             if n.kind in ('for', 'while')
                             and _contains(n.ast, node.ast)}
                okp, _p = cfg.must_pass(
                    t, {cfg.exit} | enclosing,
                    lambda n: n.kind == 'raise',
                    edge_ok=lambda a, b, lab2: lab2 != 'exc')
                if cfg.nodes[t].kind == 'raise':
                    okp = True
                raises[lab] = okp
        tt = ex.expand(node.ast.test, node.id)
        guards.append((node, tt, raises))

    def norm(tt):
        """negations stripped and `in` turned into `not in`; returns the
        term and whether the outcome is thereby inverted"""
        flipped = False
        while tt[0] == 'unop' and tt[1] == 'Not':
            tt, flipped = tt[2], not flipped
        if tt[0] == 'cmp' and tt[1] == ('In',):
            tt, flipped = ('cmp', ('NotIn',), tt[2], tt[3]), not flipped
        return tt, flipped

    def has_guard(pred):
        for (node, tt, raises) in guards:
            core, flipped = norm(tt)
            edge = pred(core)
            if edge and flipped:
                edge = 'false' if edge == 'true' else 'true'
            if edge and raises.get(edge):
                return node
        return None

    COERCE = ('str', 'int', 'float', 'lower', 'upper', 'strip', 'repr',
              'casefold', 'title')

    def coerces(tt):
        """names are compared as they are stored: a test that first turns
        one side into a string (or number, or lower case) accepts a tree
        whose child lists do not hold the node names themselves"""
        return any(isinstance(x, tuple) and x and x[0] == 'call'
                   and T.call_name(x) in COERCE for x in T.subterms(tt))

    def p_missing_parent(tt):
        # child not in <union of the parents' child lists>
        if coerces(tt):
            return None
        if tt[0] == 'cmp' and tt[1] == ('NotIn',):
            right = tt[3][0]
            if T.has_call(right, 'union') or T.has_call(right, 'update') \
                    or T.has_call(right, 'add'):
                return 'true'
        return None

    def p_child_exists(tt):
        # this_child not in set(keys of child level)
        if coerces(tt):
            return None
        if tt[0] == 'cmp' and tt[1] == ('NotIn',):
            left = tt[2]
            right = tt[3][0]
            if left[0] == 'const' or not any(
                    x[0] == 'iterelem' for x in T.subterms(left)):
                return None
            if T.has_call(right, 'keys') and not T.has_call(right,
                                                            'union'):
                return 'true'
            if right[0] == 'sub' and not T.has_call(right, 'union'):
                return 'true'
        return None

    def p_two_parents(tt):
        # recorded parent != this parent
        if tt[0] == 'cmp' and tt[1] == ('NotEq',):
            return 'true'
        if tt[0] == 'cmp' and tt[1] == ('Eq',):
            return 'false'
        return None

    def p_unique_rows(tt):
        # counts from np.unique(..., return_counts) > 1, or
        # len(set(rows)) != len(rows)
        if tt[0] == 'cmp':
            if T.has_call(tt, 'unique') or T.has_call(tt, 'Counter'):
                return 'true'
            if T.has_call(tt, 'set') and T.has_call(tt, 'len'):
                return 'true'
        return None

    mandated = [
        ('every node below the top has a parent', p_missing_parent),
        ('every listed child exists at the child level', p_child_exists),
        ('no node has two parents', p_two_parents),
        ('no reference cell belongs to two leaves', p_unique_rows),
    ]
    for (what, pred) in mandated:
        g = has_guard(pred)
        ctx.ob('R-EXH/validator-checks', f'validate_taxonomy_tree:{what}',
               fi.loc(g.ast) if g is not None else fi.loc(),
               g is not None,
               f'guard `{g.text()[:70]}` raises' if g is not None else
               f'validate_taxonomy_tree has no raising check that {what}: '
               'trees violating it are accepted')


def check_builder_records_all(ctx):
    """the tree builder records every parent -> child link of every row of
    the label table before it validates: a link that is not recorded
    cannot be found inconsistent (a child under two parents would pass)"""
    from ..rules import coverage as CV
    db = ctx.db
    fi = db.fn('taxonomy.utils:get_taxonomy_tree')
    ctx.touch(fi)
    rule = 'R-COVER/builder-records-every-link'

    def is_link_add(node):
        # tree[parent_level][parent].add(child)
        for c in cfg_of(fi).calls_in(node):
            f = c.func
            if isinstance(f, ast.Attribute) and f.attr == 'add' \
                    and isinstance(f.value, ast.Subscript) and isinstance(
                        f.value.value, ast.Subscript):
                return True
        return False

    def is_leaf_append(node):
        for c in cfg_of(fi).calls_in(node):
            f = c.func
            if isinstance(f, ast.Attribute) and f.attr == 'append' \
                    and isinstance(f.value, ast.Subscript) and isinstance(
                        f.value.value, ast.Subscript):
                return True
        return False

    def _receiver(lp_):
        for n_ in ast.walk(lp_):
            if isinstance(n_, ast.Call) and isinstance(
                    n_.func, ast.Attribute) and n_.func.attr == 'add' \
                    and isinstance(n_.func.value, ast.Subscript):
                return unparse(n_.func.value)
        return ''

    def allow(test, edge, _lp=[None]):
        # `if child in links: continue`: the insertion is idempotent
        return CV.membership_skip_ok(test, edge, _lp[0], _receiver(_lp[0]))
    loops = {}
    for n in ast.walk(fi.node):
        if isinstance(n, ast.Call) and isinstance(n.func, ast.Attribute) \
                and isinstance(n.func.value, ast.Subscript) and isinstance(
                    n.func.value.value, ast.Subscript):
            lp = CV.innermost_loop(n)
            if lp is None:
                continue
            if n.func.attr == 'add':
                loops.setdefault('links', (lp, is_link_add))
            elif n.func.attr == 'append':
                loops.setdefault('rows', (lp, is_leaf_append))
    if 'links' not in loops:
        ctx.fail(rule, 'get_taxonomy_tree:links', fi.loc(),
                 'no loop recording parent -> child links was found')
    for name, (lp, act) in sorted(loops.items()):
        CV.check_cover(
            ctx, fi, rule, f'get_taxonomy_tree:{name}', lp, act,
            allow=(lambda t_, e_, _l=lp: CV.membership_skip_ok(
                t_, e_, _l, _receiver(_l))) if name == 'links' else None,
            what='level pair' if name == 'links' else 'row',
            consequence='that link never reaches validate_taxonomy_tree, '
            'so a table in which a node has two parents at that level is '
            'accepted')
    # the link loop runs for every row: its parent is the row loop
    if 'links' in loops and 'rows' in loops:
        ok = CV.contains(loops['rows'][0], loops['links'][0])
        ctx.ob(rule, 'get_taxonomy_tree:links-per-row', fi.loc(), ok,
               'links are recorded for every row' if ok else
               'the link loop is no longer inside the loop over rows')


def check_node_identity(ctx, modules, rule='R-KEY/node-identity', floor=1):
    """tables filled inside a loop over the taxonomy levels are keyed by
    (level, label), never by label alone (sa/rules/nodekeys.py)"""
    from ..rules.nodekeys import (check_node_keys, check_memo_keys,
                                  check_zip_alignment)
    n = 0
    for fi in ctx.db.iter_functions():
        if fi.module.short.startswith(tuple(modules)):
            n += check_node_keys(ctx, fi, rule)
            check_memo_keys(ctx, fi)
            check_zip_alignment(ctx, fi)
    if n < floor:
        raise AnalysisError(f'only {n} keyed stores inside loops over the '
                            f'levels found in {modules}')
    ctx.ok(rule, '+'.join(modules), 'package',
           f'{n} keyed stores inside loops over the taxonomy levels '
           'examined: every key chain contains the level',
           nontrivial=True)


def check_release_reader_records_all(ctx):
    """the reader of a data-release term table records every (parent,
    term) row before the tree is validated: a row may be passed over only
    for a reason that does not depend on what was read before (a level
    without a parent level) or because that very link is already there"""
    from ..rules import coverage as CV
    db = ctx.db
    fi = db.fn('taxonomy.data_release_utils:get_tree_above_leaves')
    ctx.touch(fi)
    cfg = cfg_of(fi)
    rule = 'R-COVER/release-reader-records-every-link'
    call = None
    for n in ast.walk(fi.node):
        if isinstance(n, ast.Call) and isinstance(n.func, ast.Attribute) \
                and n.func.attr in ('add', 'append') and isinstance(
                    n.func.value, ast.Subscript) and isinstance(
                        n.func.value.value, ast.Subscript):
            call = n
    if call is None:
        ctx.fail(rule, 'get_tree_above_leaves', fi.loc(),
                 'no recording of (parent, term) links found')
        return
    lp = CV.innermost_loop(call)
    recv = unparse(call.func.value)

    def act(node):
        return any(c is call for c in cfg.calls_in(node))
    CV.check_cover(
        ctx, fi, rule, 'get_tree_above_leaves:rows', lp, act,
        allow=lambda t_, e_: CV.membership_skip_ok(t_, e_, lp, recv),
        what='row',
        consequence='a term listed under a second parent is dropped '
        'before validation, and a table that is not a tree is accepted')


def check_pairs_from_tree(ctx):
    """which leaf pairs have to be told apart under a parent is decided by
    one routine (get_all_leaf_pairs) from the children of that parent.
    The tree's query method hands its result on; an answer it gives
    without the routine -- an early `return []` -- is right only if the
    test in front of it looks at that parent's own children.  A shortcut
    taken on anything coarser (the size of the level, the number of
    levels) leaves parents without their pairs, and no markers are
    selected for them."""
    from ..core.slicing import backward_slice
    from ..core.defuse import term_contains
    db = ctx.db
    fi = db.fn(TREE + '.leaves_to_compare')
    ctx.touch(fi)
    cfg = cfg_of(fi)
    rd = rd_of(fi)
    ex = Expander(fi)
    rule = 'R-MUST/pairs-from-the-tree'
    k = 0
    seen_routine = False
    for r in cfg.nodes:
        if r.kind != 'return' or r.id not in rd.live:
            continue
        v = r.ast.value
        sl = backward_slice(fi, v, r.id) if v is not None else None
        ok = sl is not None and 'get_all_leaf_pairs' in sl.call_names()
        why = 'the pairs come from get_all_leaf_pairs'
        if ok:
            seen_routine = True
        else:
            # guards in front of the shortcut
            tests = []
            p_ = getattr(r.ast, '_parent', None)
            while p_ is not None and p_ is not fi.node:
                if isinstance(p_, ast.If):
                    tests.append(p_)
                p_ = getattr(p_, '_parent', None)
            for iff in tests:
                ns = [x for x in cfg.nodes_of(iff) if x.kind == 'if'
                      and x.id in rd.live]
                if not ns:
                    continue
                t = ex.expand(iff.test, ns[0].id)
                own = term_contains(
                    t, lambda x: (len(x) == 3 and x[0] == 'sub'
                                  and x[1] == ('param', 'parent_node')
                                  and x[2] == ('const', '1')))
                kids = 'children' in backward_slice(
                    fi, iff.test, ns[0].id).call_names()
                if own or kids:
                    ok = True
                    why = ('the shortcut is taken on the children of the '
                           'parent itself')
        ctx.ob(rule, f'leaves_to_compare:return#{k}', fi.loc(r.ast), ok,
               why if ok else
               f'`{unparse(r.ast)[:50]}` answers without '
               'get_all_leaf_pairs, on a test that does not look at the '
               'children of the parent asked about: parents whose '
               'children do need telling apart get no pairs')
        k += 1
    if not seen_routine:
        raise AnalysisError('leaves_to_compare no longer returns the '
                            'result of get_all_leaf_pairs')


ROW_PRESERVING = {'copy', 'astype', 'fillna', 'rename', 'to_dict',
                  'reset_index', 'infer_objects', 'convert_dtypes'}


def check_rows_are_file_positions(ctx):
    """building the tree from an h5ad file numbers the cells of each leaf
    by their position among the records it is given, and those numbers
    are later used as row numbers of the file.  The records therefore
    have to be the file's obs rows, all of them, in file order: between
    reading the table and numbering the rows only operations that keep
    every row in place (selecting columns, copying, casting, filling
    missing values) may occur.  Dropping, filtering, sorting or sampling
    rows shifts every later cell to another leaf."""
    db = ctx.db
    rule = 'R-PROV/rows-are-file-positions'
    fi = db.fn('taxonomy.utils:get_taxonomy_tree_from_h5ad')
    builder = db.fn('taxonomy.utils:get_taxonomy_tree')
    ctx.touch(fi)
    cfg = cfg_of(fi)
    rd = rd_of(fi)
    ex = Expander(fi)
    n = 0
    for node in cfg.nodes:
        if node.id not in rd.live:
            continue
        for c in cfg.calls_in(node):
            if resolve_callee(db, fi, c) is not builder:
                continue
            mapping, _ = bind_args(builder, c)
            a = mapping.get('obs_records')
            if a is None:
                continue
            n += 1
            t = ex.expand(a, node.id)
            bad = None
            cur = t
            steps = 0
            while steps < 20:
                steps += 1
                if cur[0] == 'call' and T.call_name(cur) \
                        == 'read_df_from_h5ad':
                    break
                if cur[0] == 'call' and cur[1][0] == 'attr':
                    nm = cur[1][2]
                    if nm not in ROW_PRESERVING:
                        bad = f'.{nm}(...)'
                        break
                    if nm == 'reset_index' and not any(
                            k == 'drop' for (k, _v) in cur[3]):
                        pass
                    cur = cur[1][1]
                    continue
                if cur[0] == 'sub':
                    # column selection: a name, a list of names, or
                    # something made of the hierarchy parameter
                    idx = cur[2]
                    if idx[0] == 'const' or T.params_in(idx) <= {
                            'column_hierarchy'} and not any(
                                x[0] in ('cmp', 'unop') for x in
                                T.subterms(idx)):
                        cur = cur[1]
                        continue
                    bad = f'[{fmt_term(idx)[:40]}]'
                    break
                if cur[0] == 'call' and T.call_name(cur) in ('list',):
                    cur = cur[2][0] if cur[2] else cur
                    continue
                bad = fmt_term(cur)[:50]
                break
            ok = bad is None
            ctx.ob(rule, f'{fi.name}:records#{n - 1}', fi.loc(c), ok,
                   'the records numbered are the obs rows as read, all of '
                   'them, in file order' if ok else
                   f'between reading obs and numbering its rows stands '
                   f'`{bad}`, which does not keep every row in place: the '
                   'row numbers stored in the tree no longer point at the '
                   'cells they were taken from')
    if n == 0:
        raise AnalysisError('get_taxonomy_tree_from_h5ad no longer hands '
                            'obs records to get_taxonomy_tree')


def check_release_cells_unique(ctx):
    """on the data-release route "no reference cell belongs to two leaves"
    is enforced while the cell table is read: a cell that is already in
    the table raises.  Every insertion into the table that is returned
    must therefore come after a membership test of that very key against
    that very table (the whole of it, not the part read most recently);
    an insertion without it -- a bulk `update`, a store after a test
    against a per-chunk set -- lets a repeated cell through, the later
    row silently winning."""
    from ..core.guards import facts_at
    db = ctx.db
    rule = 'R-GUARD/unique-insert'
    fi = db.fn('taxonomy.data_release_utils:get_cell_to_cluster_alias')
    ctx.touch(fi)
    cfg = cfg_of(fi)
    rd = rd_of(fi)
    rets = [n for n in cfg.nodes if n.kind == 'return' and n.id in rd.live
            and isinstance(n.ast.value, ast.Name)]
    if not rets:
        raise AnalysisError('get_cell_to_cluster_alias: returned table '
                            'not found')
    table = rets[0].ast.value.id
    k = 0
    for n in cfg.nodes:
        if n.id not in rd.live or n.ast is None:
            continue
        st = n.ast
        ins_key = None
        bulk = None
        if isinstance(st, ast.Assign) and isinstance(
                st.targets[0], ast.Subscript) and isinstance(
                    st.targets[0].value, ast.Name) \
                and st.targets[0].value.id == table:
            ins_key = st.targets[0].slice
        for c in cfg.calls_in(n):
            f = c.func
            if isinstance(f, ast.Attribute) and f.attr in (
                    'update', 'setdefault') and isinstance(
                        f.value, ast.Name) and f.value.id == table:
                bulk = c
        if ins_key is None and bulk is None:
            continue
        ok = False
        if ins_key is not None:
            for (_g, test, truth) in facts_at(cfg, rd, n.id):
                if isinstance(test, ast.Compare) and isinstance(
                        test.ops[0], ast.In) and not truth \
                        and unparse(test.left) == unparse(ins_key) \
                        and isinstance(test.comparators[0], ast.Name) \
                        and test.comparators[0].id == table:
                    # the taken branch of that test raises
                    ok = True
        ctx.ob(rule, f'get_cell_to_cluster_alias:insert#{k}',
               fi.loc(bulk if bulk is not None else st), ok,
               'a cell is entered only after it was found absent from the '
               'whole table' if ok else
               f'`{unparse(bulk if bulk is not None else st)[:60]}` enters '
               'cells into the table without a test of each cell against '
               'the table as a whole: a cell listed twice is accepted and '
               'ends up in the cluster of its last row')
        k += 1
    if k == 0:
        raise AnalysisError('get_cell_to_cluster_alias: no insertion into '
                            'the returned table found')


def check_merged_files_share_one_tree(ctx, rule='R-GUARD/one-tree-per-merge'):
    """statistics files are merged under the tree of one of them; the
    merged file is a strict tree for the clusters of all of them only if
    every file's tree is that same tree.  Wherever a function of the
    statistics code builds a tree per file in a loop
    (`TaxonomyTree.from_precomputed_stats(path)`) and keeps one of them,
    each further tree is compared with the kept one *as a tree*
    (`is_equal_to` / `==` / `!=` between the two objects) and a difference
    raises.  A comparison of parts (hierarchy, leaf names) lets two files
    that disagree on who is whose parent through."""
    from ..core.resolve import local_types
    db = ctx.db
    n = 0
    for fi in db.iter_functions():
        if not fi.module.short.startswith('diff_exp.'):
            continue
        for lp in ast.walk(fi.node):
            if not isinstance(lp, ast.For):
                continue
            made = [st for st in lp.body if isinstance(st, ast.Assign)
                    and isinstance(st.targets[0], ast.Name)
                    and isinstance(st.value, ast.Call)
                    and getattr(st.value.func, 'attr', None)
                    == 'from_precomputed_stats']
            if not made:
                continue
            per_file = made[0].targets[0].id
            # the tree that is kept: a name assigned from the per-file one
            kept = {st.targets[0].id for st in ast.walk(lp)
                    if isinstance(st, ast.Assign)
                    and isinstance(st.targets[0], ast.Name)
                    and isinstance(st.value, ast.Name)
                    and st.value.id == per_file}
            if not kept:
                continue
            n += 1
            ok = False
            for iff in ast.walk(lp):
                if not isinstance(iff, ast.If):
                    continue
                test = iff.test
                neg = False
                while isinstance(test, ast.UnaryOp) and isinstance(
                        test.op, ast.Not):
                    neg = not neg
                    test = test.operand
                parts = test.values if isinstance(test, ast.BoolOp) \
                    and isinstance(test.op, ast.Or) and not neg else [test]
                for part in parts:
                    pneg = neg
                    while isinstance(part, ast.UnaryOp) and isinstance(
                            part.op, ast.Not):
                        pneg = not pneg
                        part = part.operand
                    pair = None
                    differs = None
                    if isinstance(part, ast.Call) and isinstance(
                            part.func, ast.Attribute) \
                            and part.func.attr == 'is_equal_to' \
                            and len(part.args) == 1:
                        pair = (part.func.value, part.args[0])
                        differs = pneg
                    elif isinstance(part, ast.Compare) \
                            and len(part.ops) == 1 and isinstance(
                                part.ops[0], (ast.Eq, ast.NotEq)):
                        pair = (part.left, part.comparators[0])
                        differs = isinstance(part.ops[0], ast.NotEq) != pneg
                    if pair is None or not all(
                            isinstance(x, ast.Name) for x in pair):
                        continue
                    names = {pair[0].id, pair[1].id}
                    if per_file in names and names & kept \
                            and len(names) == 2:
                        branch = iff.body if differs else iff.orelse
                        if any(isinstance(x, ast.Raise)
                               for st in branch for x in ast.walk(st)):
                            ok = True
            ctx.touch(fi)
            ctx.ob(rule, f'{fi.qual}:for {unparse(lp.target)}', fi.loc(lp),
                   ok, 'every further tree is compared with the kept one '
                   'as a tree, and a difference raises' if ok else
                   f'{fi.name} keeps the tree of one file '
                   f'(`{sorted(kept)[0]}`) for all of them, and no test '
                   f'that raises compares `{per_file}` with it as a whole '
                   '(is_equal_to / == / !=): files whose trees disagree on '
                   'parentage are merged under one of the trees')
    ctx.floor(rule, 1)
    return n
