"""validate_h5ad on a file whose requested layer is a sparse matrix stored
without HDF5 chunking (what anndata writes by default)"""
import tempfile, pathlib
import numpy as np, scipy.sparse as sp, anndata, pandas as pd, h5py
from cell_type_mapper.validation.validate_h5ad import validate_h5ad
from cell_type_mapper.gene_id.gene_id_mapper import GeneIdMapper

tmp = pathlib.Path(tempfile.mkdtemp(dir='/tmp/f8'))
rng = np.random.default_rng(3)
n_cells, n_genes = 12, 8
counts = rng.integers(0, 9, size=(n_cells, n_genes)).astype(np.float32)
counts[counts < 4] = 0
var = pd.DataFrame(index=[f'ENSMUSG{i:011d}' for i in range(n_genes)])
obs = pd.DataFrame(index=[f'c{i}' for i in range(n_cells)])
a = anndata.AnnData(X=sp.csr_matrix(np.zeros_like(counts)), obs=obs, var=var,
                    layers={'raw': sp.csr_matrix(counts)})
src = tmp / 'in.h5ad'
a.write_h5ad(src)
# store the layer's arrays contiguously (no HDF5 chunking), as a plain
# h5py writer does
with h5py.File(src, 'a') as f:
    g = f['layers/raw']
    for k in ('data', 'indices', 'indptr'):
        v = g[k][()]
        del g[k]
        g.create_dataset(k, data=v)
    print('chunks of layers/raw/data:', g['data'].chunks)
out = tmp / 'out.h5ad'
res = validate_h5ad(h5ad_path=src, layer='raw', valid_h5ad_path=out,
                    gene_id_mapper=GeneIdMapper.from_species('mouse'),
                    tmp_dir=tmp)
b = anndata.read_h5ad(res[0])
X = b.X.toarray() if sp.issparse(b.X) else np.asarray(b.X)
assert np.array_equal(X, counts), 'X of the validated file differs from the requested layer'
print('OK')
