"""pairs with a one-cell cluster: direct route records no marker, the
p-value-mask route does"""
import json, tempfile, pathlib
import numpy as np, h5py
from cell_type_mapper.taxonomy.taxonomy_tree import TaxonomyTree
from cell_type_mapper.diff_exp.markers import find_markers_for_all_taxonomy_pairs
from cell_type_mapper.diff_exp.p_value_mask import create_p_value_mask_file
from cell_type_mapper.diff_exp.p_value_markers import find_markers_for_all_taxonomy_pairs_from_p_mask

rng = np.random.default_rng(5)
n_genes = 4
clusters = {'a': 1, 'b': 10, 'c': 12}
tree = TaxonomyTree(data={
    'hierarchy': ['cluster'],
    'cluster': {k: [f'{k}_{i}' for i in range(n)] for k, n in clusters.items()}})
tmp = pathlib.Path(tempfile.mkdtemp(dir='/tmp/f7'))
stats = tmp / 'stats.h5'
names = sorted(clusters)
with h5py.File(stats, 'w') as f:
    f.create_dataset('taxonomy_tree', data=tree.to_str().encode())
    f.create_dataset('metadata', data=json.dumps({}).encode())
    f.create_dataset('col_names', data=json.dumps([f'g{i}' for i in range(n_genes)]).encode())
    f.create_dataset('cluster_to_row', data=json.dumps({k: i for i, k in enumerate(names)}).encode())
    n_cells = np.array([clusters[k] for k in names])
    f.create_dataset('n_cells', data=n_cells)
    s = np.zeros((3, n_genes)); ss = np.zeros((3, n_genes)); ge1 = np.zeros((3, n_genes), dtype=int); gt0 = np.zeros((3, n_genes), dtype=int); gt1 = np.zeros((3, n_genes), dtype=int)
    for i, k in enumerate(names):
        x = np.zeros((clusters[k], n_genes))
        if k == 'b':
            x[:6, 0] = 12.6
            x[:, 3] = 8.0 + 0.01*np.arange(clusters[k])
            x[:, 1] = 3.0 + 0.01*np.arange(clusters[k])
        if k == 'c':
            x[:, 2] = 8.0 + 0.01*np.arange(clusters[k])
            x[:, 1] = 3.0 + 0.01*np.arange(clusters[k])
        s[i] = x.sum(0); ss[i] = (x**2).sum(0); ge1[i] = (x >= 1).sum(0); gt0[i] = (x > 0).sum(0); gt1[i] = (x > 1).sum(0)
    for nm, arr in (('sum', s), ('sumsq', ss), ('ge1', ge1), ('gt0', gt0), ('gt1', gt1)):
        f.create_dataset(nm, data=arr)

def pairs_with_markers(path):
    with h5py.File(path, 'r') as f:
        pair_to_idx = json.loads(f['pair_to_idx'][()].decode())
        up = f['sparse_by_pair/up_pair_idx'][()]; dn = f['sparse_by_pair/down_pair_idx'][()]
    out = {}
    for n1 in pair_to_idx['cluster']:
        for n2, idx in pair_to_idx['cluster'][n1].items():
            out[(n1, n2)] = int(up[idx+1]-up[idx] + dn[idx+1]-dn[idx])
    return out

direct = tmp / 'direct.h5'
find_markers_for_all_taxonomy_pairs(precomputed_stats_path=stats, taxonomy_tree=tree, output_path=direct, n_processors=1, tmp_dir=tmp, exact_penetrance=False, n_valid=3)
mask = tmp / 'mask.h5'
create_p_value_mask_file(precomputed_stats_path=stats, dst_path=mask, n_processors=1, tmp_dir=tmp)
via = tmp / 'via_mask.h5'
find_markers_for_all_taxonomy_pairs_from_p_mask(precomputed_stats_path=stats, p_value_mask_path=mask, output_path=via, n_processors=1, tmp_dir=tmp, n_valid=3)
d = pairs_with_markers(direct); v = pairs_with_markers(via)
print('direct route  :', d)
print('p-mask route  :', v)
bad = [p for p in v if 'a' in p and v[p] > 0]
assert not bad, f'p-value-mask route records markers for pairs with a one-cell cluster: {bad}'
print('OK')
