"""p-value-mask route with a number of leaf pairs that leaves a chunk of a
single pair for some worker counts (18 leaves = 153 pairs, 6 workers ->
chunks of 8, the last one holding pair 152 alone)"""
import json, tempfile, pathlib
import numpy as np, h5py
from cell_type_mapper.taxonomy.taxonomy_tree import TaxonomyTree
from cell_type_mapper.diff_exp.p_value_mask import create_p_value_mask_file
from cell_type_mapper.diff_exp.p_value_markers import find_markers_for_all_taxonomy_pairs_from_p_mask

tmp = pathlib.Path(tempfile.mkdtemp(dir='/tmp/f9'))
n_genes = 40
rng = np.random.default_rng(2)
clusters = {f'c{i:02d}': 12 for i in range(18)}
tree = TaxonomyTree(data={'hierarchy': ['cluster'],
    'cluster': {k: [f'{k}_{i}' for i in range(n)] for k, n in clusters.items()}})
names = sorted(clusters)
stats = tmp / 'stats.h5'
with h5py.File(stats, 'w') as f:
    f.create_dataset('taxonomy_tree', data=tree.to_str().encode())
    f.create_dataset('metadata', data=json.dumps({}).encode())
    f.create_dataset('col_names', data=json.dumps([f'g{i}' for i in range(n_genes)]).encode())
    f.create_dataset('cluster_to_row', data=json.dumps({k: i for i, k in enumerate(names)}).encode())
    f.create_dataset('n_cells', data=np.array([clusters[k] for k in names]))
    arrs = {k: np.zeros((len(names), n_genes)) for k in ('sum', 'sumsq')}
    cnt = {k: np.zeros((len(names), n_genes), dtype=int) for k in ('ge1', 'gt0', 'gt1')}
    for i, k in enumerate(names):
        base = np.zeros(n_genes); base[(2*i) % n_genes] = 6.0; base[(2*i+1) % n_genes] = 6.0
        x = np.clip(base[None, :] + rng.normal(0, 0.2, size=(clusters[k], n_genes)), 0, None)
        arrs['sum'][i] = x.sum(0); arrs['sumsq'][i] = (x**2).sum(0)
        cnt['ge1'][i] = (x >= 1).sum(0); cnt['gt0'][i] = (x > 0).sum(0); cnt['gt1'][i] = (x > 1).sum(0)
    for k, v in {**arrs, **cnt}.items():
        f.create_dataset(k, data=v)

def run(n_proc):
    mask = tmp / f'mask_{n_proc}.h5'
    create_p_value_mask_file(precomputed_stats_path=stats, dst_path=mask, n_processors=n_proc, tmp_dir=tmp)
    out = tmp / f'markers_{n_proc}.h5'
    find_markers_for_all_taxonomy_pairs_from_p_mask(precomputed_stats_path=stats, p_value_mask_path=mask,
        output_path=out, n_processors=n_proc, tmp_dir=tmp, n_valid=5)
    with h5py.File(out, 'r') as f:
        return {k: f[f'sparse_by_pair/{k}'][()] for k in ('up_pair_idx', 'up_gene_idx', 'down_pair_idx', 'down_gene_idx')}

base = run(1)
problems = []
for n_proc in (4, 6):
    try:
        other = run(n_proc)
        for k in base:
            assert np.array_equal(base[k], other[k]), f'{k} differs for {n_proc} workers'
    except Exception as e:
        problems.append(f'{n_proc} workers: {type(e).__name__}: {e}')
assert not problems, '\n'.join(problems)
print('OK')
