"""reference markers for a reference in which every marker points the same
way (or no gene is a marker at all): the marker file must be written, with
the markers that exist"""
import json, tempfile, pathlib
import numpy as np, h5py
from cell_type_mapper.taxonomy.taxonomy_tree import TaxonomyTree
from cell_type_mapper.diff_exp.markers import find_markers_for_all_taxonomy_pairs
from cell_type_mapper.diff_exp.p_value_mask import create_p_value_mask_file

def build(tmp, clusters, up_only):
    n_genes = 40
    rng = np.random.default_rng(11)
    tree = TaxonomyTree(data={'hierarchy': ['cluster'],
        'cluster': {k: [f'{k}_{i}' for i in range(n)] for k, n in clusters.items()}})
    names = sorted(clusters)
    stats = tmp / f'stats_{len(clusters)}_{up_only}.h5'
    with h5py.File(stats, 'w') as f:
        f.create_dataset('taxonomy_tree', data=tree.to_str().encode())
        f.create_dataset('metadata', data=json.dumps({}).encode())
        f.create_dataset('col_names', data=json.dumps([f'g{i}' for i in range(n_genes)]).encode())
        f.create_dataset('cluster_to_row', data=json.dumps({k: i for i, k in enumerate(names)}).encode())
        f.create_dataset('n_cells', data=np.array([clusters[k] for k in names]))
        arrs = {k: np.zeros((len(names), n_genes)) for k in ('sum', 'sumsq')}
        cnt = {k: np.zeros((len(names), n_genes), dtype=int) for k in ('ge1', 'gt0', 'gt1')}
        for i, k in enumerate(names):
            base = np.full(n_genes, 0.0)
            if up_only and k == 'b':
                base[:10] = 6.0          # b expresses genes a does not; a expresses nothing special
            x = np.clip(base[None, :] + rng.normal(0, 0.2, size=(clusters[k], n_genes)), 0, None)
            arrs['sum'][i] = x.sum(0); arrs['sumsq'][i] = (x**2).sum(0)
            cnt['ge1'][i] = (x >= 1).sum(0); cnt['gt0'][i] = (x > 0).sum(0); cnt['gt1'][i] = (x > 1).sum(0)
        for k, v in {**arrs, **cnt}.items():
            f.create_dataset(k, data=v)
    return tree, stats

tmp = pathlib.Path(tempfile.mkdtemp(dir='/tmp/f9'))
problems = []
# (1) two clusters, every marker up-regulated in b: no down-regulated gene anywhere
tree, stats = build(tmp, {'a': 20, 'b': 20}, up_only=True)
try:
    find_markers_for_all_taxonomy_pairs(precomputed_stats_path=stats, taxonomy_tree=tree,
        output_path=tmp / 'm1.h5', n_processors=1, tmp_dir=tmp)
    with h5py.File(tmp / 'm1.h5', 'r') as f:
        n = f['sparse_by_pair/up_gene_idx'].shape[0] + f['sparse_by_pair/down_gene_idx'].shape[0]
    assert n > 0
except Exception as e:
    problems.append(f'direct route, one-directional markers: {type(e).__name__}: {e}')
# (2) no gene passes the p-value test for any pair: the mask has no stored entry
tree, stats = build(tmp, {'a': 20, 'b': 20}, up_only=False)
try:
    create_p_value_mask_file(precomputed_stats_path=stats, dst_path=tmp / 'mask2.h5',
        n_processors=1, tmp_dir=tmp)
except Exception as e:
    problems.append(f'p-value mask, no significant gene: {type(e).__name__}: {e}')
assert not problems, '\n'.join(problems)
print('OK')
