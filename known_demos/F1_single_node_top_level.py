import numpy as np, json, tempfile, h5py, pathlib
from cell_type_mapper.taxonomy.taxonomy_tree import TaxonomyTree
from cell_type_mapper.cell_by_gene.cell_by_gene import CellByGeneMatrix
from cell_type_mapper.type_assignment.election import run_type_assignment
from cell_type_mapper.type_assignment.marker_cache_v2 import create_marker_cache_from_specified_markers
tree = TaxonomyTree(data={'hierarchy':['class','cluster'],'class':{'A':['c1','c2']},'cluster':{'c1':[],'c2':[]}})
genes=[f'g{i}' for i in range(6)]
rng=np.random.default_rng(1)
tmp=pathlib.Path(tempfile.mkdtemp())
cache=tmp/'cache.h5'
create_marker_cache_from_specified_markers(marker_lookup={'None':genes[:3],'class/A':genes}, reference_gene_names=genes, query_gene_names=genes, output_cache_path=cache, taxonomy_tree=tree, min_markers=1)
q=CellByGeneMatrix(data=rng.random((4,6)),gene_identifiers=genes,normalization='log2CPM')
leaf=CellByGeneMatrix(data=rng.random((2,6)),gene_identifiers=genes,normalization='log2CPM',cell_identifiers=['c1','c2'])
res=run_type_assignment(full_query_gene_data=q,leaf_node_matrix=leaf,marker_gene_cache_path=cache,taxonomy_tree=tree,bootstrap_factor_lookup={'None':1.0,'class':1.0},bootstrap_iteration=3,rng=rng)
print(res[0]['class'], res[0]['cluster']['avg_correlation'])
assert res[0]['class']['avg_correlation']==res[0]['cluster']['avg_correlation']
print('OK')
