"""
Demonstration for the F3 fix (zero-length / oversized HDF5 chunk extents).
Fails with h5py ValueError before the fix, passes after it.
  /venv/bin/python known_demos/F3_empty_and_small_sparse_transpose.py
"""
import pathlib
import tempfile

import h5py
import numpy as np
import scipy.sparse

from cell_type_mapper.utils.csc_to_csr import transpose_sparse_matrix_on_disk
from cell_type_mapper.utils.csc_to_csr_parallel import (
    transpose_sparse_matrix_on_disk_v2)
from cell_type_mapper.utils.utils import _clean_up

tmp = pathlib.Path(tempfile.mkdtemp())
try:
    # 1. a matrix with no stored entry at all, with a value array
    empty = scipy.sparse.csc_matrix(np.zeros((4, 3)))
    src = tmp / 'empty.h5'
    with h5py.File(src, 'w') as f:
        f.create_dataset('data', data=empty.data)
        f.create_dataset('indices', data=empty.indices)
        f.create_dataset('indptr', data=empty.indptr)
    dst = tmp / 'empty_t.h5'
    with h5py.File(src, 'r') as f:
        transpose_sparse_matrix_on_disk(
            indices_handle=f['indices'], indptr_handle=f['indptr'],
            data_handle=f['data'], indices_max=4, max_gb=1,
            output_path=dst, verbose=False)
    with h5py.File(dst, 'r') as f:
        assert f['indptr'][()].tolist() == [0, 0, 0, 0, 0]
        assert f['data'].shape == (0,)

    # 2. parallel transposition of a matrix with fewer stored entries
    #    than rows (2 entries, 4x4)
    dense = np.zeros((4, 4))
    dense[1, 2] = 3.0
    dense[3, 0] = 5.0
    small = scipy.sparse.csc_matrix(dense)
    src = tmp / 'small.h5'
    with h5py.File(src, 'w') as f:
        f.create_dataset('data', data=small.data)
        f.create_dataset('indices', data=small.indices)
        f.create_dataset('indptr', data=small.indptr)
    dst = tmp / 'small_t.h5'
    transpose_sparse_matrix_on_disk_v2(
        h5_path=src, indices_tag='indices', indptr_tag='indptr',
        data_tag='data', indices_max=4, max_gb=1, output_path=dst,
        tmp_dir=tmp, n_processors=2)
    with h5py.File(dst, 'r') as f:
        got = scipy.sparse.csr_matrix(
            (f['data'][()], f['indices'][()], f['indptr'][()]),
            shape=(4, 4)).toarray()
    np.testing.assert_array_equal(got, dense)
    print('OK')
finally:
    _clean_up(tmp)
