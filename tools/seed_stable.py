#!/venv/bin/python
"""Run the pinned stable tests (only the files that contain them) against
the worktree of one seeded change; print which stable tests no longer pass.
Development helper only."""
import json, os, subprocess, sys, xml.etree.ElementTree as ET
sid = sys.argv[1]
d = sys.argv[2] if len(sys.argv) > 2 else f'/tmp/seed/{sid}'
wt = f'{d}/wt'
base = json.load(open('/root/.vp/BASELINE.json'))
stable = set(base['stable_pass'])
files = sorted({s.split('::')[0].replace('.', '/') + '.py' for s in stable})
junit = f'{d}/junit_stable_eval.xml'
env = dict(os.environ, PYTHONPATH=f'{wt}/src')
r = subprocess.run(['/venv/bin/python', '-m', 'pytest', '-q', '-p',
                    'no:cacheprovider', '--timeout=900',
                    '--continue-on-collection-errors',
                    f'--junitxml={junit}'] + files, cwd=wt, env=env,
                   capture_output=True, text=True)
passed = set()
for tc in ET.parse(junit).getroot().iter('testcase'):
    if not list(tc):
        passed.add(f"{tc.get('classname')}::{tc.get('name')}")
missing = sorted(stable - passed)
res = {'id': sid, 'stable': len(stable), 'passed_stable': len(stable & passed),
       'missing': missing}
json.dump(res, open(f'{d}/stable_eval.json', 'w'), indent=1)
print(sid, 'stable', len(stable), 'passing', len(stable & passed), 'missing', missing[:5])
