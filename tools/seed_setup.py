#!/venv/bin/python
"""
Prepare a seeding round: for every property given (default: all claimed)
create <root>/<ID>/{property.json, AVOID.txt, wt (git worktree of /repo)}
and <root>/prompt_template.txt.  The sub-agents get nothing from /verif:
the property text, the list of files / functions earlier rounds used for
that property (so that they choose another place) and the worktree.

Development helper only; no registered command uses it.
"""
import glob
import json
import os
import re
import subprocess
import sys

VERIF = os.path.dirname(os.path.dirname(os.path.abspath(__file__)))


def main():
    root = sys.argv[1]
    ids = sys.argv[2:]
    avoid = {}
    for d in sorted(glob.glob(f'{VERIF}/seeded/C*')):
        m = json.load(open(d + '/meta.json'))
        patch = open(d + '/patch.diff').read()
        files = sorted(set(re.findall(
            r'^\+\+\+ b/src/cell_type_mapper/(\S+)', patch, re.M)))
        funcs = set(re.findall(
            r'^@@.*@@\s*(?:def|class)\s+(\w+)', patch, re.M))
        # ... and the functions that enclose the changed lines (the hunk
        # header names the preceding def, which may be another one)
        cur = None
        old_line = 0
        touched = {}
        for ln in patch.splitlines():
            m2 = re.match(r'^\+\+\+ b/(\S+)', ln)
            if m2:
                cur = m2.group(1)
                continue
            m2 = re.match(r'^@@ -(\d+)', ln)
            if m2:
                old_line = int(m2.group(1))
                continue
            if cur is None or ln.startswith(('---', 'diff ', 'index ')):
                continue
            if ln.startswith('-'):
                touched.setdefault(cur, set()).add(old_line)
                old_line += 1
            elif ln.startswith('+'):
                touched.setdefault(cur, set()).add(old_line)
            else:
                old_line += 1
        import ast as _ast
        for f_, lines in touched.items():
            try:
                tree = _ast.parse(open('/repo/' + f_).read())
            except (OSError, SyntaxError):
                continue
            for nd in _ast.walk(tree):
                if isinstance(nd, (_ast.FunctionDef, _ast.ClassDef)) \
                        and any(nd.lineno <= x <= nd.end_lineno
                                for x in lines):
                    funcs.add(nd.name)
        funcs = sorted(funcs)
        avoid.setdefault(m['property'], []).append(
            f"{', '.join(files)} ({', '.join(funcs) or 'see file'})")
    os.makedirs(root, exist_ok=True)
    for line in open(f'{VERIF}/properties.jsonl'):
        d = json.loads(line)
        if ids and d['id'] not in ids:
            continue
        if not ids and d['id'] not in avoid:
            continue
        dd = f"{root}/{d['id']}"
        os.makedirs(dd, exist_ok=True)
        json.dump(d, open(f'{dd}/property.json', 'w'), indent=1)
        open(f'{dd}/AVOID.txt', 'w').write(
            '\n'.join(avoid.get(d['id'], [])) + '\n')
        hints = json.load(open(f'{VERIF}/tools/seed_hints.json'))
        open(f'{dd}/HINT.txt', 'w').write(hints.get(d['id'], '') + '\n')
        subprocess.run(['git', '-C', '/repo', 'worktree', 'add', '--detach',
                        f'{dd}/wt', 'HEAD'], capture_output=True)
    t = open(f'{VERIF}/tools/seed_prompt_template.txt').read()
    open(f'{root}/prompt_template.txt', 'w').write(
        t.replace('@ROOT@', root))
    print('ready', root)


if __name__ == '__main__':
    main()
