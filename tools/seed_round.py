#!/venv/bin/python
"""
Helpers for a whole seeding round under ROOT (one directory per property
with patch.diff, demo.py, NOTES.md and the worktree wt):

  seed_round.py eval   ROOT          every claimed check on every patch
                                     (scratch copies); writes ROOT/first.json
  seed_round.py verify ROOT          demos with / without the change and the
                                     stable tests, for every patch
  seed_round.py store  ROOT N        copy to /verif/seeded/<ID>-rN with
                                     meta.json (needs ROOT/needs.json:
                                     {ID: "what it needs to manifest"}),
                                     remove the worktrees and ROOT

Development helper only; no registered command uses it.
"""
import json
import os
import shutil
import subprocess
import sys
from concurrent.futures import ThreadPoolExecutor

VERIF = os.path.dirname(os.path.dirname(os.path.abspath(__file__)))
PY = '/venv/bin/python'


def ids_of(root):
    return sorted(d for d in os.listdir(root)
                  if os.path.isfile(f'{root}/{d}/patch.diff'))


def sh(cmd):
    return subprocess.run(cmd, shell=True, capture_output=True, text=True)


def cmd_eval(root):
    first = {}

    def one(i):
        r = sh(f'cd {VERIF} && {PY} tools/seed_matrix.py --patch '
               f'{root}/{i}/patch.diff --prop {i} --all')
        fired = []
        for line in r.stdout.splitlines():
            if line.startswith('fired:'):
                fired = json.loads(line[len('fired:'):].strip().replace(
                    "'", '"'))
        return i, fired, r.stdout
    with ThreadPoolExecutor(4) as ex:
        for i, fired, out in ex.map(one, ids_of(root)):
            first[i] = fired
            own = 'OWN ' if i in fired else 'miss'
            print(f'{i} {own} fired={fired}')
            if i not in fired:
                continue
            for line in out.splitlines():
                if line.strip().startswith('R-') and False:
                    print('     ', line.strip()[:160])
    p = f'{root}/first.json'
    if not os.path.exists(p):
        json.dump(first, open(p, 'w'), indent=1)
        print('written', p)
    else:
        print('(first.json exists: not overwritten)')


def cmd_verify(root):
    ids = ids_of(root)

    def demo(i):
        sh(f'cd {VERIF} && {PY} tools/seed_eval.py {i} --dir {root}/{i} '
           f'--skip-checks > {root}/{i}/eval.log 2>&1')
        return i
    with ThreadPoolExecutor(8) as ex:
        list(ex.map(demo, ids))

    def stable(i):
        sh(f'cd {VERIF} && {PY} tools/seed_stable.py {i} {root}/{i} '
           f'> {root}/{i}/stable.log 2>&1')
        return i
    with ThreadPoolExecutor(5) as ex:
        list(ex.map(stable, ids))
    for i in ids:
        try:
            ev = json.load(open(f'{root}/{i}/eval.json'))
            st = json.load(open(f'{root}/{i}/stable_eval.json'))
            ok = ev['demo_with_change'] != 0 and ev[
                'demo_without_change'] == 0 and not st['missing']
            print(i, 'OK ' if ok else 'BAD', 'with', ev['demo_with_change'],
                  'without', ev['demo_without_change'], 'stable',
                  f"{st['passed_stable']}/{st['stable']}")
        except Exception as e:
            print(i, 'ERROR', repr(e)[:100])


def cmd_store(root, rnd):
    props = {json.loads(x)['id']: json.loads(x)
             for x in open(f'{VERIF}/properties.jsonl')}
    needs = json.load(open(f'{root}/needs.json'))
    first = json.load(open(f'{root}/first.json'))
    for i in ids_of(root):
        ev = json.load(open(f'{root}/{i}/eval.json'))
        st = json.load(open(f'{root}/{i}/stable_eval.json'))
        assert ev['demo_with_change'] != 0 and ev[
            'demo_without_change'] == 0 and not st['missing'], i
        dst = f'{VERIF}/seeded/{i}-r{rnd}'
        os.makedirs(dst, exist_ok=True)
        for f in ('patch.diff', 'demo.py', 'NOTES.md'):
            shutil.copy(f'{root}/{i}/{f}', f'{dst}/{f}')
        meta = {
            'property': i, 'round': int(rnd), 'title': props[i]['title'],
            'origin': 'written by an independent sub-agent that saw only '
            'the property text, a scratch worktree of /repo and the files '
            '/ functions used in earlier rounds for this property (to '
            'avoid them; asked for a change in another file or two '
            'cooperating sites); nothing from /verif',
            'needs_to_manifest': needs[i],
            'confirmed': {
                'demo_with_change_exit': ev['demo_with_change'],
                'demo_without_change_exit': ev['demo_without_change'],
                'stable_tests_passing_with_change':
                    f"{st['passed_stable']}/{st['stable']}",
                'how': [
                    'tools/seed_eval.py --skip-checks: PYTHONPATH='
                    '<worktree>/src /venv/bin/python demo.py with the '
                    'change and after git apply -R',
                    'tools/seed_stable.py: pytest over the files that hold '
                    'the 479 stable tests with PYTHONPATH=<worktree>/src, '
                    'junit compared with BASELINE.stable_pass',
                    'tools/seed_matrix.py --patch patch.diff --prop <id> '
                    '--all: every claimed check on a scratch copy with the '
                    'patch applied']},
            'checks_firing_at_first_evaluation': first.get(i, []),
        }
        json.dump(meta, open(f'{dst}/meta.json', 'w'), indent=1)
        sh(f'git -C /repo worktree remove --force {root}/{i}/wt')
    sh('git -C /repo worktree prune')
    shutil.rmtree(root, ignore_errors=True)
    print('stored', len(needs), 'worktrees left:',
          sh('git -C /repo worktree list').stdout.strip())


if __name__ == '__main__':
    c = sys.argv[1]
    if c == 'eval':
        cmd_eval(sys.argv[2])
    elif c == 'verify':
        cmd_verify(sys.argv[2])
    elif c == 'store':
        cmd_store(sys.argv[2], sys.argv[3])
