#!/venv/bin/python
"""
Run the claimed checks against every stored seeded change.

Each patch under seeded/<id>/patch.diff is applied to a scratch copy of the
package (outside /repo and /verif, removed at once) and the check of the
seeded property -- and with --all every claimed check -- is run on it with
--repo <scratch>.  Prints which checks report a violation.  The scratch
copy is analysed, never executed.  Development helper, not registered.
"""
import argparse
import json
import multiprocessing
import os
import pathlib
import shutil
import subprocess
import sys

VERIF = pathlib.Path(__file__).resolve().parent.parent
sys.path.insert(0, str(VERIF))


def job(a):
    sid, prop, repo = a
    patch_file = sid if os.path.isfile(sid) else str(
        VERIF / 'seeded' / sid / 'patch.diff')
    from sa.selftest.driver import make_copy, _scratch_root
    from sa.run import analyse
    from sa.core.loader import AnalysisError
    root = _scratch_root()
    try:
        make_copy(repo, root)
        r = subprocess.run(['git', 'apply', '--unsafe-paths',
                            f'--directory={root}', patch_file],
                           capture_output=True, text=True, cwd=root)
        if r.returncode:
            r = subprocess.run(['patch', '-p1', '-d', root, '-i',
                                patch_file],
                               capture_output=True, text=True)
            if r.returncode:
                return sid, prop, 3, [r.stdout + r.stderr]
        try:
            code, ev, ctx = analyse(prop, root, 'quick',
                                    write_evidence=False, quiet=True)
            detail = [f'{o.rule} {o.key}: {o.detail}'[:260]
                      for o in ctx.obligations if not o.ok
                      and not o.advisory]
        except AnalysisError as e:
            code, detail = 2, [str(e)[:260]]
        return sid, prop, code, detail
    finally:
        shutil.rmtree(root, ignore_errors=True)


def main():
    from sa.run import CLAIMED
    ap = argparse.ArgumentParser()
    ap.add_argument('ids', nargs='*')
    ap.add_argument('--all', action='store_true',
                    help='run every claimed check against every seed')
    ap.add_argument('--repo', default='/repo')
    ap.add_argument('-v', action='store_true')
    ap.add_argument('--patch', help='a patch file outside seeded/')
    ap.add_argument('--prop', help='property of --patch')
    a = ap.parse_args()
    if a.patch:
        props = list(CLAIMED) if a.all else [a.prop]
        with multiprocessing.Pool(16) as pool:
            out = pool.map(job, [(a.patch, p, a.repo) for p in props])
        for sid, prop, code, detail in out:
            if code or a.v:
                print(prop, 'exit', code)
                for d in detail[:5]:
                    print('      ', d)
        print('fired:', sorted(p for (_s, p, c, _d) in out if c == 1))
        return
    seeds = sorted(p.name for p in (VERIF / 'seeded').iterdir()
                   if (p / 'patch.diff').is_file())
    if a.ids:
        seeds = [s for s in seeds if s in a.ids or s.split('-')[0] in a.ids]
    jobs = []
    for s in seeds:
        own = json.load(open(VERIF / 'seeded' / s / 'meta.json'))['property']
        props = list(CLAIMED) if a.all else [own]
        jobs += [(s, p, a.repo) for p in props]
    res = {}
    with multiprocessing.Pool(16) as pool:
        for sid, prop, code, detail in pool.imap_unordered(job, jobs):
            res.setdefault(sid, {})[prop] = (code, detail)
    caught = 0
    for s in seeds:
        fired = sorted(p for p, (c, _d) in res[s].items() if c == 1)
        errs = sorted(p for p, (c, _d) in res[s].items() if c > 1)
        print(f'{s:10s} fired={fired} errors={errs}')
        if fired:
            caught += 1
        if a.v:
            for p in fired + errs:
                for d in res[s][p][1][:4]:
                    print('      ', p, d)
    print(f'{caught}/{len(seeds)} seeded changes reported')
    if a.all:
        out = {}
        if a.ids:
            # incremental: keep the entries of the seeds not run now
            try:
                out = json.load(open(VERIF / 'seeded' / 'MATRIX.json'))
            except (OSError, ValueError):
                out = {}
        for s_ in seeds:
            out[s_] = {
                'fired': sorted(p for p, (c, _d) in res[s_].items()
                                if c == 1),
                'rules': sorted({d.split(' ')[0] for p, (c, dl) in
                                 res[s_].items() if c == 1 for d in dl}),
            }
        json.dump(out, open(VERIF / 'seeded' / 'MATRIX.json', 'w'),
                  indent=1, sort_keys=True)
        print('matrix written to seeded/MATRIX.json')


if __name__ == '__main__':
    main()
